(* Proofs about the RFC 2047 word encoder model: its output consists of printable ASCII (and TAB)
   only, for every input byte string — so no caller-supplied text can put CR, LF, NUL or 8-bit
   bytes into a header line (C02); encoding is idempotent (C11). *)
From Coq Require Import String.
From Verif Require Import Bytes Base64 WordEnc.
From Coq Require Import Lia ZifyBool ZifyNat ZifyN.
Open Scope N_scope.

Lemma forallb_app_t : forall (f : N -> bool) a b,
  forallb f a = true -> forallb f b = true -> forallb f (a ++ b) = true.
Proof. intros f a b Ha Hb. rewrite forallb_app, Ha, Hb. reflexivity. Qed.

Lemma hexdig_safe : forall n, n < 16 -> hdr_safe_byte (hexdig n) = true.
Proof. intros n H. unfold hdr_safe_byte, hexdig. destruct (N.ltb_spec n 10); lia. Qed.

Lemma q_byte_safe : forall b, b < 256 -> forallb hdr_safe_byte (q_byte b) = true.
Proof.
  intros b Hb. unfold q_byte. destruct (N.eqb_spec b 32); [reflexivity|].
  destruct (q_plain b) eqn:Hq.
  - cbn. unfold q_plain in Hq. unfold hdr_safe_byte. lia.
  - cbn [forallb]. rewrite !hexdig_safe; [reflexivity| |].
    + apply N.mod_lt. lia.
    + apply N.div_lt_upper_bound; lia.
Qed.

Lemma split_word_safe : forall e, hdr_safe_byte e = true -> forallb hdr_safe_byte (split_word e) = true.
Proof. intros e He. unfold split_word, close_word, open_word, charset_utf8. cbn. now rewrite He. Qed.

Lemma q_encode_safe : forall s pend cur,
  wf_bytes s = true -> forallb hdr_safe_byte (q_encode s pend cur) = true.
Proof.
  induction s as [|b t IH]; intros pend cur Hwf; cbn [q_encode]; [reflexivity|].
  cbn [wf_bytes forallb] in Hwf. apply andb_true_iff in Hwf. destruct Hwf as [Hb Ht].
  unfold wf_byte in Hb. apply N.ltb_lt in Hb.
  destruct pend as [|p].
  - match goal with |- context [if ?c then _ else _] => destruct c end.
    + apply forallb_app_t; [apply split_word_safe; reflexivity|]. apply forallb_app_t; [now apply q_byte_safe|now apply IH].
    + apply forallb_app_t; [now apply q_byte_safe|now apply IH].
  - apply forallb_app_t; [now apply q_byte_safe|now apply IH].
Qed.

Lemma b64char_safe : forall n, hdr_safe_byte (b64char n) = true.
Proof.
  intros n. unfold hdr_safe_byte, b64char.
  destruct (N.ltb_spec n 26); [lia|]. destruct (N.ltb_spec n 52); [lia|].
  destruct (N.ltb_spec n 62); [lia|]. destruct (N.eqb_spec n 62); lia.
Qed.

Lemma b64enc_safe : forall s, forallb hdr_safe_byte (b64enc s) = true.
Proof.
  fix IH 1. intros [|a [|b [|c t]]]; cbn [b64enc forallb]; rewrite ?b64char_safe; try reflexivity.
  now rewrite IH.
Qed.

Lemma b_encode_safe : forall s pend chunk, forallb hdr_safe_byte (b_encode s pend chunk) = true.
Proof.
  induction s as [|b t IH]; intros pend chunk; cbn [b_encode]; [apply b64enc_safe|].
  destruct pend as [|p]; [|apply IH].
  match goal with |- context [if ?c then _ else _] => destruct c end; [apply IH|].
  apply forallb_app_t; [apply b64enc_safe|]. apply forallb_app_t; [apply split_word_safe; reflexivity|apply IH].
Qed.

Theorem encode_word_safe : forall e s,
  (e = 113 \/ e = 98) -> wf_bytes s = true -> forallb hdr_safe_byte (encode_word e s) = true.
Proof.
  intros e s He Hwf. unfold encode_word, open_word, close_word, charset_utf8.
  assert (Hse : hdr_safe_byte e = true) by (destruct He; subst; reflexivity).
  apply forallb_app_t; [cbn; now rewrite Hse|].
  apply forallb_app_t; [|reflexivity].
  destruct (N.eqb e 98).
  - destruct (Nat.leb _ _); [apply b64enc_safe|apply b_encode_safe].
  - now apply q_encode_safe.
Qed.

Lemma not_needs_encoding_safe : forall s, needs_encoding s = false -> forallb hdr_safe_byte s = true.
Proof.
  unfold needs_encoding. induction s as [|b t IH]; cbn [existsb forallb]; [reflexivity|].
  intros H. apply orb_false_iff in H. destruct H as [Hb Ht].
  rewrite (IH Ht), andb_true_r. unfold hdr_safe_byte. lia.
Qed.

Lemma safe_not_needs_encoding : forall s, forallb hdr_safe_byte s = true -> needs_encoding s = false.
Proof.
  unfold needs_encoding. induction s as [|b t IH]; cbn [existsb forallb]; [reflexivity|].
  intros H. apply andb_true_iff in H. destruct H as [Hb Ht].
  rewrite (IH Ht), orb_false_r. unfold hdr_safe_byte in Hb. lia.
Qed.

(* every byte string, every encoder: the encoded header value is printable ASCII / TAB only *)
Theorem word_encode_safe : forall e s,
  (e = 113 \/ e = 98) -> wf_bytes s = true -> forallb hdr_safe_byte (word_encode e s) = true.
Proof.
  intros e s He Hwf. unfold word_encode. destruct (needs_encoding s) eqn:E.
  - now apply encode_word_safe.
  - now apply not_needs_encoding_safe.
Qed.

Theorem word_encode_idem : forall e s,
  (e = 113 \/ e = 98) -> wf_bytes s = true -> word_encode e (word_encode e s) = word_encode e s.
Proof.
  intros e s He Hwf. unfold word_encode at 1.
  now rewrite (safe_not_needs_encoding _ (word_encode_safe e s He Hwf)).
Qed.

Lemma safe_wf : forall s, forallb hdr_safe_byte s = true -> wf_bytes s = true.
Proof.
  unfold wf_bytes. induction s as [|b t IH]; cbn [forallb]; [reflexivity|].
  intros H. apply andb_true_iff in H. destruct H as [Hb Ht].
  rewrite (IH Ht), andb_true_r. unfold hdr_safe_byte in Hb. unfold wf_byte. lia.
Qed.

(* a header-safe byte is neither CR nor LF nor NUL *)
Lemma safe_no_crlf : forall b, hdr_safe_byte b = true -> no_crlf_byte b = true.
Proof. intros b H. unfold hdr_safe_byte in H. unfold no_crlf_byte. lia. Qed.
