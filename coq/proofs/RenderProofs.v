(* RenderProofs.v — the state-passing writer model (Writer.v) writes exactly the pure
   serialisation (Render.v) on a destination that never fails (C01, tier B). *)
From Coq Require Import String.
From Verif Require Import Bytes Base64 LineBreaker QP HeaderFold WordEnc Writer Render.
From VerifGen Require Import Gen.
From VerifProofs Require Import WriterProofs RenderIdemProofs.
From Coq Require Import Lia ZifyBool ZifyNat ZifyN.
Open Scope nat_scope.

Ltac split3 := split; [|split].

(* ---------- the "nothing has gone wrong" predicate ---------- *)
Definition good (st : mw) : Prop :=
  err st = false /\ panicked st = false /\ cap (snk st) = None /\ failed (snk st) = false.

Definition out (st : mw) : bytes := accepted (snk st).

Lemma sink_write_good : forall k p, cap k = None -> failed k = false ->
  sink_write k p = (mksink None (recover k) false (accepted k ++ p), length p, false).
Proof. intros k p Hc Hf. unfold sink_write. rewrite Hf, Hc. reflexivity. Qed.

(* a step that appends [d] and leaves the multipart bookkeeping alone *)
Definition hstep (st st' : mw) (d : bytes) : Prop :=
  good st' /\ out st' = out st ++ d /\ depth st' = depth st /\ mps st' = mps st /\ pw st' = pw st.

Lemma hstep_refl : forall st, good st -> hstep st st [].
Proof. intros st H. unfold hstep. rewrite app_nil_r. auto. Qed.

Lemma hstep_trans : forall a b c d1 d2, hstep a b d1 -> hstep b c d2 -> hstep a c (d1 ++ d2).
Proof.
  intros a b c d1 d2 (G1 & O1 & D1 & M1 & P1) (G2 & O2 & D2 & M2 & P2).
  unfold hstep. rewrite O2, O1, app_assoc. ssplit; auto; congruence.
Qed.

Lemma hstep_trans_nil : forall a b c d, hstep a b d -> hstep b c [] -> hstep a c d.
Proof. intros a b c d H1 H2. rewrite <- (app_nil_r d). eapply hstep_trans; eauto. Qed.

Lemma hstep_good : forall a b d, hstep a b d -> good b.
Proof. intros a b d H. apply H. Qed.

Lemma write_string_step : forall s st, good st -> hstep st (write_string s st) s.
Proof.
  intros s st (He & Hp & Hc & Hf). unfold write_string. rewrite He, (sink_write_good _ _ Hc Hf).
  unfold hstep, good, out, set_snk; cbn. auto 10.
Qed.

Lemma mw_write_step : forall p st, good st -> exists st', mw_write st p = (st', false) /\ hstep st st' p.
Proof.
  intros p st (He & Hp & Hc & Hf). unfold mw_write. rewrite He, (sink_write_good _ _ Hc Hf).
  eexists. split; [reflexivity|]. unfold hstep, good, out, set_snk; cbn. auto 10.
Qed.

Lemma add_hcount_step : forall st n, good st -> hstep st (add_hcount st n) [].
Proof. intros st n H. unfold hstep, good, out, add_hcount in *; cbn. rewrite app_nil_r. tauto. Qed.

Lemma mw_write_header_step : forall k vs st,
  good st -> hstep st (fst (mw_write_header k vs st)) (hline k vs).
Proof.
  intros k vs st H. unfold mw_write_header, hline, write_header. destruct vs as [|v vs]; cbn [fst].
  - now apply hstep_refl.
  - eapply hstep_trans; [apply write_string_step, H|].
    apply write_string_step. eapply hstep_good, write_string_step, H.
Qed.

Lemma write_header_uncounted_step : forall k vs st,
  good st -> hstep st (write_header_uncounted k vs st) (hline k vs).
Proof. intros. now apply mw_write_header_step. Qed.

Lemma write_header_counted_step : forall k vs st,
  good st -> hstep st (write_header_counted k vs st) (hline k vs).
Proof.
  intros k vs st H. unfold write_header_counted.
  pose proof (mw_write_header_step k vs st H) as S.
  destruct (mw_write_header k vs st) as [st' n]. cbn [fst] in S.
  eapply hstep_trans_nil; [exact S|].
  apply add_hcount_step. eapply hstep_good, S.
Qed.

Lemma fold_hstep : forall A (f : mw -> A -> mw) (g : A -> bytes) l st,
  (forall s a, good s -> hstep s (f s a) (g a)) ->
  good st -> hstep st (fold_left f l st) (flat_map g l).
Proof.
  intros A f g l. induction l as [|a l IH]; intros st Hf H; cbn [fold_left flat_map].
  - now apply hstep_refl.
  - eapply hstep_trans; [apply Hf, H|]. apply IH; [exact Hf|]. eapply hstep_good, Hf, H.
Qed.

Lemma headers_step : forall z st,
  good st -> hstep st (write_top_headers z st) (top_headers (z_msg z)).
Proof.
  intros z st H. unfold write_top_headers. cbv zeta. set (m := z_msg z). unfold top_headers.
  assert (S1 : hstep st (write_gen_headers (m_gen m) st) (gen_text (m_gen m))).
  { unfold write_gen_headers, gen_text. apply fold_hstep; [|exact H].
    intros s kv Hs. now apply write_header_counted_step. }
  set (st1 := write_gen_headers (m_gen m) st) in *.
  assert (S2 : hstep st1 (write_preformatted (m_preform m) st1) (preform_text (m_preform m))).
  { unfold write_preformatted, preform_text. apply fold_hstep; [|eapply hstep_good, S1].
    intros s kv Hs.
    eapply hstep_trans_nil; [apply write_string_step, Hs|].
    apply add_hcount_step. eapply hstep_good, write_string_step, Hs. }
  set (st2 := write_preformatted (m_preform m) st1) in *.
  assert (S3 : hstep st2 (write_addr_headers m st2) (addr_text m)).
  { unfold write_addr_headers, addr_text.
    assert (S3a : hstep st2 (match m_from m with Some f => write_header_counted Gen.hdr_from [f] st2 | None => st2 end)
                        (match m_from m with Some f => hline Gen.hdr_from [f] | None => [] end)).
    { destruct (m_from m); [apply write_header_counted_step|apply hstep_refl]; eapply hstep_good, S2. }
    eapply hstep_trans; [exact S3a|].
    apply (fold_hstep _ (fun s k => match find (fun kv => bytes_eqb (fst kv) k) (m_addr m) with
                                    | Some kv => write_header_counted k (snd kv) s | None => s end)
                        (fun k => match find (fun kv => bytes_eqb (fst kv) k) (m_addr m) with
                                  | Some kv => hline k (snd kv) | None => [] end));
      [|eapply hstep_good, S3a].
    intros s k Hs. destruct (find _ (m_addr m)); [now apply write_header_counted_step|now apply hstep_refl]. }
  eapply hstep_trans; [exact S1|]. eapply hstep_trans; [exact S2|exact S3].
Qed.

(* ---------- the writer stack ---------- *)
Definition lp_of (started : bool) : option mpart :=
  if started then Some (mkmpart false false) else None.

Lemma nth_error_mid : forall A (pre : list A) w junk, nth_error (pre ++ w :: junk) (length pre) = Some w.
Proof. intros A pre w junk. induction pre as [|h t IH]; cbn; auto. Qed.

Lemma update_nth_mid : forall A (pre : list A) w x junk,
  update_nth (length pre) x (pre ++ w :: junk) = pre ++ x :: junk.
Proof. intros A pre w x junk. induction pre as [|h t IH]; cbn; [reflexivity|]. now rewrite IH. Qed.

Lemma good_set_mps : forall st l, good st -> good (set_mps st l).
Proof. intros st l H. exact H. Qed.

Lemma create_part_good : forall hdrs st pre b started junk,
  good st -> mps st = pre ++ mkmpw b (lp_of started) :: junk ->
  let st' := create_part (length pre) hdrs st in
  good st' /\ out st' = out st ++ delim b started ++ part_header_lines hdrs ++ crlf /\
  depth st' = depth st /\ mps st' = pre ++ mkmpw b (lp_of true) :: junk /\ pw st' = Some (length pre).
Proof.
  intros hdrs st pre b started junk H Hm. cbv zeta. unfold create_part.
  rewrite Hm, nth_error_mid.
  destruct started; cbn [lastpart boundary lp_of pwe];
  match goal with |- context [mw_write ?s ?p] =>
    destruct (mw_write_step p s (good_set_mps _ _ H)) as (st2 & E & (G2 & O2 & D2 & M2 & P2)); rewrite E end;
  unfold good, out, delim in *; cbn; rewrite M2; cbn; rewrite !update_nth_mid; rewrite O2, D2; cbn;
  rewrite <- ?app_assoc; tauto.
Qed.

Lemma mp_close_good : forall st pre b started junk,
  good st -> mps st = pre ++ mkmpw b (lp_of started) :: junk ->
  exists st', mp_close (length pre) st = (st', false) /\
  good st' /\ out st' = out st ++ close_delim b /\
  depth st' = depth st /\ mps st' = pre ++ mkmpw b None :: junk /\ pw st' = pw st.
Proof.
  intros st pre b started junk H Hm. unfold mp_close.
  rewrite Hm, nth_error_mid. cbn [lastpart boundary].
  assert (Hpe : match lp_of started with Some p => pwe p | None => false end = false) by (destruct started; reflexivity).
  rewrite Hpe, update_nth_mid.
  set (st1 := set_mps st (pre ++ mkmpw b None :: junk)).
  destruct (mw_write_step (crlf ++ dashdash ++ b ++ dashdash ++ crlf) st1 (good_set_mps _ _ H))
    as (st2 & E & (G2 & O2 & D2 & M2 & P2)).
  exists st2. split; [exact E|]. unfold close_delim. ssplit; auto.
Qed.

Lemma part_write_good : forall p st pre b junk,
  good st -> mps st = pre ++ mkmpw b (lp_of true) :: junk ->
  exists st', part_write (length pre) p st = (st', false) /\ hstep st st' p.
Proof.
  intros p st pre b junk H Hm. unfold part_write. rewrite Hm, nth_error_mid. cbn [lastpart lp_of pclosed].
  destruct (mw_write_step p st H) as (st2 & E & S). rewrite E. exists st2. auto.
Qed.

(* msgWriter.writeBody: at depth 0 into the destination, below through the current part *)
Definition body_ready (st : mw) : Prop :=
  depth st = 0 \/ exists pre b junk, pw st = Some (length pre) /\ mps st = pre ++ mkmpw b (lp_of true) :: junk.

Lemma write_body_step : forall p e st,
  good st -> pfail p = false -> body_ready st -> hstep st (write_body p e st) (encode_body e p).
Proof.
  intros p e st H Hp Hr. unfold write_body. rewrite Hp.
  destruct (encode_body e p) as [|b0 buf0] eqn:Eb; [now apply hstep_refl|].
  set (buf := b0 :: buf0).
  destruct (Nat.eqb_spec (depth st) 0) as [Hz|Hnz].
  - destruct H as (He & Hpn & Hc & Hf). rewrite (sink_write_good _ _ Hc Hf).
    unfold hstep, good, out; cbn. rewrite He. auto 10.
  - destruct Hr as [Hz|(pre & b & junk & Hpw & Hm)]; [lia|].
    rewrite Hpw. destruct (part_write_good buf st pre b junk H Hm) as (st2 & E & S).
    rewrite E. destruct H as (He & _). rewrite He.
    destruct S as (G2 & O2 & D2 & M2 & P2).
    unfold hstep, good, out in *; cbn. rewrite orb_false_r. tauto.
Qed.

(* msgWriter.writePartHeader writes the CreatePart form of the header block and the empty line *)
Lemma write_part_header_step : forall hdrs st,
  good st -> hstep st (write_part_header hdrs st) (part_header_lines hdrs ++ crlf).
Proof.
  intros hdrs st H. unfold write_part_header, part_header_lines.
  assert (S1 : hstep st
    (fold_left (fun s kv => fold_left (fun s2 v => write_string (fst kv ++ bs ": " ++ v ++ crlf) s2) (snd kv) s)
               (sort_kv hdrs) st)
    (flat_map (fun kv => flat_map (fun v => fst kv ++ bs ": " ++ v ++ crlf) (snd kv)) (sort_kv hdrs))).
  { apply (fold_hstep _ (fun s kv => fold_left (fun s2 v => write_string (fst kv ++ bs ": " ++ v ++ crlf) s2) (snd kv) s)
                        (fun kv => flat_map (fun v => fst kv ++ bs ": " ++ v ++ crlf) (snd kv))); [|exact H].
    intros s kv Hs.
    apply (fold_hstep _ (fun s2 v => write_string (fst kv ++ bs ": " ++ v ++ crlf) s2)
                        (fun v => fst kv ++ bs ": " ++ v ++ crlf)); [|exact Hs].
    intros s2 v Hs2. now apply write_string_step. }
  eapply hstep_trans; [exact S1|]. apply write_string_step. eapply hstep_good, S1.
Qed.

(* ---------- emitters: operations that write a list of sibling entities ---------- *)
(* where the siblings go: straight into the destination (depth 0), or into the multipart
   writer on top of the stack [pre], whose boundary is [b] *)
Inductive ctx := Top | Below (pre : list mpw) (b : bytes).

Definition in_ctx (c : ctx) (started : bool) (st : mw) : Prop :=
  match c with
  | Top => depth st = 0
  | Below pre b => depth st = S (length pre) /\ exists junk, mps st = pre ++ mkmpw b (lp_of started) :: junk
  end.

Definition is_top (c : ctx) : bool := match c with Top => true | Below _ _ => false end.
Definition nonnil {A} (l : list A) : bool := match l with [] => false | _ => true end.

Definition ser_items (c : ctx) (started : bool) (ns : list node) : bytes :=
  match c with
  | Top => concat (map ser_node ns)
  | Below _ b => frame_from b started (map ser_node ns)
  end.

(* [fo c encl]: leaves written directly in this context get the folded depth-0 header form *)
Definition fo (c : ctx) (encl : bool) : bool := is_top c && negb encl.

Definition emits (encl : bool) (f : mw -> mw) (ns : bool -> list node) : Prop :=
  forall c started st, good st -> in_ctx c started st ->
    good (f st) /\ in_ctx c (started || nonnil (ns (fo c encl))) (f st) /\
    out (f st) = out st ++ ser_items c started (ns (fo c encl)).

Lemma frame_from_app : forall b x y s,
  frame_from b s (x ++ y) = frame_from b s x ++ frame_from b (s || nonnil x) y.
Proof.
  intros b x. induction x as [|k r IH]; intros y s; cbn [frame_from app nonnil].
  - now rewrite orb_false_r.
  - rewrite IH. rewrite orb_true_r. cbn [orb]. rewrite <- !app_assoc. reflexivity.
Qed.

Lemma ser_items_app : forall c s x y,
  ser_items c s (x ++ y) = ser_items c s x ++ ser_items c (s || nonnil x) y.
Proof.
  intros [|pre b] s x y; cbn [ser_items]; rewrite map_app.
  - apply concat_app.
  - rewrite frame_from_app. now destruct x.
Qed.

Lemma nonnil_app : forall A (x y : list A), nonnil (x ++ y) = nonnil x || nonnil y.
Proof. intros A [|a x] y; reflexivity. Qed.

Lemma emits_app : forall encl f g a b,
  emits encl f a -> emits encl g b -> emits encl (fun st => g (f st)) (fun top => a top ++ b top).
Proof.
  intros encl f g a b Hf Hg c started st G C.
  destruct (Hf c started st G C) as (G1 & C1 & O1).
  destruct (Hg c _ (f st) G1 C1) as (G2 & C2 & O2).
  split3; [exact G2| |].
  - rewrite nonnil_app, orb_assoc. exact C2.
  - rewrite O2, O1, ser_items_app, app_assoc. reflexivity.
Qed.

Lemma emits_ext : forall encl f g a, (forall st, f st = g st) -> emits encl f a -> emits encl g a.
Proof. intros encl f g a E H c s st G C. rewrite <- E. now apply H. Qed.

(* one leaf: header (depth 0: [hd0], below: CreatePart) and body *)
Lemma leaf_emit : forall (hd0 : mw -> mw) (h0 : bytes) hdrs prod e st c started,
  good st -> in_ctx c started st -> pfail prod = false ->
  (depth st = 0 -> hstep st (hd0 st) (h0 ++ crlf)) ->
  let st1 := if Nat.eqb (depth st) 0 then hd0 st else new_part hdrs st in
  let st2 := if err st1 then st1 else st1 |> write_body prod e in
  good st2 /\ in_ctx c true st2 /\
  out st2 = out st ++ ser_items c started [Leaf (if is_top c then h0 else part_header_lines hdrs) (encode_body e prod)].
Proof.
  intros hd0 h0 hdrs prod e st c started G C Hp H0. cbv zeta.
  destruct c as [|pre b]; cbn [in_ctx is_top ser_items map concat ser_node frame_from] in *.
  - rewrite C. cbn [Nat.eqb]. specialize (H0 C). destruct H0 as (G1 & O1 & D1 & M1 & P1).
    assert (E1 : err (hd0 st) = false) by apply G1. rewrite E1.
    rewrite andthen_run by apply G1.
    destruct (write_body_step prod e (hd0 st) G1 Hp) as (G2 & O2 & D2 & M2 & P2); [left; congruence|].
    split3; [exact G2|congruence|]. rewrite O2, O1, app_nil_r, <- !app_assoc. reflexivity.
  - destruct C as (D & junk & M). rewrite D. cbn [Nat.eqb]. unfold new_part. rewrite D.
    replace (S (length pre) - 1) with (length pre) by lia.
    destruct (create_part_good hdrs st pre b started junk G M) as (G1 & O1 & D1 & M1 & P1).
    set (st1 := create_part (length pre) hdrs st) in *.
    assert (E1 : err st1 = false) by apply G1. rewrite E1.
    rewrite andthen_run by apply G1.
    destruct (write_body_step prod e st1 G1 Hp) as (G2 & O2 & D2 & M2 & P2).
    { right. exists pre, b, junk. auto. }
    split3; [exact G2| |].
    + split; [congruence|]. exists junk. congruence.
    + rewrite O2, O1, app_nil_r, <- !app_assoc. reflexivity.
Qed.

Lemma ser_items_cons : forall c s n ns,
  ser_items c s (n :: ns) = ser_items c s [n] ++ ser_items c true ns.
Proof.
  intros c s n ns. change (n :: ns) with ([n] ++ ns). rewrite ser_items_app. cbn [nonnil].
  now rewrite orb_true_r.
Qed.

Lemma write_part_emits : forall encl m p,
  pfail (p_prod p) = false ->
  emits encl (write_part encl (m_wenc m) (m_charset m) p) (fun fo => [part_leaf m fo p]).
Proof.
  intros encl m p Hp c started st G C. unfold write_part. cbv zeta.
  fold (part_cs (m_charset m) p). fold (part_ctype (m_charset m) p). fold (part_kvs (m_wenc m) (m_charset m) p).
  pose proof (leaf_emit
      (fun s => if encl then write_part_header (part_kvs (m_wenc m) (m_charset m) p) s
                else write_string crlf
                       (write_header_uncounted h_ctype [part_ctype (m_charset m) p]
                          (write_header_uncounted h_cte [enc_name (p_enc p)] s)))
      (if encl then part_header_lines (part_kvs (m_wenc m) (m_charset m) p)
       else hline h_cte [enc_name (p_enc p)] ++ hline h_ctype [part_ctype (m_charset m) p])
      (part_kvs (m_wenc m) (m_charset m) p) (p_prod p) (p_enc p) st c started G C Hp) as L.
  cbv zeta beta in L. cbn [nonnil]. rewrite orb_true_r.
  assert (E : Leaf (if is_top c then if encl then part_header_lines (part_kvs (m_wenc m) (m_charset m) p)
                                    else hline h_cte [enc_name (p_enc p)] ++ hline h_ctype [part_ctype (m_charset m) p]
                    else part_header_lines (part_kvs (m_wenc m) (m_charset m) p))
                   (encode_body (p_enc p) (p_prod p)) = part_leaf m (fo c encl) p).
  { unfold part_leaf, part_hdr, fo. destruct (is_top c), encl; reflexivity. }
  rewrite E in L. apply L. clear L E.
  intros D. destruct encl; [now apply write_part_header_step|].
  rewrite <- app_assoc.
  eapply hstep_trans; [apply write_header_uncounted_step, G|].
  eapply hstep_trans; [apply write_header_uncounted_step; eapply hstep_good, write_header_uncounted_step, G|].
  apply write_string_step. eapply hstep_good, write_header_uncounted_step. eapply hstep_good, write_header_uncounted_step, G.
Qed.

Lemma write_parts_emits : forall encl m parts,
  existsb has_failing_part parts = false ->
  emits encl (fun st => fold_left (fun s p => s |> write_part encl (m_wenc m) (m_charset m) p) parts st)
        (fun top => map (part_leaf m top) parts).
Proof.
  intros encl m parts. induction parts as [|p rest IH]; intros Hf c started st G C; cbn [fold_left map].
  - cbn [nonnil ser_items]. rewrite orb_false_r. destruct c; cbn; rewrite app_nil_r; auto.
  - cbn [existsb] in Hf. apply orb_false_iff in Hf. destruct Hf as [Hp Hr].
    rewrite andthen_run by apply G.
    destruct (write_part_emits encl m p Hp c started st G C) as (G1 & C1 & O1).
    cbn [nonnil] in C1. rewrite orb_true_r in C1.
    destruct (IH Hr c true _ G1 C1) as (G2 & C2 & O2).
    split3; [exact G2| |].
    + cbn [nonnil]. rewrite orb_true_r. cbn [orb] in C2. exact C2.
    + rewrite ser_items_cons, O2, O1, app_assoc. reflexivity.
Qed.

Lemma add_files_emits : forall encl files,
  existsb has_failing_rfile files = false ->
  emits encl (add_files encl files) (fun top => map (file_leaf top) files).
Proof.
  intros encl. induction files as [|[f' e] rest IH]; intros Hf c started st G C; cbn [add_files map].
  - cbn [nonnil ser_items]. rewrite orb_false_r. destruct c; cbn; rewrite app_nil_r; auto.
  - cbn [existsb] in Hf. apply orb_false_iff in Hf. destruct Hf as [Hp Hr].
    unfold has_failing_rfile in Hp. cbn [fst] in Hp.
    assert (Pn : panicked st = false) by apply G. rewrite Pn.
    pose proof (leaf_emit
      (fun s => if encl then write_part_header (file_kvs f') s
                else write_string crlf
                       (fold_left (fun s kv => write_header_uncounted (fst kv) (snd kv) s) (sort_kv (file_kvs f')) s))
      (if encl then part_header_lines (file_kvs f')
       else flat_map (fun kv => hline (fst kv) (snd kv)) (sort_kv (file_kvs f')))
      (file_kvs f') (f_prod f') e st c started G C Hp) as L.
    cbv zeta beta in L. fold (file_kvs f').
    assert (E : Leaf (if is_top c then if encl then part_header_lines (file_kvs f')
                                      else flat_map (fun kv => hline (fst kv) (snd kv)) (sort_kv (file_kvs f'))
                      else part_header_lines (file_kvs f'))
                     (encode_body e (f_prod f')) = file_leaf (fo c encl) (f', e)).
    { unfold file_leaf, file_hdr, fo. cbn [fst snd]. destruct (is_top c), encl; reflexivity. }
    rewrite E in L.
    destruct L as (G1 & C1 & O1).
    { intros D. destruct encl; [now apply write_part_header_step|]. eapply hstep_trans.
      - apply (fold_hstep _ (fun s kv => write_header_uncounted (fst kv) (snd kv) s)
                           (fun kv => hline (fst kv) (snd kv))); [|exact G].
        intros s kv Hs. now apply write_header_uncounted_step.
      - apply write_string_step.
        eapply hstep_good, (fold_hstep _ (fun s kv => write_header_uncounted (fst kv) (snd kv) s)
                           (fun kv => hline (fst kv) (snd kv))); [|exact G].
        intros s kv Hs. now apply write_header_uncounted_step. }
    destruct (IH Hr c true _ G1 C1) as (G2 & C2 & O2).
    split3; [exact G2| |].
    + cbn [nonnil]. rewrite orb_true_r. cbn [orb] in C2. exact C2.
    + rewrite ser_items_cons, O2, O1, app_assoc. reflexivity.
Qed.

Lemma add_files_safe_emits : forall encl files,
  existsb has_failing_rfile files = false ->
  emits encl (add_files_safe encl files) (fun top => map (file_leaf top) files).
Proof.
  intros encl files Hf c started st G C. unfold add_files_safe.
  assert (Pn : panicked st = false) by apply G. rewrite Pn. now apply add_files_emits.
Qed.

(* ---------- one multipart layer ---------- *)
Definition mp_ctype (mime b : bytes) : bytes :=
  bs "multipart/" ++ mime ++ bs ";" ++ crlf ++ bs " boundary=" ++ b.

Lemma mp_hdr_top : forall mime b,
  (bs "Content-Type: " ++ mp_ctype mime b) ++ Gen.double_newline = mp_hdr mime b ++ crlf.
Proof. intros. unfold mp_hdr, mp_ctype. rewrite <- !app_assoc. reflexivity. Qed.

Lemma mp_hdr_inner : forall mime b,
  part_header_lines [(bs "Content-Type", [mp_ctype mime b])] = mp_hdr mime b.
Proof.
  intros. unfold part_header_lines, sort_kv, mp_hdr, mp_ctype. cbn [fold_right insert_kv flat_map fst snd].
  rewrite !app_nil_r. rewrite <- !app_assoc. reflexivity.
Qed.

Lemma firstn_mid : forall A (pre : list A) w junk, firstn (S (length pre)) (pre ++ w :: junk) = pre ++ [w].
Proof.
  intros A pre w junk. induction pre as [|h t IH]; [reflexivity|].
  change (firstn (S (length (h :: t))) ((h :: t) ++ w :: junk)) with (h :: firstn (S (length t)) (t ++ w :: junk)).
  now rewrite IH.
Qed.

(* msgWriter.startMP at depth 0 *)
Lemma start_mp_top : forall mime b st,
  good st -> depth st = 0 ->
  let s := open_mp true mime b false st in
  good s /\ depth s = 1 /\ mps s = [mkmpw b None] /\
  out s = out st ++ mp_hdr mime b ++ crlf.
Proof.
  intros mime b st G D. cbv zeta.
  assert (Pn : panicked st = false) by apply G.
  unfold open_mp. rewrite Pn. unfold start_mp. cbv zeta. cbv iota. fold (mp_ctype mime b).
  rewrite D. cbn [firstn app].
  set (st2 := set_mps st [mkmpw b None]).
  change (depth st2) with (depth st). rewrite D. cbn [Nat.eqb].
  assert (G2 : good st2) by exact G.
  pose proof (write_string_step (bs "Content-Type: " ++ mp_ctype mime b) st2 G2) as (G3 & O3 & D3 & M3 & P3).
  set (st3 := write_string _ st2) in *.
  assert (Pn3 : panicked st3 = false) by apply G3. rewrite Pn3.
  set (s := set_depth st3 (S (depth st3))).
  assert (Ds : depth s = 1) by (unfold s; cbn; rewrite D3; change (depth st2) with (depth st); now rewrite D).
  rewrite Ds. cbn [Nat.eqb].
  assert (Gs : good s) by exact G3.
  rewrite andthen_run by apply Gs.
  pose proof (write_string_step Gen.double_newline s Gs) as (G4 & O4 & D4 & M4 & P4).
  split; [exact G4|]. split; [congruence|]. split.
  - rewrite M4. change (mps s) with (mps st3). rewrite M3. reflexivity.
  - rewrite O4. change (out s) with (out st3). rewrite O3. change (out st2) with (out st).
    rewrite <- app_assoc. f_equal. apply mp_hdr_top.
Qed.

(* msgWriter.startMP below depth 0: a new part of the enclosing writer *)
Lemma start_mp_in : forall mime b st pre bp started junk,
  good st -> depth st = S (length pre) -> mps st = pre ++ mkmpw bp (lp_of started) :: junk ->
  let s := open_mp true mime b false st in
  good s /\ depth s = S (S (length pre)) /\
  mps s = (pre ++ [mkmpw bp (lp_of true)]) ++ [mkmpw b None] /\
  out s = out st ++ delim bp started ++ mp_hdr mime b ++ crlf.
Proof.
  intros mime b st pre bp started junk G D M. cbv zeta.
  assert (Pn : panicked st = false) by apply G.
  unfold open_mp. rewrite Pn. unfold start_mp. cbv zeta. cbv iota. fold (mp_ctype mime b).
  rewrite D, M, firstn_mid.
  set (wp := mkmpw bp (lp_of started)) in *.
  set (st2 := set_mps st ((pre ++ [wp]) ++ [mkmpw b None])).
  change (depth st2) with (depth st). rewrite D. cbn [Nat.eqb].
  assert (G2 : good st2) by exact G.
  assert (M2 : mps st2 = pre ++ wp :: [mkmpw b None]) by (unfold st2; cbn; now rewrite <- app_assoc).
  unfold new_part. change (depth st2) with (depth st). rewrite D.
  replace (S (length pre) - 1) with (length pre) by lia.
  destruct (create_part_good [(bs "Content-Type", [mp_ctype mime b])] st2 pre bp started _ G2 M2)
    as (G3 & O3 & D3 & M3 & P3).
  set (st3 := create_part (length pre) _ st2) in *.
  assert (Pn3 : panicked st3 = false) by apply G3. rewrite Pn3.
  set (sA := set_depth st3 (S (depth st3))).
  assert (DA : depth sA = S (S (length pre))) by (unfold sA; cbn; rewrite D3; change (depth st2) with (depth st); now rewrite D).
  rewrite DA. cbn [Nat.eqb].
  split; [exact G3|]. split; [exact DA|]. split.
  - change (mps sA) with (mps st3). rewrite M3, <- app_assoc. reflexivity.
  - change (out sA) with (out st3). rewrite O3. change (out st2) with (out st). now rewrite mp_hdr_inner.
Qed.

Lemma stop_mp_good : forall st pre b started junk,
  good st -> depth st = S (length pre) -> mps st = pre ++ mkmpw b (lp_of started) :: junk ->
  good (stop_mp st) /\ depth (stop_mp st) = length pre /\
  mps (stop_mp st) = pre ++ mkmpw b None :: junk /\
  out (stop_mp st) = out st ++ close_delim b.
Proof.
  intros st pre b started junk G D M. unfold stop_mp. rewrite D.
  destruct (mp_close_good st pre b started junk G M) as (st' & E & G6 & O6 & D6 & M6 & P6).
  rewrite E. assert (Pn6 : panicked st' = false) by apply G6. rewrite Pn6.
  split; [unfold good in *; cbn; tauto|]. split; [reflexivity|]. split; [exact M6|exact O6].
Qed.

Lemma wrap_emits : forall encl cnd mime b f inner,
  emits encl f inner ->
  emits encl (fun st => close_mp cnd (f (open_mp cnd mime b false st))) (wrap_mp cnd mime b inner).
Proof.
  intros encl cnd mime b f inner H. destruct cnd; [|exact H].
  intros c started st G C. unfold wrap_mp. cbn [nonnil]. rewrite orb_true_r.
  unfold close_mp.
  destruct c as [|pre bp]; cbn [in_ctx fo is_top andb ser_items map concat ser_node frame_from] in *.
  - (* depth 0 *)
    destruct (start_mp_top mime b st G C) as (GA & DA & MA & OA).
    set (sA := open_mp true mime b false st) in *.
    assert (CA : in_ctx (Below [] b) false sA) by (cbn; split; [exact DA|exists []; exact MA]).
    destruct (H (Below [] b) false sA GA CA) as (G5 & C5 & O5).
    cbn [in_ctx fo is_top andb ser_items orb] in *. destruct C5 as (D5 & junk & M5).
    rewrite andthen_run by apply G5.
    destruct (stop_mp_good (f sA) [] b _ junk G5 D5 M5) as (G6 & D6 & M6 & O6).
    split; [exact G6|]. split; [exact D6|].
    rewrite O6, O5, OA. rewrite app_nil_r. unfold mp_frame. rewrite <- !app_assoc. reflexivity.
  - (* inside the writer on top of [pre] *)
    destruct C as (D & junk & M).
    destruct (start_mp_in mime b st pre bp started junk G D M) as (GA & DA & MA & OA).
    set (sA := open_mp true mime b false st) in *.
    set (wp' := mkmpw bp (lp_of true)) in *.
    assert (CA : in_ctx (Below (pre ++ [wp']) b) false sA).
    { cbn [in_ctx lp_of]. split; [rewrite DA, app_length; cbn [length]; lia|]. exists []. exact MA. }
    destruct (H (Below (pre ++ [wp']) b) false sA GA CA) as (G5 & C5 & O5).
    cbn [in_ctx fo is_top andb ser_items orb] in *. destruct C5 as (D5 & junk5 & M5).
    rewrite andthen_run by apply G5.
    destruct (stop_mp_good (f sA) (pre ++ [wp']) b _ junk5 G5 D5 M5) as (G6 & D6 & M6 & O6).
    split; [exact G6|]. split.
    + split; [rewrite D6, app_length; cbn; lia|]. exists (mkmpw b None :: junk5).
      rewrite M6, <- app_assoc. reflexivity.
    + rewrite O6, O5, OA. rewrite app_nil_r. unfold mp_frame. rewrite <- !app_assoc. reflexivity.
Qed.

(* ---------- write_resolved ---------- *)
Definition no_bad_boundary (z : rmsg) : Prop :=
  z_bad_mixed z = false /\ z_bad_related z = false /\ z_bad_alt z = false.

Lemma entity_emits : forall encl z,
  no_bad_boundary z -> rmsg_has_failing_producer z = false ->
  emits encl (write_entity encl z) (mix_level z).
Proof.
  intros encl z (B1 & B2 & B3) Hf. unfold write_entity. rewrite B1, B2, B3. cbv zeta.
  unfold rmsg_has_failing_producer in Hf.
  apply orb_false_iff in Hf. destruct Hf as [Hf Ha]. apply orb_false_iff in Hf. destruct Hf as [Hp He].
  set (m := z_msg z) in *.
  pose proof (write_parts_emits encl m (m_parts m) Hp) as E1.
  pose proof (wrap_emits encl (has_alt m) Gen.mime_alternative (m_balt m) _ _ E1) as E2.
  pose proof (emits_app encl _ _ _ _ E2 (add_files_safe_emits encl (z_embeds z) He)) as E3.
  pose proof (wrap_emits encl (has_related m) Gen.mime_related (m_brelated m) _ _ E3) as E4.
  pose proof (emits_app encl _ _ _ _ E4 (add_files_safe_emits encl (z_attach z) Ha)) as E5.
  pose proof (wrap_emits encl (has_mixed m) Gen.mime_mixed (m_bmixed m) _ _ E5) as E6.
  exact E6.
Qed.

(* the body entity at depth 0, plain (encl = false) or enclosed form (encl = true) *)
Theorem write_entity_top : forall encl z st,
  no_bad_boundary z -> rmsg_has_failing_producer z = false ->
  good st -> depth st = 0 ->
  good (write_entity encl z st) /\ depth (write_entity encl z st) = 0 /\
  out (write_entity encl z st) = out st ++ body_gen encl z.
Proof.
  intros encl z st B Hf G D.
  destruct (entity_emits encl z B Hf Top false st G D) as (G5 & C5 & O5).
  split3; [exact G5|exact C5|]. rewrite O5. unfold body_gen, forest_gen, fo. cbn [ser_items is_top andb]. reflexivity.
Qed.

Theorem write_resolved_pure : forall z st,
  no_bad_boundary z -> rmsg_has_failing_producer z = false ->
  good st -> depth st = 0 ->
  good (write_resolved z st) /\ depth (write_resolved z st) = 0 /\
  out (write_resolved z st) = out st ++ render_pure z.
Proof.
  intros z st B Hf G D.
  pose proof (headers_step z st G) as (G4 & O4 & D4 & M4 & P4).
  destruct (write_entity_top false z _ B Hf G4) as (G5 & C5 & O5); [congruence|].
  unfold write_resolved, write_resolved_gen. split3; [exact G5|exact C5|].
  rewrite O5, O4. unfold render_pure, body_pure. now rewrite <- app_assoc.
Qed.

Lemma good_init : good (mw_init unlimited).
Proof. unfold good; cbn; auto. Qed.

(* on a destination that never fails: no error, no panic, and exactly the pure rendering *)
Theorem write_resolved_unlimited : forall z,
  no_bad_boundary z -> rmsg_has_failing_producer z = false ->
  let st := write_resolved z (mw_init unlimited) in
  err st = false /\ panicked st = false /\ accepted (snk st) = render_pure z.
Proof.
  intros z B Hf. cbv zeta.
  destruct (write_resolved_pure z (mw_init unlimited) B Hf good_init eq_refl) as ((E & P & _) & _ & O).
  split3; [exact E|exact P|exact O].
Qed.

Theorem write_to_pure : forall d i rb m,
  no_bad_boundary (resolve d i rb m) -> msg_has_failing_producer m = false ->
  r_out (write_to d i rb m unlimited) = render_pure (resolve d i rb m) /\
  r_err (write_to d i rb m unlimited) = false /\
  r_panic (write_to d i rb m unlimited) = false.
Proof.
  intros d i rb m B Hf. unfold write_to, write_msg. cbn [r_out r_err r_panic].
  rewrite <- resolve_failing with (date := d) (msgid := i) (rb := rb) in Hf.
  destruct (write_resolved_unlimited _ B Hf) as (E & P & O). auto.
Qed.

(* ---------- the enclosed form (S/MIME pre-render, C08) ---------- *)
(* With msgWriter.enclosedForm the body entity has the same text at depth 0 as it has as the
   first child of an enclosing multipart writer: written at depth 0 it appends T; written at
   depth 1 below a fresh writer with boundary sb it appends "--" sb CRLF T and leaves that
   writer with an open part.  (Plain form: true for multipart entities only — a single part or
   single file at depth 0 uses folded writeHeader fields in a different order, and omits
   Content-Description; see part_hdr / file_hdr.) *)
Theorem entity_enclosed : forall z t sb st0 st1 junk,
  no_bad_boundary z -> rmsg_has_failing_producer z = false ->
  forest_gen true z = [t] ->
  good st0 -> depth st0 = 0 ->
  good st1 -> depth st1 = 1 -> mps st1 = mkmpw sb None :: junk ->
  out (write_entity true z st0) = out st0 ++ ser_node t /\
  out (write_entity true z st1) = out st1 ++ dashdash ++ sb ++ crlf ++ ser_node t /\
  good (write_entity true z st1) /\ depth (write_entity true z st1) = 1 /\
  exists junk', mps (write_entity true z st1) = mkmpw sb (Some (mkmpart false false)) :: junk'.
Proof.
  intros z t sb st0 st1 junk B Hf Ht G0 D0 G1 D1 M1.
  destruct (write_entity_top true z st0 B Hf G0 D0) as (_ & _ & O0).
  assert (C1 : in_ctx (Below [] sb) false st1) by (cbn [in_ctx lp_of length app]; split; [exact D1|exists junk; exact M1]).
  destruct (entity_emits true z B Hf (Below [] sb) false st1 G1 C1) as (G2 & C2 & O2).
  unfold fo in *. cbn [is_top andb] in *. change (mix_level z false) with (forest_gen true z) in *.
  rewrite Ht in *. cbn [nonnil orb in_ctx lp_of length app] in C2. destruct C2 as (D2 & junk' & M2).
  split; [rewrite O0; unfold body_gen; rewrite Ht; cbn [map concat]; now rewrite app_nil_r|].
  split; [|split; [exact G2|split; [exact D2|exists junk'; exact M2]]].
  rewrite O2. cbn [ser_items map frame_from]. unfold delim. cbn [app]. rewrite app_nil_r, <- !app_assoc. reflexivity.
Qed.

(* the plain form coincides with the enclosed form exactly on the leaves' header blocks: an
   outermost multipart node is the same in both *)
Lemma wrap_mp_true_indep : forall mime b inner f1 f2, wrap_mp true mime b inner f1 = wrap_mp true mime b inner f2.
Proof. reflexivity. Qed.

Theorem forest_plain_eq_enclosed_multipart : forall z h b kids,
  forest_gen false z = [Multi h b kids] -> forest_gen true z = [Multi h b kids].
Proof.
  intros z h b kids. unfold forest_gen, mix_level, rel_level, alt_level. cbv zeta. cbn [negb].
  destruct (has_mixed (z_msg z)); [auto|]. cbn [wrap_mp].
  destruct (has_related (z_msg z)); cbn [wrap_mp].
  { destruct (z_attach z); cbn [map app]; [auto|discriminate]. }
  destruct (has_alt (z_msg z)); cbn [wrap_mp].
  { destruct (z_embeds z); cbn [map app]; [|discriminate]. destruct (z_attach z); cbn [map app]; [auto|discriminate]. }
  destruct (m_parts (z_msg z)); cbn [map app]; [|discriminate].
  destruct (z_embeds z); cbn [map app]; [|discriminate].
  destruct (z_attach z); cbn [map app]; discriminate.
Qed.

(* as soon as there is any content the body is ONE entity *)
Lemma forest_single : forall encl z,
  1 <= length (m_parts (z_msg z)) + length (z_embeds z) + length (z_attach z) ->
  length (m_embeds (z_msg z)) = length (z_embeds z) -> length (m_attach (z_msg z)) = length (z_attach z) ->
  exists t, forest_gen encl z = [t].
Proof.
  intros encl z Hn He Ha. unfold forest_gen, mix_level, rel_level, alt_level. cbv zeta.
  unfold has_mixed, has_related, has_alt. rewrite He, Ha.
  destruct (m_parts (z_msg z)) as [|p1 [|p2 ps]]; destruct (z_embeds z) as [|e1 [|e2 es]];
    destruct (z_attach z) as [|a1 [|a2 az]]; cbn in *; try lia; eexists; reflexivity.
Qed.

Lemma resolve_lengths : forall d i rb m,
  length (m_embeds (z_msg (resolve d i rb m))) = length (z_embeds (resolve d i rb m)) /\
  length (m_attach (z_msg (resolve d i rb m))) = length (z_attach (resolve d i rb m)) /\
  length (z_embeds (resolve d i rb m)) = length (m_embeds m) /\
  length (z_attach (resolve d i rb m)) = length (m_attach m) /\
  m_parts (z_msg (resolve d i rb m)) = m_parts m.
Proof.
  intros d i rb m. unfold resolve.
  destruct (if has_mixed m then _ else _) as [bm badm].
  destruct (if has_related m then _ else _) as [br badr].
  destruct (if has_alt m then _ else _) as [ba bada].
  cbn. rewrite !map_length. auto.
Qed.
