(* SaslProofs.v — C14: the client messages are read back / accepted by the RFC-side readers and verifiers of
   Sasl.v, for all credentials; the SCRAM proof satisfies the server's check for every H / HMAC; every
   client-first uses a fresh draw of the randomness oracle. *)
From Coq Require Import String ZArith Lia.
From Verif Require Import Bytes Base64 Scram AuthLoop Sasl.
From VerifGen Require Import Gen.
Open Scope N_scope.

(* (kept local: this file must not depend on ScramProofs.v, whose T1 obligation fails on a tree without the C15 repairs) *)
Lemma bytes_eqb_eq : forall a b, bytes_eqb a b = true -> a = b.
Proof.
  induction a as [|x a IH]; destruct b as [|y b]; simpl; intros E; try discriminate; auto.
  apply andb_true_iff in E. destruct E as [E1 E2]. apply N.eqb_eq in E1. subst. f_equal. auto.
Qed.

Lemma bytes_eqb_refl : forall a, bytes_eqb a a = true.
Proof. induction a; simpl; auto. rewrite N.eqb_refl. auto. Qed.

(* ---- saslname escaping (RFC 5802 section 5.1) ---- *)
Lemma escape_cons : forall c u,
  escape_name (c :: u) = (if c =? 61 then bs "=3D" else if c =? 44 then bs "=2C" else [c]) ++ escape_name u.
Proof. reflexivity. Qed.

Lemma unescape_3D : forall t, unescape_name (bs "=3D" ++ t) = option_map (cons 61) (unescape_name t).
Proof. reflexivity. Qed.
Lemma unescape_2C : forall t, unescape_name (bs "=2C" ++ t) = option_map (cons 44) (unescape_name t).
Proof. reflexivity. Qed.
Lemma unescape_other : forall c t, (c =? 61) = false -> (c =? 44) = false ->
  unescape_name (c :: t) = option_map (cons c) (unescape_name t).
Proof.
  intros c t E1 E2. destruct c as [|p]; [reflexivity|].
  do 7 (try (destruct p as [p|p|]; try reflexivity; try (simpl in E1, E2; discriminate))).
Qed.

Lemma escape_unescape : forall u, unescape_name (escape_name u) = Some u.
Proof.
  induction u as [|c u IH]; [reflexivity|]. rewrite escape_cons.
  destruct (c =? 61) eqn:E1.
  - apply N.eqb_eq in E1. subst c. rewrite unescape_3D, IH. reflexivity.
  - destruct (c =? 44) eqn:E2.
    + apply N.eqb_eq in E2. subst c. rewrite unescape_2C, IH. reflexivity.
    + change ([c] ++ escape_name u) with (c :: escape_name u). rewrite unescape_other, IH; auto.
Qed.

Lemma escape_no_comma : forall u, ~ In 44 (escape_name u).
Proof.
  induction u as [|c u IH]; [intros []|].
  rewrite escape_cons. intros I. apply in_app_or in I. destruct I as [I|I]; [|auto].
  destruct (c =? 61) eqn:E1.
  - simpl in I. intuition discriminate.
  - destruct (c =? 44) eqn:E2.
    + simpl in I. intuition discriminate.
    + simpl in I. destruct I as [I|[]]. subst c. discriminate.
Qed.

(* ---- splitting at a byte that does not occur in the first field ---- *)
Lemma split_on_none : forall sep a, ~ In sep a -> split_on sep a = [a].
Proof.
  induction a as [|b a IH]; intros NI; [reflexivity|]. simpl.
  destruct (b =? sep) eqn:E; [apply N.eqb_eq in E; subst; exfalso; apply NI; left; reflexivity|].
  rewrite IH; [reflexivity|]. intros I. apply NI. right. auto.
Qed.

Lemma split_on_app : forall sep a b, ~ In sep a -> split_on sep (a ++ sep :: b) = a :: split_on sep b.
Proof.
  induction a as [|c a IH]; intros b NI; simpl.
  - rewrite N.eqb_refl. reflexivity.
  - destruct (c =? sep) eqn:E; [apply N.eqb_eq in E; subst; exfalso; apply NI; left; reflexivity|].
    rewrite IH; [reflexivity|]. intros I. apply NI. right. auto.
Qed.

(* ---- PLAIN (RFC 4616) ---- *)
Lemma plain_roundtrip : forall a,
  ~ In 0 (pl_identity a) -> ~ In 0 (pl_user a) -> ~ In 0 (pl_pass a) ->
  parse_plain (plain_msg a) = Some (pl_identity a, pl_user a, pl_pass a).
Proof.
  intros a Z U P. unfold parse_plain, plain_msg. simpl app.
  rewrite split_on_app; auto. rewrite split_on_app; auto. rewrite split_on_none; auto.
Qed.

(* ---- XOAUTH2 ---- *)
Lemma until_byte_app : forall b a r, ~ In b a -> until_byte b (a ++ b :: r) = Some (a, r).
Proof.
  induction a as [|c a IH]; intros r NI; simpl.
  - rewrite N.eqb_refl. reflexivity.
  - destruct (c =? b) eqn:E; [apply N.eqb_eq in E; subst; exfalso; apply NI; left; reflexivity|].
    rewrite IH; [reflexivity|]. intros I. apply NI. right. auto.
Qed.

Lemma strip_prefix_app : forall p s, strip_prefix p (p ++ s) = Some s.
Proof. induction p as [|x p IH]; intros s; simpl; auto. rewrite N.eqb_refl. auto. Qed.

Lemma xoauth2_roundtrip : forall user token,
  ~ In 1 user -> ~ In 1 token -> parse_xoauth2 (xoauth2_msg user token) = Some (user, token).
Proof.
  intros user token U T. unfold parse_xoauth2, xoauth2_msg.
  rewrite strip_prefix_app.
  replace (user ++ [1] ++ bs "auth=Bearer " ++ token ++ [1; 1])
    with (user ++ 1 :: (bs "auth=Bearer " ++ token ++ [1; 1])) by reflexivity.
  rewrite until_byte_app; auto. rewrite strip_prefix_app.
  replace (token ++ [1; 1]) with (token ++ 1 :: [1]) by reflexivity.
  rewrite until_byte_app; auto.
Qed.

(* ---- CRAM-MD5 (RFC 2195): user names may contain blanks, the digest is split off at the last one ---- *)
Lemma hex_no_space : forall b, ~ In 32 (hex_of b).
Proof.
  induction b as [|c b IH]; [intros []|]. unfold hex_of in *. simpl flat_map. intros I.
  assert (HD : forall n, hexdigit n <> 32).
  { intros n. unfold hexdigit. destruct (n <? 10); lia. }
  simpl in I. destruct I as [I|[I|I]]; [exact (HD _ I) | exact (HD _ I) | auto].
Qed.

Lemma split_last_space_app : forall u d, ~ In 32 d -> split_last_space (u ++ 32 :: d) = Some (u, d).
Proof.
  intros u d ND.
  assert (NS : split_last_space d = None).
  { clear u. induction d as [|c d IH]; [reflexivity|]. simpl. rewrite IH.
    - destruct (c =? 32) eqn:E; [apply N.eqb_eq in E; subst; exfalso; apply ND; left; reflexivity|reflexivity].
    - intros I. apply ND. right. auto. }
  induction u as [|c u IH]; simpl.
  - rewrite NS. reflexivity.
  - rewrite IH. reflexivity.
Qed.

Lemma cram_accepted : forall (HMACmd5 : bytes -> bytes -> bytes) secret_of user secret challenge,
  secret_of user = Some secret ->
  cram_server HMACmd5 secret_of challenge (cram_response HMACmd5 user secret challenge) = true.
Proof.
  intros HM secret_of user secret challenge SO. unfold cram_server, cram_response.
  change (user ++ bs " " ++ hex_of (HM secret challenge)) with (user ++ 32 :: hex_of (HM secret challenge)).
  rewrite split_last_space_app by apply hex_no_space. rewrite SO.
  apply bytes_eqb_refl.
Qed.

Lemma cram_rejected_wrong_secret : forall (HMACmd5 : bytes -> bytes -> bytes) secret_of user secret secret' challenge,
  secret_of user = Some secret' ->
  hex_of (HMACmd5 secret challenge) <> hex_of (HMACmd5 secret' challenge) ->
  cram_server HMACmd5 secret_of challenge (cram_response HMACmd5 user secret challenge) = false.
Proof.
  intros HM secret_of user secret secret' challenge SO NE. unfold cram_server, cram_response.
  change (user ++ bs " " ++ hex_of (HM secret challenge)) with (user ++ 32 :: hex_of (HM secret challenge)).
  rewrite split_last_space_app by apply hex_no_space. rewrite SO.
  destruct (bytes_eqb (hex_of (HM secret challenge)) (hex_of (HM secret' challenge))) eqn:E; auto.
  exfalso. apply NE. apply bytes_eqb_eq. exact E.
Qed.

(* ---- SCRAM: the proof the client sends passes the server's check ---- *)
Lemma bxor_involutive : forall a b, length a = length b -> bxor (bxor a b) b = a.
Proof.
  induction a as [|x a IH]; destruct b as [|y b]; simpl; intros L; try discriminate; auto.
  rewrite N.lxor_assoc, N.lxor_nilpotent, N.lxor_0_r. f_equal. apply IH. lia.
Qed.

Lemma bxor_comm : forall a b, bxor a b = bxor b a.
Proof. induction a as [|x a IH]; destruct b as [|y b]; simpl; auto. rewrite N.lxor_comm, IH. reflexivity. Qed.

(* the server recovers ClientKey from the proof and finds H(ClientKey) = StoredKey: for every H, HMAC whose
   outputs have one length, every salted password and every AuthMessage *)
Lemma scram_proof_accepted : forall (H : bytes -> bytes) (HMAC : bytes -> bytes -> bytes) (n : nat) salted authmsg,
  (forall k m, length (HMAC k m) = n) ->
  let client_key := HMAC salted (bs "Client Key") in
  let stored_key := H client_key in
  let proof := bxor client_key (HMAC stored_key authmsg) in       (* what client_proof base64-encodes *)
  H (bxor (HMAC stored_key authmsg) proof) = stored_key.
Proof.
  intros H HMAC n salted authmsg L ck sk proof. unfold proof.
  rewrite (bxor_comm (HMAC sk authmsg)). rewrite bxor_involutive; [reflexivity|].
  unfold ck. rewrite !L. reflexivity.
Qed.

(* and the signature the server then sends is the one the client expects *)
Lemma scram_server_signature_expected : forall (H : bytes -> bytes) (HMAC : bytes -> bytes -> bytes) pw salt iter authmsg,
  let a := store H HMAC pw salt iter in
  b64enc (HMAC (sv_server_key a) authmsg) = server_sig HMAC (Hi HMAC pw salt iter) authmsg.
Proof. reflexivity. Qed.

(* ---- every client-first-message uses the next draw of the randomness oracle ---- *)
Lemma scram_fresh_nonce : forall H HMAC hsize precis cfg id st r rands st' rands' resp,
  scram_next H HMAC hsize precis cfg id (st, r :: rands) [] true = ((st', rands'), Some (Some resp)) ->
  rands' = rands /\ ss_nonce st' = b64enc r /\
  exists gs2 uname, resp = gs2 ++ bs "n=" ++ uname ++ bs ",r=" ++ b64enc r.
Proof.
  intros H HMAC hsize precis cfg id st r rands st' rands' resp E.
  unfold scram_next in E. simpl in E. unfold initial_client_message in E.
  destruct (precis (escape_name (sid_user id))) as [uname|]; [|discriminate].
  destruct (sid_plus id).
  - destruct (sid_tls id) as [ti|]; [|discriminate].
    match type of E with context [match ?sel with Some _ => _ | None => _ end] => destruct sel as [[bt d]|] end;
      [|discriminate].
    inversion E; subst. repeat split. exists (bs "p=" ++ bt ++ bs ",,"), uname. rewrite <- !app_assoc. reflexivity.
  - inversion E; subst. repeat split. exists (bs "n,,"), uname. reflexivity.
Qed.

(* two attempts (also on the same scramAuth value) consume two consecutive draws *)
Lemma scram_two_attempts_two_draws : forall H HMAC hsize precis cfg id st r1 r2 rands s1 resp1 st2 resp2 s2,
  scram_next H HMAC hsize precis cfg id (st, r1 :: r2 :: rands) [] true = (s1, Some (Some resp1)) ->
  scram_next H HMAC hsize precis cfg id (st2, snd s1) [] true = (s2, Some (Some resp2)) ->
  ss_nonce (fst s1) = b64enc r1 /\ ss_nonce (fst s2) = b64enc r2.
Proof.
  intros H HMAC hsize precis cfg id st r1 r2 rands [st1 rs1] resp1 st2 resp2 [st3 rs3] E1 E2.
  apply (scram_fresh_nonce H HMAC hsize precis cfg id) in E1. destruct E1 as (R1 & N1 & _). simpl in *. subst rs1.
  apply (scram_fresh_nonce H HMAC hsize precis cfg id) in E2. destruct E2 as (R2 & N2 & _). simpl. split; assumption.
Qed.

(* ---- internal/pbkdf2.Key is RFC 5802's Hi when one block is requested (keyLen = hashLen) ---- *)
Lemma bxor_length : forall a b, length a = length b -> length (bxor a b) = length a.
Proof. induction a as [|x a IH]; destruct b as [|y b]; simpl; intros L; try discriminate; auto. Qed.

Lemma nat_iter_succ_r : forall (A : Type) (f : A -> A) k x, Nat.iter (S k) f x = Nat.iter k f (f x).
Proof. intros A f k. induction k as [|k IH]; intros x; [reflexivity|]. simpl in *. rewrite <- IH. reflexivity. Qed.

Lemma pb_iter_is_hi_from : forall (HMAC : bytes -> bytes -> bytes) pass k t u,
  fst (Nat.iter k (fun tu : bytes * bytes => let u' := HMAC pass (snd tu) in (bxor (fst tu) u', u')) (t, u))
  = hi_from HMAC pass u t k.
Proof.
  intros HMAC pass k. induction k as [|k IH]; intros t u; [reflexivity|].
  rewrite nat_iter_succ_r. cbv beta zeta. simpl fst. simpl snd. rewrite IH. reflexivity.
Qed.

Lemma hi_from_length : forall (HMAC : bytes -> bytes -> bytes) n pass k t u,
  (forall key m, length (HMAC key m) = n) -> length t = n -> length (hi_from HMAC pass u t k) = n.
Proof.
  intros HMAC n pass k. induction k as [|k IH]; intros t u L Lt; simpl; auto.
  apply IH; auto. rewrite bxor_length; auto. rewrite L. auto.
Qed.

Lemma pbkdf2_is_Hi : forall (HMAC : bytes -> bytes -> bytes) (n : nat) pw salt (i : nat),
  (forall key m, length (HMAC key m) = n) -> (0 < n)%nat -> (1 <= i)%nat ->
  pbkdf2_key HMAC pw salt (Z.of_nat i) n n = Hi HMAC pw salt i.
Proof.
  intros HMAC n pw salt i L Hn Hi1. unfold pbkdf2_key, Hi.
  assert (D : ((n + n - 1) / n = 1)%nat).
  { symmetry. apply (Nat.div_unique (n + n - 1) n 1 (n - 1)); lia. }
  rewrite D. simpl seq. simpl map. simpl concat. rewrite app_nil_r.
  unfold pb_block. change (be32 (N.of_nat 1)) with [0; 0; 0; 1].
  replace (Z.to_N (Z.of_nat i - 1)) with (N.of_nat (i - 1)) by lia.
  rewrite N2Nat.inj_iter, Nat2N.id, pb_iter_is_hi_from.
  rewrite firstn_all2; [reflexivity|].
  rewrite (hi_from_length HMAC n); auto.
Qed.


(* ---- reuse of an Auth value: every exchange is the exchange of a fresh value ---- *)
From Verif Require Import Crypto SaslRun.   (* auth_seq, obs_of; imported here: Crypto.hex_of would shadow Sasl.hex_of above *)
(* T1: loginAuth.Start resets the step counter *)
Lemma gen_login_start_resets : Gen.login_start_resets_step = true.
Proof. reflexivity. Qed.

(* LOGIN: what one call of Auth does and logs does not depend on the step counter the value was left with *)
Lemma login_obs_independent_of_history : forall a si lad a0 (s s' : N) script,
  obs_of (auth (login_mech a si) lad a0 s script) = obs_of (auth (login_mech a si) lad a0 s' script).
Proof.
  intros a si lad a0 s s' script. unfold login_mech. rewrite gen_login_start_resets.
  unfold auth, login_mech_cfg. cbn [m_start].
  destruct (negb (lg_allow_unenc a) && negb (si_tls si) && negb (is_localhost (si_name si))); [reflexivity|].
  destruct (negb (bytes_eqb (si_name si) (lg_host a))); reflexivity.
Qed.

Lemma login_reuse_is_fresh : forall a si lad (s : N) scripts,
  auth_seq (login_mech a si) lad s scripts = auth_seq (login_mech a si) lad 0 scripts.
Proof.
  intros a si lad s scripts. revert s. generalize 0 as s'. induction scripts as [|sc rest IH]; intros s' s; [reflexivity|].
  simpl. rewrite (login_obs_independent_of_history a si lad false s s' sc). f_equal. apply IH.
Qed.

(* the mechanisms without state (PLAIN, CRAM-MD5, XOAUTH2): trivially *)
Lemma stateless_reuse_is_fresh : forall (m : mech unit) lad (s : unit) scripts,
  auth_seq m lad s scripts = auth_seq m lad tt scripts.
Proof. intros m lad []. reflexivity. Qed.

(* SCRAM: a call of Auth on a value in ANY state is the call on the reset value (Start resets; proved for the working
   tree's configuration).  A reset value differs from a fresh one only in the cached bindData field. *)
Lemma scram_reuse_starts_reset : forall H HMAC hsize precis cfg id lad a0 st rands script,
  start_resets cfg = true ->
  auth (scram_mech H HMAC hsize precis cfg id) lad a0 (st, rands) script =
  auth (scram_mech H HMAC hsize precis cfg id) lad a0 (ss_reset st, rands) script.
Proof.
  intros H HMAC hsize precis cfg id lad a0 st rands script SR. unfold auth, scram_mech. cbn [m_start].
  unfold scram_start. rewrite SR. reflexivity.
Qed.

(* without the reset in Start (the configuration false) the statement is false: a LOGIN value left at step 2 by a
   completed exchange answers "Username:" of the next exchange with an error *)
Lemma login_reuse_without_reset_refuted :
  exists a si script,
    ro_class (obs_of (auth (login_mech_cfg false a si) false false 2 script)) <>
    ro_class (obs_of (auth (login_mech_cfg false a si) false false 0 script)).
Proof.
  exists {| lg_user := bs "user"; lg_pass := bs "pw"; lg_host := bs "localhost"; lg_allow_unenc := false |},
         {| si_name := bs "localhost"; si_tls := false |},
         [Reply 334 (bs "VXNlcm5hbWU6"); Reply 334 (bs "UGFzc3dvcmQ6"); Reply 235 (bs "ok")].
  vm_compute. discriminate.
Qed.

(* ---- two runs of the Auth loop from related mechanism states ---- *)
Lemma obs_abort : forall S active name res (s1 s2 : S) script o,
  obs_of (abort_path active name res s1 script o) = obs_of (abort_path active name res s2 script o).
Proof. intros. unfold abort_path. destruct (is_xoauth2 name); reflexivity. Qed.

Lemma abort_state : forall S active name res (s : S) script o, f_state (abort_path active name res s script o) = s.
Proof. intros. unfold abort_path. destruct (is_xoauth2 name); reflexivity. Qed.

Section Sim.
  Variable S : Type.
  Variable m : mech S.
  Variables R W : S -> S -> Prop.
  Hypothesis RW : forall a b, R a b -> W a b.
  Hypothesis Step : forall s1 s2 msg more, R s1 s2 ->
    snd (m_next m s1 msg more) = snd (m_next m s2 msg more) /\
    W (fst (m_next m s1 msg more)) (fst (m_next m s2 msg more)) /\
    (forall resp, snd (m_next m s1 msg more) = Some (Some resp) -> R (fst (m_next m s1 msg more)) (fst (m_next m s2 msg more))).

  Lemma auth_loop_sim : forall rest active name s1 s2 code msg64 o, R s1 s2 ->
    obs_of (auth_loop m active name s1 code msg64 rest o) = obs_of (auth_loop m active name s2 code msg64 rest o) /\
    W (f_state (auth_loop m active name s1 code msg64 rest o)) (f_state (auth_loop m active name s2 code msg64 rest o)).
  Proof.
    induction rest as [|r rest IH]; intros active name s1 s2 code msg64 o Rs; simpl.
    all: destruct (code =? code_challenge);
      [ destruct (b64dec (filter no_crlf_byte msg64)) as [dm|];
        [ destruct (Step s1 s2 dm true Rs) as (E & Ws & Rn)
        | split; [apply obs_abort | rewrite !abort_state; auto] ]
      | destruct (code =? code_success);
        [ destruct (Step s1 s2 msg64 false Rs) as (E & Ws & Rn)
        | split; [apply obs_abort | rewrite !abort_state; auto] ] ].
    all: match goal with
         | _ : snd (m_next m ?x1 ?mm ?b) = snd (m_next m ?x2 ?mm ?b) |- _ =>
             destruct (m_next m x1 mm b) as [s1' o1]; destruct (m_next m x2 mm b) as [s2' o2]
         end; simpl in E, Ws, Rn; subst o2; destruct o1 as [[resp|]|]; simpl.
    all: try (split; [apply obs_abort | rewrite !abort_state; auto]).
    all: try (split; [reflexivity|auto]).
    all: destruct r as [c mm|]; simpl; try (split; [reflexivity|auto]).
    all: apply IH; apply (Rn _ eq_refl).
  Qed.
End Sim.

(* ---- SCRAM: the cached bindData field of a reused value is irrelevant ----
   In the source, bindData is assigned in initialClientMessage (from the tlsConnState given to the constructor) each time
   a -PLUS client-first-message is built, and read only in handleServerFirstResponse of a -PLUS mechanism, which needs a
   non-empty nonce, i.e. a client-first of the running exchange: the value read is always the one just derived. *)
Lemma gen_nonce_check' : forall a b, Gen.scram_nonce_check a b = a || negb b.
Proof. reflexivity. Qed.

Definition same_but_bind (a b : scram_state) : Prop :=
  ss_bare a = ss_bare b /\ ss_nonce a = ss_nonce b /\ ss_salted a = ss_salted b /\ ss_authmsg a = ss_authmsg b /\
  ss_iter a = ss_iter b /\ ss_verified a = ss_verified b.

Definition Rbind (id : scram_id) (s1 s2 : scram_state * list bytes) : Prop :=
  snd s1 = snd s2 /\ same_but_bind (fst s1) (fst s2) /\
  (sid_plus id = true -> is_nil (ss_nonce (fst s1)) = false -> ss_bind (fst s1) = ss_bind (fst s2)).

Lemma scram_step_bind : forall H HMAC hsize precis cfg id s1 s2 msg more, Rbind id s1 s2 ->
  let n1 := scram_next H HMAC hsize precis cfg id s1 msg more in
  let n2 := scram_next H HMAC hsize precis cfg id s2 msg more in
  snd n1 = snd n2 /\ snd (fst n1) = snd (fst n2) /\
  (forall resp, snd n1 = Some (Some resp) -> Rbind id (fst n1) (fst n2)).
Proof.
  intros H HMAC hsize precis cfg id [[b n sa am it bd1 v] rs] [[b' n' sa' am' it' bd2 v'] rs'] msg more
         (Er & (E1 & E2 & E3 & E4 & E5 & E6) & HB). simpl in *. subst b' n' sa' am' it' v' rs'.
  unfold scram_next. cbn [fst snd ss_nonce ss_verified].
  destruct more.
  - destruct msg as [|m0 msg'].
    + unfold initial_client_message. cbn [ss_reset ss_salted ss_authmsg ss_iter ss_bind ss_verified].
      destruct (restart_resets cfg); cbn [ss_reset ss_salted ss_authmsg ss_iter ss_bind ss_verified];
      destruct (precis (escape_name (sid_user id))); destruct rs as [|r0 rs]; simpl;
      try (repeat split; auto; intros; discriminate).
      all: destruct (sid_plus id) eqn:P; [destruct (sid_tls id) as [ti|]; [destruct (cb_select ti) as [[bt d]|]|]|]; simpl.
      all: repeat split; auto; intros; try discriminate; try congruence.
    + remember (m0 :: msg') as mm eqn:EM. clear EM.
      destruct (is_prefix (bs "r=") mm).
      * unfold handle_server_first. cbn [ss_nonce ss_bare ss_bind].
        destruct (sf_parse mm) as [[[cmb salt] it2]|]; [|simpl; repeat split; auto; intros; discriminate].
        rewrite gen_nonce_check'.
        destruct (is_nil n) eqn:NN; [simpl; repeat split; auto; intros; discriminate|].
        destruct (is_prefix n cmb); [|simpl; repeat split; auto; intros; discriminate]. cbn [orb negb].
        destruct (precis (sid_pass id)); [|simpl; repeat split; auto; intros; discriminate].
        unfold msg_without_proof. cbn [ss_bind].
        destruct (sid_plus id) eqn:P.
        -- rewrite (HB eq_refl eq_refl). simpl. repeat split; auto.
        -- simpl. repeat split; auto; intros; congruence.
      * destruct (is_prefix (bs "v=") mm); [|simpl; repeat split; auto; intros; discriminate].
        unfold handle_server_final. cbn [ss_salted ss_authmsg ss_nonce ss_bare ss_iter ss_bind].
        destruct (final_requires_first cfg && (is_nil sa || is_nil am)); [simpl; repeat split; auto; intros; discriminate|].
        destruct (bytes_eqb (skipn 2 mm) (server_sig HMAC sa am)); simpl; repeat split; auto; intros; discriminate.
  - destruct (done_requires_verified cfg && negb (is_nil n) && negb v); simpl; repeat split; auto; intros; discriminate.
Qed.

(* a call of Auth on a scramAuth value in ANY state is, in everything observable (result, lines written, log), the call
   on a fresh value; and so is every later call on it *)
Lemma obs_deferred : forall S lad (f1 f2 : final S), obs_of f1 = obs_of f2 -> obs_of (deferred lad f1) = obs_of (deferred lad f2).
Proof.
  intros S lad f1 f2 E. unfold obs_of, deferred in *. cbn [f_res f_out f_active f_closed] in *.
  inversion E as [[X1 X2 X3 X4 X5]]. rewrite X1, X3, X4, X5.
  destruct (Gen.smtp_auth_deactivation_deferred); destruct (Gen.smtp_auth_defer_unconditional); destruct lad; try reflexivity; rewrite X2; reflexivity.
Qed.

Lemma scram_obs_independent_of_history : forall H HMAC hsize precis cfg id lad a0 st st' rands script,
  start_resets cfg = true ->
  let M := scram_mech H HMAC hsize precis cfg id in
  obs_of (auth M lad a0 (st, rands) script) = obs_of (auth M lad a0 (st', rands) script) /\
  snd (f_state (auth M lad a0 (st, rands) script)) = snd (f_state (auth M lad a0 (st', rands) script)).
Proof.
  intros H HMAC hsize precis cfg id lad a0 st st' rands script SR M.
  assert (MS : forall x, m_start M (x, rands) = ((ss_reset x, rands), Some (sid_algo id, None))).
  { intros x. unfold M, scram_mech, scram_start. cbn [m_start fst snd]. rewrite SR. reflexivity. }
  unfold auth. rewrite !MS.
  assert (R0 : Rbind id (ss_reset st, rands) (ss_reset st', rands)).
  { split; [reflexivity|]. split; [repeat split|]. intros _ X. discriminate. }
  destruct script as [|[c mm|] rest]; try (split; reflexivity).
  assert (ST : forall s1 s2 msg more, Rbind id s1 s2 ->
    snd (m_next M s1 msg more) = snd (m_next M s2 msg more) /\
    snd (fst (m_next M s1 msg more)) = snd (fst (m_next M s2 msg more)) /\
    (forall resp, snd (m_next M s1 msg more) = Some (Some resp) ->
       Rbind id (fst (m_next M s1 msg more)) (fst (m_next M s2 msg more)))).
  { intros s1 s2 msg more HR. exact (scram_step_bind H HMAC hsize precis cfg id s1 s2 msg more HR). }
  match goal with |- context [auth_loop M ?act ?nm (ss_reset st, rands) ?cc ?m6 ?rs ?oo] =>
    destruct (auth_loop_sim _ M (Rbind id) (fun a b => snd a = snd b) (fun a b (r : Rbind id a b) => proj1 r) ST
                rs act nm (ss_reset st, rands) (ss_reset st', rands) cc m6 oo R0) as [EO ES] end.
  split; [|exact ES].
  apply obs_deferred. exact EO.
Qed.

Lemma scram_reuse_is_fresh : forall H HMAC hsize precis cfg id lad st rands scripts,
  start_resets cfg = true ->
  auth_seq (scram_mech H HMAC hsize precis cfg id) lad (st, rands) scripts =
  auth_seq (scram_mech H HMAC hsize precis cfg id) lad (ss_zero, rands) scripts.
Proof.
  intros H HMAC hsize precis cfg id lad st rands scripts SR. revert st rands. generalize ss_zero as st'.
  induction scripts as [|sc rest IH]; intros st' st rands; [reflexivity|]. cbn [auth_seq].
  destruct (scram_obs_independent_of_history H HMAC hsize precis cfg id lad false st st' rands sc SR) as [EO ES].
  cbv zeta in EO, ES. rewrite EO. f_equal.
  destruct (f_state (auth (scram_mech H HMAC hsize precis cfg id) lad false (st, rands) sc)) as [sa ra].
  destruct (f_state (auth (scram_mech H HMAC hsize precis cfg id) lad false (st', rands) sc)) as [sb rb].
  cbn [snd] in ES. subst rb. apply IH.
Qed.


(* ---- mail.Client: every dial authenticates with a mechanism built for that dial ---- *)
Lemma gen_client_auth_builds_per_dial : Gen.client_auth_keeps_mechanism = false.
Proof. reflexivity. Qed.

Lemma client_dials_fresh : forall S (mk : nat -> mech S) lad s0 scripts k,
  client_dials Gen.client_auth_keeps_mechanism mk lad s0 k scripts =
  map (fun p => obs_of (auth (mk (fst p)) lad false s0 (snd p))) (combine (seq k (length scripts)) scripts).
Proof.
  intros S mk lad s0 scripts. rewrite gen_client_auth_builds_per_dial.
  induction scripts as [|sc rest IH]; intros k; [reflexivity|]. simpl. f_equal. apply IH.
Qed.
