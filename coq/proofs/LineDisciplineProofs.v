(* LineDisciplineProofs.v — C18, the whole-message composition: the rendering of a resolved message
   (coq/theories/Render.v) consists of CRLF-terminated lines only, with the length bounds of the
   per-function theorems (header fold, quoted-printable writer, base64 line breaker). *)
From Coq Require Import String ZArith.
From Verif Require Import Bytes Base64 LineBreaker QP HeaderFold WordEnc Writer MimeTree Render HeaderScan Lines.
From VerifGen Require Import Gen.
From VerifProofs Require Import LineBreakerProofs QPProofs WordEncProofs HeaderSafeProofs HeaderFoldProofs
  WriterProofs RenderIdemProofs RenderProofs HeaderBlockProofs.
From Coq Require Import Lia ZifyBool ZifyNat ZifyN.
Open Scope nat_scope.

(* ---------- texts made of complete lines with a property ---------- *)
Definition nocrlf (l : bytes) : bool := forallb no_crlf_byte l.
Definition unlines (Ls : list bytes) : bytes := flat_map (fun l => l ++ crlf) Ls.

Definition Lines (P : bytes -> bool) (s : bytes) : Prop :=
  exists Ls, s = unlines Ls /\ Forall (fun l => nocrlf l = true /\ P l = true) Ls.

Lemma unlines_app : forall a b, unlines (a ++ b) = unlines a ++ unlines b.
Proof. intros. unfold unlines. apply flat_map_app. Qed.

Lemma Lines_nil : forall P, Lines P [].
Proof. intros P. exists []. split; [reflexivity|constructor]. Qed.

Lemma Lines_app : forall P a b, Lines P a -> Lines P b -> Lines P (a ++ b).
Proof.
  intros P a b (La & Ea & Fa) (Lb & Eb & Fb). exists (La ++ Lb). split.
  - now rewrite unlines_app, Ea, Eb.
  - apply Forall_app. auto.
Qed.

Lemma Lines_line : forall (P : bytes -> bool) l, nocrlf l = true -> P l = true -> Lines P (l ++ crlf).
Proof.
  intros P l Hl Hp. exists [l]. split; [cbn; now rewrite app_nil_r|]. constructor; [auto|constructor].
Qed.

Lemma Lines_empty_line : forall (P : bytes -> bool), P [] = true -> Lines P crlf.
Proof. intros P H. apply (Lines_line P []); [reflexivity|exact H]. Qed.

Lemma Lines_weaken : forall (P Q : bytes -> bool) s,
  (forall l, P l = true -> Q l = true) -> Lines P s -> Lines Q s.
Proof.
  intros P Q s H (Ls & E & F). exists Ls. split; [exact E|].
  eapply Forall_impl; [|exact F]. intros l [H1 H2]. auto.
Qed.

Lemma Lines_flat_map : forall P A (g : A -> bytes) l,
  (forall a, In a l -> Lines P (g a)) -> Lines P (flat_map g l).
Proof.
  intros P A g l. induction l as [|a l IH]; intros H; cbn [flat_map]; [apply Lines_nil|].
  apply Lines_app; [apply H; now left|apply IH; intros x Hx; apply H; now right].
Qed.

(* --- to the boolean checkers --- *)
Lemma crlf_st_line : forall l st X, st <> 2 -> nocrlf l = true ->
  crlf_st st (l ++ crlf ++ X) = crlf_st 0 X.
Proof.
  induction l as [|b l IH]; intros st X Hst Hl.
  - cbn [app crlf]. destruct st as [|[|[|n]]]; try congruence; reflexivity.
  - unfold nocrlf in *. cbn [forallb] in Hl. apply andb_true_iff in Hl. destruct Hl as [Hb Hl].
    unfold no_crlf_byte in Hb. apply andb_true_iff in Hb. destruct Hb as [H1 H2]. apply negb_true_iff in H1, H2.
    cbn [app].
    assert (E : crlf_st st (b :: l ++ crlf ++ X) = crlf_st 1 (l ++ crlf ++ X)).
    { destruct st as [|[|[|n]]]; try congruence; cbn [crlf_st]; now rewrite H1, H2. }
    rewrite E. apply IH; [discriminate|exact Hl].
Qed.

Lemma Lines_crlf_only : forall P s, Lines P s -> crlf_only s = true.
Proof.
  intros P s (Ls & E & F). subst s. unfold crlf_only. induction F as [|l r [Hl _] Hr IH]; [reflexivity|].
  cbn [unlines flat_map]. rewrite <- app_assoc. rewrite crlf_st_line; [exact IH|discriminate|exact Hl].
Qed.

Lemma nocrlf_nocr : forall l, nocrlf l = true -> nocr l.
Proof.
  intros l H. unfold nocr, nocrlf in *. eapply forallb_impl; [|exact H].
  intros b Hb. unfold no_crlf_byte in Hb. unfold no13. lia.
Qed.

Lemma lines_of_unlines : forall Ls X, Forall (fun l => nocrlf l = true) Ls ->
  lines_of (unlines Ls ++ X) = Ls ++ lines_of X.
Proof.
  intros Ls X F. induction F as [|l r Hl Hr IH]; [reflexivity|].
  cbn [unlines flat_map]. rewrite <- !app_assoc. unfold crlf at 1. cbn [app].
  rewrite lines_of_app_crlf by now apply nocrlf_nocr. cbn [app]. f_equal. exact IH.
Qed.

(* every line (split at CRLF; the last, empty, one included) has the property *)
Lemma Lines_lines_of : forall (P : bytes -> bool) s, P [] = true -> Lines P s -> forallb P (lines_of s) = true.
Proof.
  intros P s H0 (Ls & E & F). subst s. rewrite <- (app_nil_r (unlines Ls)).
  rewrite lines_of_unlines by (eapply Forall_impl; [|exact F]; intros l [H _]; exact H).
  rewrite forallb_app. cbn [lines_of forallb]. rewrite H0. cbn [andb]. rewrite andb_true_r.
  apply forallb_forall. rewrite Forall_forall in F. intros l Hl. now apply F.
Qed.

(* --- from the column-counting checker of Bytes.v --- *)
Definition short (n : nat) (l : bytes) : bool := Nat.leb (length l) n.

Lemma chk_first_line : forall max s col,
  chk_lines max col false s = true ->
  (s = [] /\ col = 0) \/
  exists l rest, s = l ++ crlf ++ rest /\ nocrlf l = true /\ (l = [] \/ col + length l <= max) /\
                 chk_lines max 0 false rest = true.
Proof.
  intros max. induction s as [|b t IH]; intros col H.
  - left. cbn in H. apply Nat.eqb_eq in H. auto.
  - right. cbn [chk_lines] in H. destruct (N.eqb_spec b 13) as [E13|E13].
    + subst b. destruct t as [|c t']; [cbn in H; discriminate|].
      cbn [chk_lines] in H. apply andb_true_iff in H. destruct H as [Hc H]. apply N.eqb_eq in Hc. subst c.
      exists [], t'. split; [reflexivity|]. split; [reflexivity|]. split; [now left|exact H].
    + destruct (N.eqb_spec b 10) as [E10|E10]; [discriminate|].
      apply andb_true_iff in H. destruct H as [Hle H]. apply Nat.leb_le in Hle.
      destruct (IH _ H) as [[_ Hz]|(l & rest & Et & Hl & Hlen & Hr)]; [lia|].
      exists (b :: l), rest. subst t. split; [reflexivity|]. split; [|split; [right; cbn [length]; destruct Hlen as [E|E]; [subst l; cbn [length]|]; lia|exact Hr]].
      unfold nocrlf in *. cbn [forallb]. rewrite Hl, andb_true_r. unfold no_crlf_byte.
      apply andb_true_iff. split; apply negb_true_iff; now apply N.eqb_neq.
Qed.

Lemma lines_ok_Lines : forall max s, lines_ok max s = true -> Lines (short max) s.
Proof.
  intros max s. remember (length s) as n eqn:Hn. revert s Hn.
  induction n as [n IH] using lt_wf_ind. intros s Hn H. unfold lines_ok in H.
  destruct (chk_first_line max s 0 H) as [[E _]|(l & rest & E & Hl & Hlen & Hr)].
  - subst s. apply Lines_nil.
  - subst s. rewrite app_assoc. apply Lines_app.
    + apply Lines_line; [exact Hl|]. unfold short. apply Nat.leb_le. destruct Hlen as [E|E]; [subst l; cbn [length]|]; lia.
    + apply (IH (length rest)); [rewrite Hn, !app_length; cbn [length crlf]; lia|reflexivity|exact Hr].
Qed.

Lemma Lines_lines_ok : forall max s, Lines (short max) s -> lines_ok max s = true.
Proof.
  intros max s (Ls & E & F). subst s. unfold lines_ok. induction F as [|l r [Hl Hs] Hr IH]; [reflexivity|].
  cbn [unlines flat_map]. rewrite <- app_assoc. rewrite chk_lines_line; [exact IH|exact Hl|].
  unfold short in Hs. now apply Nat.leb_le.
Qed.

(* ---------- the pieces of a rendering ---------- *)
Lemma safe_nocrlf : forall v, safe v -> nocrlf v = true.
Proof. intros v H. unfold nocrlf, safe in *. eapply forallb_impl; [|exact H]. apply safe_no_crlf. Qed.

Lemma join_unlines : forall Ls, Ls <> [] -> join crlf Ls ++ crlf = unlines Ls.
Proof.
  induction Ls as [|l r IH]; intros H; [congruence|]. destruct r as [|l2 r'].
  - cbn. now rewrite app_nil_r.
  - rewrite join_cons_ne by discriminate. change (unlines (l :: l2 :: r')) with ((l ++ crlf) ++ unlines (l2 :: r')).
    rewrite <- IH by discriminate. now rewrite <- !app_assoc.
Qed.

Lemma key_ok_nosp : forall k, key_ok k = true -> has_sp k = false.
Proof.
  intros k H. apply key_ok_chars in H. unfold has_sp. induction k as [|b k IH]; [reflexivity|].
  cbn [forallb existsb] in *. apply andb_true_iff in H. destruct H as [Hb Hk].
  destruct (name_char_facts b Hb) as (_ & _ & _ & H32 & _). rewrite N.eqb_sym, H32. now apply IH.
Qed.

(* one folded header field: complete lines of printable bytes, each at most 78 characters or a
   single token *)
Lemma hline_Lines : forall k vs, key_ok k = true -> vals_safe vs -> Lines (line_ok 78) (hline k vs).
Proof.
  intros k vs Hk Hv. unfold hline, write_header. destruct vs as [|v vs]; cbn [fst]; [apply Lines_nil|].
  pose proof (key_ok_safe k Hk) as Hks.
  pose proof (header_line_bound k (v :: vs) Hks Hv (or_intror (key_ok_nosp k Hk))) as Hb.
  unfold fold_bound_ok, fold_bound_ok_n in Hb.
  rewrite wh_buffer_lines in * by assumption.
  rewrite lines_of_join in Hb; [|now apply field_lines_nocr|apply wh_lines_ne].
  rewrite forallb_app in Hb. apply andb_true_iff in Hb. destruct Hb as [Hb _].
  rewrite join_unlines by apply wh_lines_ne.
  exists (wh_field_lines k (v :: vs)). split; [reflexivity|].
  assert (Hs : Forall (fun l => forallb hdr_safe_byte l = true) (wh_field_lines k (v :: vs))).
  { unfold wh_field_lines. apply (wh_lines_class hdr_safe_byte eq_refl).
    - unfold wh_words_of. apply split_on_safe, forallb_join_safe; [reflexivity|exact Hv].
    - rewrite forallb_app. unfold safe in Hks. now rewrite Hks. }
  rewrite forallb_forall in Hb. rewrite Forall_forall in *. intros l Hl. split; [apply safe_nocrlf, Hs, Hl|now apply Hb].
Qed.

Lemma hlines_Lines : forall l, Forall kv_ok l ->
  Lines (line_ok 78) (flat_map (fun kv => hline (fst kv) (snd kv)) l).
Proof.
  intros l H. apply Lines_flat_map. intros kv Hin. rewrite Forall_forall in H.
  destruct (H kv Hin) as [Hk Hv]. now apply hline_Lines.
Qed.

Theorem top_Lines : forall m, hdrs_safe m -> m_preform m = [] -> Lines (line_ok 78) (top_headers m).
Proof.
  intros m (Hg & Hf & Ha) Hp. unfold top_headers. apply Lines_app; [apply hlines_Lines, sort_kv_Forall, Hg|].
  rewrite Hp. change (preform_text []) with (@nil N). cbn [app]. unfold addr_text. apply Lines_app.
  - destruct (m_from m) as [f|]; [|apply Lines_nil].
    apply (hline_Lines Gen.hdr_from [f]); [apply gen_addr_keys_ok|]. constructor; [now apply Hf|constructor].
  - apply Lines_flat_map. intros k Hin. destruct (find _ (m_addr m)) as [kv|] eqn:E; [|apply Lines_nil].
    apply hline_Lines.
    + destruct gen_addr_keys_ok as [_ H]. rewrite forallb_forall in H. now apply H.
    + apply find_some in E. destruct E as [E _]. rewrite Forall_forall in Ha. now apply Ha.
Qed.

(* an unfolded part header section (multipart.Writer.CreatePart) *)
Definition kv_short (kv : bytes * list bytes) : bool :=
  forallb (fun v => Nat.leb (length (fst kv) + 2 + length v) 78) (snd kv).

Lemma part_lines_Lines : forall (P : bytes -> bool) hdrs,
  Forall kv_ok hdrs ->
  (forall kv v, In kv hdrs -> In v (snd kv) -> P (fst kv ++ bs ": " ++ v) = true) ->
  Lines P (part_header_lines hdrs).
Proof.
  intros P hdrs Hok HP. unfold part_header_lines. apply Lines_flat_map. intros kv Hin.
  assert (Hin0 : In kv hdrs).
  { clear -Hin. unfold sort_kv in Hin. induction hdrs as [|h t IH]; cbn [fold_right] in Hin; [destruct Hin|].
    assert (G : forall l, In kv (insert_kv h l) -> kv = h \/ In kv l).
    { induction l as [|x l IHl]; cbn [insert_kv]; intros H; [destruct H as [H|[]]; auto|].
      destruct (bytes_leb _ _); [destruct H as [H|H]; auto|].
      destruct H as [H|H]; [right; now left|]. destruct (IHl H); [auto|right; now right]. }
    destruct (G _ Hin) as [E|E]; [left; auto|right; auto]. }
  rewrite Forall_forall in Hok. destruct (Hok kv Hin0) as [Hk Hv].
  apply Lines_flat_map. intros v Hvin.
  replace (fst kv ++ bs ": " ++ v ++ crlf) with ((fst kv ++ bs ": " ++ v) ++ crlf) by (now rewrite <- !app_assoc).
  apply Lines_line; [|now apply HP].
  unfold vals_safe in Hv. rewrite Forall_forall in Hv.
  apply safe_nocrlf. unfold safe. rewrite !forallb_app. pose proof (key_ok_safe _ Hk) as Hks. unfold safe in Hks.
  apply andb_true_iff. split; [exact Hks|]. apply andb_true_iff. split; [reflexivity|exact (Hv v Hvin)].
Qed.

Lemma kv_short_line_ok : forall kv v, kv_short kv = true -> In v (snd kv) ->
  line_ok 78 (fst kv ++ bs ": " ++ v) = true.
Proof.
  intros kv v H Hin. unfold kv_short in H. rewrite forallb_forall in H. specialize (H v Hin).
  unfold line_ok. apply orb_true_iff. left. rewrite !app_length. cbn [length bs]. apply Nat.leb_le. apply Nat.leb_le in H. lia.
Qed.

(* the header startMP announces a multipart with *)
Definition bnd_char (c : N) : bool := hdr_safe_byte c && negb (N.eqb c 32).
Definition bnd_ok (b : bytes) : bool := forallb bnd_char b && Nat.leb (length b) 70.

Lemma bnd_ok_safe : forall b, bnd_ok b = true -> safe b /\ has_sp b = false /\ length b <= 70.
Proof.
  intros b H. unfold bnd_ok in H. apply andb_true_iff in H. destruct H as [Hc Hl]. apply Nat.leb_le in Hl.
  split; [|split; [|exact Hl]].
  - unfold safe. eapply forallb_impl; [|exact Hc]. intros c Hcc. unfold bnd_char in Hcc. now apply andb_true_iff in Hcc.
  - unfold has_sp. clear Hl. induction b as [|c b IH]; [reflexivity|]. cbn [forallb existsb] in *.
    apply andb_true_iff in Hc. destruct Hc as [Hcc Hb]. unfold bnd_char in Hcc. apply andb_true_iff in Hcc.
    destruct Hcc as [_ H32]. apply negb_true_iff in H32. rewrite N.eqb_sym, H32. now apply IH.
Qed.

Lemma no_sp_line_ok : forall n l, has_sp l = false -> line_ok n (32%N :: l) = true.
Proof. intros n l H. unfold line_ok. cbn [strip1]. change (N.eqb 32 32) with true. cbn iota. rewrite H. apply orb_true_r. Qed.

Lemma has_sp_app : forall a b, has_sp (a ++ b) = has_sp a || has_sp b.
Proof. intros. unfold has_sp. apply existsb_app. Qed.


Definition dd (b : bytes) : bytes := dashdash ++ b.

Lemma mp_hdr_Lines : forall (P : bytes -> bool) mime b,
  safe mime -> safe b ->
  P (bs "Content-Type: multipart/" ++ mime ++ bs ";") = true -> P (bs " boundary=" ++ b) = true ->
  Lines P (mp_hdr mime b).
Proof.
  intros P mime b Hm Hb P1 P2. unfold mp_hdr.
  replace (bs "Content-Type: " ++ (bs "multipart/" ++ mime ++ bs ";" ++ crlf ++ bs " boundary=" ++ b) ++ crlf)
    with (((bs "Content-Type: multipart/" ++ mime ++ bs ";") ++ crlf) ++ ((bs " boundary=" ++ b) ++ crlf))
    by (rewrite <- !app_assoc; reflexivity).
  apply Lines_app; (apply Lines_line; [apply safe_nocrlf; unfold safe in *; rewrite !forallb_app|assumption]).
  - rewrite Hm. reflexivity.
  - rewrite Hb. reflexivity.
Qed.

(* encoded bodies: lines of at most 76 characters once the enclosing writer's CRLF is appended *)
Definition generated (e : enc) : bool := match e with Enc8bit => false | _ => true end.

Theorem body_lines_ok : forall e p, generated e = true -> lines_ok 76 (encode_body e p ++ crlf) = true.
Proof.
  intros e p He. destruct e; try discriminate; unfold encode_body; try apply qp_run_lines.
  rewrite lb_chunk_independent. apply Lines_lines_ok. apply Lines_app.
  - apply (Lines_weaken (short max_body)).
    + intros l H. unfold short in *. apply Nat.leb_le. apply Nat.leb_le in H. pose proof gen_max_body_le_76. lia.
    + apply lines_ok_Lines. cbn [concat]. rewrite app_nil_r. apply wrap_lines_ok, b64enc_no_crlf.
  - apply Lines_empty_line. reflexivity.
Qed.

Lemma body_Lines : forall (P : bytes -> bool) e p,
  (forall l, line_ok 78 l = true -> P l = true) -> generated e = true -> Lines P (encode_body e p ++ crlf).
Proof.
  intros P e p W He. apply (Lines_weaken (short 76)); [|apply lines_ok_Lines, body_lines_ok, He].
  intros l H. apply W. unfold line_ok, short in *. apply orb_true_iff. left. apply Nat.leb_le. apply Nat.leb_le in H. lia.
Qed.

(* ---------- trees ---------- *)
Fixpoint node_sat (QL QM : bytes -> bytes -> Prop) (t : node) : Prop :=
  match t with
  | Leaf h body => QL h body
  | Multi h b kids => QM h b /\ fold_right (fun k acc => node_sat QL QM k /\ acc) True kids
  end.

Lemma sat_all : forall QL QM kids,
  fold_right (fun k acc => node_sat QL QM k /\ acc) True kids <-> Forall (node_sat QL QM) kids.
Proof.
  intros QL QM. induction kids as [|k r IH]; cbn [fold_right]; split; intros H; auto.
  - destruct H as [Hk Hr]. constructor; [exact Hk|now apply IH].
  - inversion H; subst. split; [assumption|now apply IH].
Qed.

Lemma node_ind2 : forall P : node -> Prop,
  (forall h body, P (Leaf h body)) ->
  (forall h b kids, Forall P kids -> P (Multi h b kids)) ->
  forall t, P t.
Proof.
  intros P HL HM. fix IH 1. intros [h body|h b kids]; [apply HL|apply HM].
  induction kids as [|k r IHr]; constructor; [apply IH|exact IHr].
Qed.

Lemma sat_leaves : forall QL QM t, node_sat QL QM t -> Forall (fun lf => QL (fst lf) (snd lf)) (leaves t).
Proof.
  intros QL QM. induction t as [h body|h b kids IH] using node_ind2; intros H; cbn [leaves node_sat] in *.
  - constructor; [exact H|constructor].
  - destruct H as [_ H]. apply sat_all in H. induction H as [|k r Hk Hr IHr]; cbn [flat_map]; [constructor|].
    inversion IH; subst. apply Forall_app. split; [auto|auto].
Qed.

Section Ser.
  Variable P : bytes -> bool.
  Hypothesis P0 : P [] = true.

  Definition leaf_lines (h body : bytes) : Prop := Lines P h /\ Lines P (body ++ crlf).
  Definition multi_lines (h b : bytes) : Prop :=
    Lines P h /\ nocrlf b = true /\ P (dd b) = true /\ P (dd b ++ dashdash) = true.

  Definition seg (b k : bytes) : bytes := (dd b ++ crlf) ++ (k ++ crlf).
  Definition closing (b : bytes) : bytes := (dd b ++ dashdash) ++ crlf.

  Lemma frame_true : forall b kids,
    frame_from b true kids ++ close_delim b = crlf ++ flat_map (seg b) kids ++ closing b.
  Proof.
    intros b kids. induction kids as [|k r IH]; cbn [frame_from flat_map app].
    - unfold close_delim, closing, dd. rewrite <- !app_assoc. reflexivity.
    - unfold delim. rewrite <- !app_assoc. rewrite IH. unfold seg, dd. rewrite <- !app_assoc. reflexivity.
  Qed.

  Lemma frame_eq : forall b kids,
    mp_frame b kids = (match kids with [] => crlf | _ => [] end) ++ flat_map (seg b) kids ++ closing b.
  Proof.
    intros b [|k r]; unfold mp_frame; cbn [frame_from flat_map app].
    - unfold close_delim, closing, dd. rewrite <- !app_assoc. reflexivity.
    - unfold delim. cbn [app]. rewrite <- !app_assoc. rewrite frame_true. unfold seg, dd. rewrite <- !app_assoc. reflexivity.
  Qed.

  Lemma nocrlf_dd : forall b, nocrlf b = true -> nocrlf (dd b) = true /\ nocrlf (dd b ++ dashdash) = true.
  Proof. intros b H. unfold nocrlf, dd in *. rewrite !forallb_app, H. split; reflexivity. Qed.

  Lemma frame_Lines : forall b kids,
    nocrlf b = true -> P (dd b) = true -> P (dd b ++ dashdash) = true ->
    Forall (fun k => Lines P (k ++ crlf)) kids -> Lines P (mp_frame b kids).
  Proof.
    intros b kids Hb P1 P2 Hk. destruct (nocrlf_dd b Hb) as [N1 N2]. rewrite frame_eq.
    apply Lines_app; [destruct kids; [now apply Lines_empty_line|apply Lines_nil]|].
    apply Lines_app; [|unfold closing; now apply Lines_line].
    apply Lines_flat_map. intros k Hin. rewrite Forall_forall in Hk. unfold seg.
    apply Lines_app; [now apply Lines_line|now apply Hk].
  Qed.

  Lemma ser_Lines : forall t, node_sat leaf_lines multi_lines t ->
    Lines P (ser_node t ++ crlf) /\ (forall h b kids, t = Multi h b kids -> Lines P (ser_node t)).
  Proof.
    induction t as [h body|h b kids IH] using node_ind2; intros H; cbn [node_sat ser_node] in *.
    - destruct H as [Hh Hb]. split; [|intros; discriminate].
      rewrite <- !app_assoc. apply Lines_app; [exact Hh|]. apply Lines_app; [now apply Lines_empty_line|exact Hb].
    - destruct H as [(Hh & Hb & P1 & P2) Hk]. apply sat_all in Hk.
      assert (L : Lines P (h ++ crlf ++ mp_frame b (map ser_node kids))).
      { apply Lines_app; [exact Hh|]. apply Lines_app; [now apply Lines_empty_line|].
        apply frame_Lines; auto. rewrite Forall_forall in *. intros x Hx.
        apply in_map_iff in Hx. destruct Hx as (k & E & Hin). subst x. now apply (IH k Hin), Hk. }
      split; [|intros; exact L].
      replace ((h ++ crlf ++ mp_frame b (map ser_node kids)) ++ crlf) with ((h ++ crlf ++ mp_frame b (map ser_node kids)) ++ crlf) by reflexivity.
      apply Lines_app; [exact L|now apply Lines_empty_line].
  Qed.
End Ser.

(* ---------- the forest of a resolved message ---------- *)
Section Forest.
  Variables QL QM : bytes -> bytes -> Prop.

  Definition fl_attach (z : rmsg) (fo : bool) : bool := fo && negb (has_mixed (z_msg z)).
  Definition fl_embeds (z : rmsg) (fo : bool) : bool := fl_attach z fo && negb (has_related (z_msg z)).
  Definition fl_parts (z : rmsg) (fo : bool) : bool := fl_embeds z fo && negb (has_alt (z_msg z)).

  Lemma wrap_sat : forall c mime b inner fo,
    (c = true -> QM (mp_hdr mime b) b) ->
    Forall (node_sat QL QM) (inner (fo && negb c)) ->
    Forall (node_sat QL QM) (wrap_mp c mime b inner fo).
  Proof.
    intros c mime b inner fo Hm Hi. unfold wrap_mp. destruct c; cbn [negb] in Hi.
    - rewrite andb_false_r in Hi. constructor; [|constructor]. cbn [node_sat]. split; [now apply Hm|now apply sat_all].
    - now rewrite andb_true_r in Hi.
  Qed.

  Lemma map_sat : forall A (f : A -> node) l, Forall (fun x => node_sat QL QM (f x)) l -> Forall (node_sat QL QM) (map f l).
  Proof. intros A f l H. induction H; cbn; constructor; auto. Qed.

  Lemma forest_sat : forall z fo,
    let m := z_msg z in
    (has_mixed m = true -> QM (mp_hdr Gen.mime_mixed (m_bmixed m)) (m_bmixed m)) ->
    (has_related m = true -> QM (mp_hdr Gen.mime_related (m_brelated m)) (m_brelated m)) ->
    (has_alt m = true -> QM (mp_hdr Gen.mime_alternative (m_balt m)) (m_balt m)) ->
    Forall (fun p => QL (part_hdr (fl_parts z fo) (m_wenc m) (m_charset m) p) (encode_body (p_enc p) (p_prod p))) (m_parts m) ->
    Forall (fun fe => QL (file_hdr (fl_embeds z fo) (fst fe)) (encode_body (snd fe) (f_prod (fst fe)))) (z_embeds z) ->
    Forall (fun fe => QL (file_hdr (fl_attach z fo) (fst fe)) (encode_body (snd fe) (f_prod (fst fe)))) (z_attach z) ->
    Forall (node_sat QL QM) (mix_level z fo).
  Proof.
    intros z fo m H1 H2 H3 Hp He Ha. unfold mix_level, rel_level, alt_level. cbv zeta. fold m.
    apply wrap_sat; [exact H1|]. apply Forall_app. split; [|apply map_sat; exact Ha].
    apply wrap_sat; [exact H2|]. apply Forall_app. split; [|apply map_sat; exact He].
    apply wrap_sat; [exact H3|]. apply map_sat. exact Hp.
  Qed.
End Forest.

(* ---------- hypotheses on a resolved message ---------- *)
Definition part_ok (m : msg) (p : part) : Prop := Forall kv_ok (part_kvs (m_wenc m) (m_charset m) p).

(* what go-mail's setters store: printable header keys / values (top level, part sections, file
   header caches); no preformatted headers *)
Definition msg_safe (z : rmsg) : Prop :=
  let m := z_msg z in
  hdrs_safe m /\ m_preform m = [] /\
  Forall (part_ok m) (m_parts m) /\ Forall file_ok (z_embeds z) /\ Forall file_ok (z_attach z).

(* every body the library encodes itself: quoted-printable (also the default branch for other
   encoding names) or base64 — not 8bit, whose lines are the caller's *)
Definition all_encoded (z : rmsg) : bool :=
  forallb (fun p => generated (p_enc p)) (m_parts (z_msg z)) &&
  forallb (fun fe => generated (snd fe)) (z_embeds z) &&
  forallb (fun fe => generated (snd fe)) (z_attach z).

Definition multipart (z : rmsg) : bool :=
  has_mixed (z_msg z) || has_related (z_msg z) || has_alt (z_msg z).

(* the boundaries in use *)
Definition bnds (Q : bytes -> Prop) (z : rmsg) : Prop :=
  let m := z_msg z in
  (has_mixed m = true -> Q (m_bmixed m)) /\ (has_related m = true -> Q (m_brelated m)) /\
  (has_alt m = true -> Q (m_balt m)).

Definition layer_P (P : bytes -> bool) (b : bytes) : Prop :=
  safe b /\ P (bs " boundary=" ++ b) = true /\ P (dd b) = true /\ P (dd b ++ dashdash) = true.

Definition kvs_P (P : bytes -> bool) (kvs : list (bytes * list bytes)) : Prop :=
  forall kv v, In kv kvs -> In v (snd kv) -> P (fst kv ++ bs ": " ++ v) = true.

(* the unfolded (CreatePart) header sections that are actually rendered *)
Definition nested_P (P : bytes -> bool) (z : rmsg) : Prop :=
  let m := z_msg z in
  Forall (fun p => fl_parts z true = false -> kvs_P P (part_kvs (m_wenc m) (m_charset m) p)) (m_parts m) /\
  Forall (fun fe => fl_embeds z true = false -> kvs_P P (file_kvs (fst fe))) (z_embeds z) /\
  Forall (fun fe => fl_attach z true = false -> kvs_P P (file_kvs (fst fe))) (z_attach z).

Lemma gen_mime_lines :
  line_ok 78 (bs "Content-Type: multipart/" ++ Gen.mime_mixed ++ bs ";") = true /\
  line_ok 78 (bs "Content-Type: multipart/" ++ Gen.mime_related ++ bs ";") = true /\
  line_ok 78 (bs "Content-Type: multipart/" ++ Gen.mime_alternative ++ bs ";") = true /\
  safe Gen.mime_mixed /\ safe Gen.mime_related /\ safe Gen.mime_alternative.
Proof. repeat split; reflexivity. Qed.

Section Message.
  Variable P : bytes -> bool.
  Hypothesis P0 : P [] = true.
  Hypothesis W : forall l, line_ok 78 l = true -> P l = true.

  Lemma layer_multi : forall mime b,
    safe mime -> line_ok 78 (bs "Content-Type: multipart/" ++ mime ++ bs ";") = true ->
    layer_P P b -> multi_lines P (mp_hdr mime b) b.
  Proof.
    intros mime b Hm Hl (Hs & P1 & P2 & P3). unfold multi_lines.
    split; [apply mp_hdr_Lines; auto|]. split; [now apply safe_nocrlf|auto].
  Qed.

  Lemma part_leaf_lines : forall m p fo,
    part_ok m p -> generated (p_enc p) = true ->
    (fo = false -> kvs_P P (part_kvs (m_wenc m) (m_charset m) p)) ->
    leaf_lines P (part_hdr fo (m_wenc m) (m_charset m) p) (encode_body (p_enc p) (p_prod p)).
  Proof.
    intros m p fo Hok He Hn. split; [|now apply body_Lines].
    unfold part_hdr. destruct fo.
    - unfold part_ok in Hok. rewrite Forall_forall in Hok.
      assert (H1 : kv_ok (h_cte, [enc_name (p_enc p)])) by (apply Hok; unfold part_kvs; apply in_or_app; right; left; reflexivity).
      assert (H2 : kv_ok (h_ctype, [part_ctype (m_charset m) p])) by (apply Hok; unfold part_kvs; apply in_or_app; right; right; left; reflexivity).
      apply (Lines_weaken (line_ok 78)); [exact W|].
      apply Lines_app; apply hline_Lines; try reflexivity; [apply H1|apply H2].
    - apply part_lines_Lines; [exact Hok|]. now apply Hn.
  Qed.

  Lemma file_leaf_lines : forall fe fo,
    file_ok fe -> generated (snd fe) = true ->
    (fo = false -> kvs_P P (file_kvs (fst fe))) ->
    leaf_lines P (file_hdr fo (fst fe)) (encode_body (snd fe) (f_prod (fst fe))).
  Proof.
    intros fe fo Hok He Hn. split; [|now apply body_Lines].
    unfold file_hdr. destruct fo.
    - apply (Lines_weaken (line_ok 78)); [exact W|]. apply hlines_Lines. now apply sort_kv_Forall.
    - apply part_lines_Lines; [exact Hok|]. now apply Hn.
  Qed.

  Theorem forest_Lines : forall z,
    msg_safe z -> all_encoded z = true -> bnds (layer_P P) z -> nested_P P z ->
    Forall (node_sat (leaf_lines P) (multi_lines P)) (forest_of z).
  Proof.
    intros z (_ & _ & Sp & Se & Sa) Henc (B1 & B2 & B3) (N1 & N2 & N3).
    unfold all_encoded in Henc. apply andb_true_iff in Henc. destruct Henc as [Henc E3].
    apply andb_true_iff in Henc. destruct Henc as [E1 E2]. rewrite forallb_forall in E1, E2, E3.
    destruct gen_mime_lines as (L1 & L2 & L3 & M1 & M2 & M3).
    change (forest_of z) with (mix_level z true). apply forest_sat.
    - intros H. apply layer_multi; auto.
    - intros H. apply layer_multi; auto.
    - intros H. apply layer_multi; auto.
    - rewrite Forall_forall in *. intros p Hp. apply part_leaf_lines; auto.
    - rewrite Forall_forall in *. intros fe Hf. apply file_leaf_lines; auto.
    - rewrite Forall_forall in *. intros fe Hf. apply file_leaf_lines; auto.
  Qed.
End Message.

(* the body is one entity or empty *)
Lemma forest_nil_or_single : forall z,
  length (m_embeds (z_msg z)) = length (z_embeds z) -> length (m_attach (z_msg z)) = length (z_attach z) ->
  forest_of z = [] \/ exists t, forest_of z = [t].
Proof.
  intros z He Ha.
  destruct (Nat.eq_dec (length (m_parts (z_msg z)) + length (z_embeds z) + length (z_attach z)) 0) as [E|E].
  - left. unfold forest_of, forest_gen, mix_level, rel_level, alt_level. cbv zeta.
    unfold has_mixed, has_related, has_alt. rewrite He, Ha.
    destruct (m_parts (z_msg z)); [|cbn in E; lia]. destruct (z_embeds z); [|cbn in E; lia].
    destruct (z_attach z); [|cbn in E; lia]. reflexivity.
  - right. apply forest_single; [lia|exact He|exact Ha].
Qed.

Lemma multipart_head : forall z, multipart z = true -> exists h b kids rest, forest_of z = Multi h b kids :: rest.
Proof.
  intros z H. unfold multipart in H. unfold forest_of, forest_gen, mix_level, rel_level, alt_level. cbv zeta. cbn [negb].
  destruct (has_mixed (z_msg z)); cbn [wrap_mp]; [repeat eexists|].
  destruct (has_related (z_msg z)); cbn [wrap_mp app]; [repeat eexists|].
  destruct (has_alt (z_msg z)); cbn [wrap_mp app]; [repeat eexists|discriminate].
Qed.

Theorem message_Lines : forall (P : bytes -> bool) d i rb m,
  let z := resolve d i rb m in
  P [] = true -> (forall l, line_ok 78 l = true -> P l = true) ->
  msg_safe z -> all_encoded z = true -> bnds (layer_P P) z -> nested_P P z ->
  Lines P (render_pure z ++ crlf) /\ (multipart z = true -> Lines P (render_pure z)).
Proof.
  intros P d i rb m z P0 W Hs He Hb Hn.
  pose proof (forest_Lines P W z Hs He Hb Hn) as HF.
  assert (Ht : Lines P (top_headers (z_msg z))).
  { destruct Hs as (H1 & H2 & _). apply (Lines_weaken (line_ok 78)); [exact W|now apply top_Lines]. }
  destruct (resolve_lengths d i rb m) as (L1 & L2 & _). fold z in L1, L2.
  unfold render_pure, body_pure, body_gen. fold (forest_of z).
  destruct (forest_nil_or_single z L1 L2) as [E|[t E]]; rewrite E in *.
  - cbn [map concat]. rewrite app_nil_r. split.
    + apply Lines_app; [exact Ht|now apply Lines_empty_line].
    + intros Hm. destruct (multipart_head z Hm) as (h & b & kids & rest & E'). rewrite E in E'. discriminate.
  - inversion HF as [|? ? Hsat _]; subst. destruct (ser_Lines P P0 t Hsat) as [LA LB].
    cbn [map concat]. rewrite app_nil_r. split.
    + rewrite <- app_assoc. apply Lines_app; assumption.
    + intros Hm. destruct (multipart_head z Hm) as (h & b & kids & rest & E'). rewrite E in E'.
      inversion E'; subst. apply Lines_app; [exact Ht|]. eapply LB. reflexivity.
Qed.

(* ---------- (1) CRLF only ---------- *)
Lemma bare_of_complete : forall s st, crlf_st st (s ++ crlf) = true -> bare_free_st st s = true.
Proof.
  induction s as [|b t IH]; intros st H.
  - cbn [app] in H. destruct st as [|[|[|n]]]; cbn in *; try reflexivity; discriminate.
  - cbn [app] in H. destruct st as [|[|[|n]]]; cbn [crlf_st bare_free_st] in *;
      try (destruct (N.eqb b 13); [now apply IH|]; destruct (N.eqb b 10); [discriminate|now apply IH]);
      try (apply andb_true_iff in H; destruct H as [H1 H2]; rewrite H1; cbn [andb]; now apply IH).
Qed.

Definition bnds_safe (z : rmsg) : Prop := bnds safe z.

Lemma layers_true : forall z, bnds_safe z -> bnds (layer_P (fun _ => true)) z.
Proof. intros z (A & B & C). unfold bnds, layer_P. split; [|split]; intros H; repeat split; auto. Qed.

Lemma nested_true : forall z, nested_P (fun _ => true) z.
Proof.
  intros z. unfold nested_P, kvs_P. cbv zeta. split; [|split]; apply Forall_forall; intros; reflexivity.
Qed.

Theorem message_crlf_only : forall d i rb m,
  let z := resolve d i rb m in
  msg_safe z -> all_encoded z = true -> bnds_safe z ->
  crlf_only (render_pure z ++ crlf) = true /\
  no_bare_crlf (render_pure z) = true /\
  (multipart z = true -> crlf_only (render_pure z) = true).
Proof.
  intros d i rb m z Hs He Hb.
  destruct (message_Lines (fun _ => true) d i rb m eq_refl (fun _ _ => eq_refl) Hs He (layers_true _ Hb) (nested_true _)) as [LA LB].
  fold z in LA, LB. pose proof (Lines_crlf_only _ _ LA) as C. split; [exact C|]. split.
  - now apply bare_of_complete.
  - intros Hm. eapply Lines_crlf_only. now apply LB.
Qed.

(* ---------- (2) encoded bodies and delimiter lines ---------- *)
Theorem message_body_lines : forall z,
  all_encoded z = true ->
  Forall (fun lf => lines_ok 76 (snd lf ++ crlf) = true) (flat_map leaves (forest_of z)).
Proof.
  intros z Henc.
  unfold all_encoded in Henc. apply andb_true_iff in Henc. destruct Henc as [Henc E3].
  apply andb_true_iff in Henc. destruct Henc as [E1 E2]. rewrite forallb_forall in E1, E2, E3.
  assert (HF : Forall (node_sat (fun _ body => lines_ok 76 (body ++ crlf) = true) (fun _ _ => True)) (forest_of z)).
  { change (forest_of z) with (mix_level z true). apply forest_sat; auto;
      apply Forall_forall; intros x Hx; apply body_lines_ok; auto. }
  induction HF as [|t r Ht Hr IH]; cbn [flat_map]; [constructor|].
  apply Forall_app. split; [|exact IH]. apply (sat_leaves _ _ t) in Ht. exact Ht.
Qed.

Fixpoint node_bnds (t : node) : list bytes :=
  match t with
  | Leaf _ _ => []
  | Multi _ b kids => b :: flat_map node_bnds kids
  end.

Lemma sat_bnds : forall (Q : bytes -> Prop) t, node_sat (fun _ _ => True) (fun _ b => Q b) t -> Forall Q (node_bnds t).
Proof.
  intros Q. induction t as [h body|h b kids IH] using node_ind2; intros H; cbn [node_bnds node_sat] in *; [constructor|].
  destruct H as [Hb H]. apply sat_all in H. constructor; [exact Hb|].
  induction H as [|k r Hk Hr IHr]; cbn [flat_map]; [constructor|]. inversion IH; subst. apply Forall_app. auto.
Qed.

(* RFC 2046: with boundaries of at most 70 characters the delimiter lines "--b" and "--b--" have at
   most 74 characters *)
Theorem message_delimiter_lines : forall z,
  bnds (fun b => length b <= 70) z ->
  Forall (fun b => length (dashdash ++ b) <= 72 /\ length (dashdash ++ b ++ dashdash) <= 74)
         (flat_map node_bnds (forest_of z)).
Proof.
  intros z (B1 & B2 & B3).
  assert (HF : Forall (node_sat (fun _ _ => True)
                         (fun _ b => length (dashdash ++ b) <= 72 /\ length (dashdash ++ b ++ dashdash) <= 74)) (forest_of z)).
  { change (forest_of z) with (mix_level z true).
    apply forest_sat; try (apply Forall_forall; intros; exact I);
      intros H; rewrite !app_length; cbn [length dashdash bs]; [specialize (B1 H)|specialize (B2 H)|specialize (B3 H)]; lia. }
  induction HF as [|t r Ht Hr IH]; cbn [flat_map]; [constructor|].
  apply Forall_app. split; [|exact IH]. now apply sat_bnds.
Qed.

(* ---------- (3) every line of the message ---------- *)
Definition bnds_ok (z : rmsg) : bool :=
  let m := z_msg z in
  (negb (has_mixed m) || bnd_ok (m_bmixed m)) && (negb (has_related m) || bnd_ok (m_brelated m)) &&
  (negb (has_alt m) || bnd_ok (m_balt m)).

Definition kvs_short (kvs : list (bytes * list bytes)) : bool := forallb kv_short kvs.

(* the complement of the known finding part-header-line-too-long: the part header sections that are
   written by CreatePart (i.e. below a multipart layer) have no line "Key: value" longer than 78 *)
Definition nested_short (z : rmsg) : bool :=
  let m := z_msg z in
  forallb (fun p => fl_parts z true || kvs_short (part_kvs (m_wenc m) (m_charset m) p)) (m_parts m) &&
  forallb (fun fe => fl_embeds z true || kvs_short (file_kvs (fst fe))) (z_embeds z) &&
  forallb (fun fe => fl_attach z true || kvs_short (file_kvs (fst fe))) (z_attach z).

Lemma bnd_layer : forall b, bnd_ok b = true -> layer_P (line_ok 78) b.
Proof.
  intros b H. destruct (bnd_ok_safe b H) as (Hs & Hsp & Hl). unfold layer_P. split; [exact Hs|]. split; [|split].
  - change (bs " boundary=" ++ b) with (32%N :: bs "boundary=" ++ b). apply no_sp_line_ok.
    rewrite has_sp_app, Hsp. reflexivity.
  - unfold line_ok, dd. apply orb_true_iff. left. apply Nat.leb_le. rewrite app_length. cbn [length dashdash bs]. lia.
  - unfold line_ok, dd. apply orb_true_iff. left. apply Nat.leb_le. rewrite !app_length. cbn [length dashdash bs]. lia.
Qed.

Lemma bnds_ok_layers : forall z, bnds_ok z = true -> bnds (layer_P (line_ok 78)) z.
Proof.
  intros z H. unfold bnds_ok in H. cbv zeta in H. apply andb_true_iff in H. destruct H as [H H3].
  apply andb_true_iff in H. destruct H as [H1 H2]. unfold bnds. cbv zeta.
  split; [|split]; intros E; rewrite E in *; cbn [negb orb] in *; now apply bnd_layer.
Qed.

Lemma kvs_short_P : forall kvs, kvs_short kvs = true -> kvs_P (line_ok 78) kvs.
Proof.
  intros kvs H kv v Hin Hv. unfold kvs_short in H. rewrite forallb_forall in H. apply kv_short_line_ok; [now apply H|exact Hv].
Qed.

Lemma nested_short_P : forall z, nested_short z = true -> nested_P (line_ok 78) z.
Proof.
  intros z H. unfold nested_short in H. cbv zeta in H. apply andb_true_iff in H. destruct H as [H H3].
  apply andb_true_iff in H. destruct H as [H1 H2]. rewrite forallb_forall in H1, H2, H3.
  unfold nested_P. cbv zeta. split; [|split]; apply Forall_forall; intros x Hx E;
    [specialize (H1 x Hx)|specialize (H2 x Hx)|specialize (H3 x Hx)]; rewrite E in *; cbn [orb] in *; now apply kvs_short_P.
Qed.

Theorem message_line_bound : forall d i rb m,
  let z := resolve d i rb m in
  msg_safe z -> all_encoded z = true -> bnds_ok z = true -> nested_short z = true ->
  forallb (line_ok 78) (lines_of (render_pure z ++ crlf)) = true.
Proof.
  intros d i rb m z Hs He Hb Hn.
  destruct (message_Lines (line_ok 78) d i rb m eq_refl (fun _ H => H) Hs He (bnds_ok_layers _ Hb) (nested_short_P _ Hn)) as [LA _].
  now apply Lines_lines_of.
Qed.

(* the header sections alone need no hypothesis on bodies: the top-level block *)
Theorem top_header_line_bound : forall m,
  hdrs_safe m -> m_preform m = [] -> fold_bound_ok (top_headers m) = true.
Proof. intros m H Hp. unfold fold_bound_ok, fold_bound_ok_n. apply Lines_lines_of; [reflexivity|now apply top_Lines]. Qed.

(* random boundaries: with no cached boundary the ones in use are the drawn ones *)
Theorem resolve_bnds_ok : forall d i rb m,
  m_bmixed m = [] -> m_brelated m = [] -> m_balt m = [] ->
  Forall (fun b => bnd_ok b = true) rb ->
  bnds_ok (resolve d i rb m) = true.
Proof.
  intros d i rb m E1 E2 E3 Hrb.
  assert (Hn : forall n, bnd_ok (nth_rb n rb) = true).
  { intros n. unfold nth_rb. destruct (nth_in_or_default n rb []) as [Hin|Hd]; [|rewrite Hd; reflexivity].
    rewrite Forall_forall in Hrb. now apply Hrb. }
  unfold resolve. rewrite E1, E2, E3. cbn [pick_boundary].
  destruct (has_mixed m) eqn:Hm; destruct (has_related m) eqn:Hr; destruct (has_alt m) eqn:Ha;
    unfold bnds_ok; cbn [z_msg m_bmixed m_brelated m_balt];
    unfold has_mixed, has_related, has_alt in *; cbn [m_parts m_embeds m_attach]; rewrite ?map_length;
    rewrite ?Hm, ?Hr, ?Ha; cbn [negb orb andb]; rewrite ?Hn; reflexivity.
Qed.
