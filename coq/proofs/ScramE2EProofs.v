(* ScramE2EProofs.v — C14: a complete SCRAM exchange between the go-mail client (Scram.scram_next) and the RFC 5802
   reference server of Sasl.v (scram_server_first / scram_server_final) through the assembled, comma-separated and
   base64-carrying messages, for abstract H / HMAC. *)
From Coq Require Import String ZArith Lia ZifyBool ZifyNat ZifyN.
From Verif Require Import Bytes Base64 Scram AuthLoop Sasl.
From VerifProofs Require Import CodecProofs ScramProofs SaslProofs.
Ltac Zify.zify_post_hook ::= Z.div_mod_to_equations.
Open Scope N_scope.

(* ---- the base64 alphabet contains neither ',' nor CR / LF ---- *)
Lemma b64char_range : forall v, let c := b64char v in c <> 44 /\ c <> 13 /\ c <> 10.
Proof.
  intros v c. unfold c, b64char.
  destruct (v <? 26) eqn:E1; [lia|]. destruct (v <? 52) eqn:E2; [lia|].
  destruct (v <? 62) eqn:E3; [lia|]. destruct (v =? 62); lia.
Qed.

Definition okc (c : N) : Prop := c <> 44 /\ c <> 13 /\ c <> 10.

Lemma b64enc_chars : forall n s, (length s <= n)%nat -> Forall okc (b64enc s).
Proof.
  assert (P : okc PAD) by (unfold okc, PAD; lia).
  induction n as [|n IH]; intros s L.
  - destruct s; [constructor|simpl in L; lia].
  - destruct s as [|a [|b [|c t]]]; simpl.
    + constructor.
    + repeat (constructor; [first [apply b64char_range | exact P]|]). constructor.
    + repeat (constructor; [first [apply b64char_range | exact P]|]). constructor.
    + do 4 (constructor; [apply b64char_range|]). apply IH. simpl in L. lia.
Qed.

Lemma b64enc_no_comma : forall s, ~ In 44 (b64enc s).
Proof.
  intros s I. pose proof (b64enc_chars (length s) s (le_n _)) as F. rewrite Forall_forall in F.
  destruct (F 44 I) as [X _]. auto.
Qed.

Lemma b64enc_filter : forall s, filter no_crlf_byte (b64enc s) = b64enc s.
Proof.
  intros s. pose proof (b64enc_chars (length s) s (le_n _)) as F.
  induction F as [|c l (_ & C1 & C2) F IH]; simpl; auto.
  unfold no_crlf_byte at 1. destruct (N.eqb_spec c 13); [contradiction|]. destruct (N.eqb_spec c 10); [contradiction|].
  simpl. f_equal. auto.
Qed.

Lemma go_b64_roundtrip : forall s, wf_bytes s = true -> go_b64dec (b64enc s) = Some s.
Proof. intros s W. unfold go_b64dec. rewrite b64enc_filter. apply b64_roundtrip. auto. Qed.

(* ---- decimal rendering and strconv.Atoi ---- *)
Lemma digits_val_app : forall x y a,
  digits_val a (x ++ y) = match digits_val a x with Some v => digits_val v y | None => None end.
Proof.
  induction x as [|c x IH]; intros y a; simpl; auto. destruct (is_digit c); auto.
Qed.

Lemma dec_aux_S : forall f n acc,
  dec_aux (S f) n acc = if n / 10 =? 0 then (48 + n mod 10) :: acc else dec_aux f (n / 10) ((48 + n mod 10) :: acc).
Proof. reflexivity. Qed.

Lemma dec_aux_spec : forall fuel n acc, n < 10 ^ N.of_nat (S fuel) ->
  exists ds, dec_aux (S fuel) n acc = ds ++ acc /\ ds <> [] /\ Forall (fun c => is_digit c = true) ds /\
             forall a, digits_val a ds = Some (a * 10 ^ N.of_nat (length ds) + n).
Proof.
  induction fuel as [|f IH]; intros n acc L.
  all: rewrite dec_aux_S; set (d0 := 48 + n mod 10).
  all: assert (D0 : is_digit d0 = true) by (unfold is_digit, d0; pose proof (N.mod_lt n 10); lia).
  all: assert (V0 : d0 - 48 = n mod 10) by (unfold d0; lia).
  all: assert (ONE : n / 10 = 0 -> exists ds, [d0] ++ acc = ds ++ acc /\ ds <> [] /\ Forall (fun c => is_digit c = true) ds /\
             forall a, digits_val a ds = Some (a * 10 ^ N.of_nat (length ds) + n)).
  1,3: (intros Z; exists [d0]; repeat split; auto; try discriminate;
        intros a; simpl; rewrite D0, V0; f_equal; pose proof (N.div_mod' n 10); change (10 ^ N.of_nat 1) with 10; lia).
  - destruct (n / 10 =? 0) eqn:Z; [apply N.eqb_eq in Z; apply ONE; auto|].
    exfalso. apply N.eqb_neq in Z. change (10 ^ N.of_nat 1) with 10 in L. apply Z. apply N.div_small. lia.
  - destruct (n / 10 =? 0) eqn:Z; [apply N.eqb_eq in Z; apply ONE; auto|].
    assert (L' : n / 10 < 10 ^ N.of_nat (S f)).
    { replace (N.of_nat (S (S f))) with (N.succ (N.of_nat (S f))) in L by lia. rewrite N.pow_succ_r' in L.
      apply N.div_lt_upper_bound; lia. }
    destruct (IH (n / 10) (d0 :: acc) L') as (ds & E & NE & FD & V).
    exists (ds ++ [d0]). rewrite E. rewrite <- app_assoc. repeat split; auto.
    + destruct ds; discriminate.
    + apply Forall_app. split; auto.
    + intros a. rewrite digits_val_app, V. simpl. rewrite D0, V0. f_equal.
      rewrite app_length. simpl. replace (N.of_nat (length ds + 1)) with (N.succ (N.of_nat (length ds))) by lia.
      rewrite N.pow_succ_r'. pose proof (N.div_mod' n 10). lia.
Qed.

Lemma dec_of_N_spec : forall n,
  exists d t, dec_of_N n = d :: t /\ Forall (fun c => is_digit c = true) (d :: t) /\ digits_val 0 (d :: t) = Some n.
Proof.
  intros n. unfold dec_of_N.
  assert (L : n < 10 ^ N.of_nat (S (S (N.to_nat (N.log2 n))))).
  { destruct (N.eq_dec n 0) as [->|NZ]; [simpl; lia|].
    pose proof (N.log2_spec n) as [_ U]; [lia|].
    eapply N.lt_le_trans; [exact U|].
    replace (N.of_nat (S (S (N.to_nat (N.log2 n))))) with (N.succ (N.succ (N.log2 n))) by lia.
    eapply N.le_trans; [apply (N.pow_le_mono_l 2 10 (N.succ (N.log2 n))); lia|].
    apply N.pow_le_mono_r; lia. }
  destruct (dec_aux_spec (S (N.to_nat (N.log2 n))) n [] L) as (ds & E & NE & FD & V). rewrite app_nil_r in E.
  destruct ds as [|d t]; [contradiction|]. exists d, t. repeat split; auto.
  rewrite V. f_equal.
Qed.

Lemma is_digit_not_comma : forall l, Forall (fun c => is_digit c = true) l -> ~ In 44 l.
Proof.
  intros l F I. rewrite Forall_forall in F. specialize (F 44 I). discriminate.
Qed.

Lemma go_atoi_digit_head : forall d t, is_digit d = true ->
  go_atoi (d :: t) = match digits_val 0 (d :: t) with
                     | None => None
                     | Some n => if n <? 9223372036854775808 then Some (Z.of_N n) else None
                     end.
Proof.
  intros d t D. unfold is_digit in D. unfold go_atoi.
  destruct d as [|p]; [discriminate|].
  do 6 (try (destruct p as [p|p|])); try (simpl in D; discriminate); try reflexivity.
Qed.

Lemma atoi_dec : forall n, n < 9223372036854775808 -> go_atoi (dec_of_N n) = Some (Z.of_N n) /\ ~ In 44 (dec_of_N n).
Proof.
  intros n L. destruct (dec_of_N_spec n) as (d & t & E & FD & V). rewrite E. split.
  - rewrite go_atoi_digit_head by (inversion FD; auto). rewrite V.
    destruct (N.ltb_spec n 9223372036854775808); [reflexivity|lia].
  - apply is_digit_not_comma. auto.
Qed.

(* ---- xor of bytes stays a byte ---- *)
Fixpoint nrange (k : nat) : list N := match k with O => [] | S k' => N.of_nat k' :: nrange k' end.

Lemma nrange_in : forall k x, x < N.of_nat k -> In x (nrange k).
Proof.
  induction k as [|k IH]; intros x L; [lia|]. simpl.
  destruct (N.eq_dec x (N.of_nat k)); [left; auto|right; apply IH; lia].
Qed.

Lemma lxor_byte : forall a b, a < 256 -> b < 256 -> N.lxor a b < 256.
Proof.
  assert (T : forallb (fun a => forallb (fun b => N.lxor a b <? 256) (nrange 256)) (nrange 256) = true)
    by (vm_compute; reflexivity).
  intros a b La Lb. rewrite forallb_forall in T.
  specialize (T a (nrange_in 256 a La)). rewrite forallb_forall in T.
  specialize (T b (nrange_in 256 b Lb)). lia.
Qed.

Lemma bxor_wf : forall a b, wf_bytes a = true -> wf_bytes b = true -> wf_bytes (bxor a b) = true.
Proof.
  induction a as [|x a IH]; destruct b as [|y b]; simpl; intros Wa Wb; auto.
  apply andb_true_iff in Wa. destruct Wa as [X Wa]. apply andb_true_iff in Wb. destruct Wb as [Y Wb].
  unfold wf_byte in *. apply andb_true_iff. split; [|auto].
  apply N.ltb_lt. apply lxor_byte; lia.
Qed.

Lemma wf_app : forall a b, wf_bytes (a ++ b) = wf_bytes a && wf_bytes b.
Proof. intros. unfold wf_bytes. apply forallb_app. Qed.

Lemma is_prefix_app : forall a b, is_prefix a (a ++ b) = true.
Proof. induction a as [|x a IH]; intros b; simpl; auto. rewrite N.eqb_refl. apply IH. Qed.

Lemma in_app_not : forall (x : N) a b, ~ In x a -> ~ In x b -> ~ In x (a ++ b).
Proof. intros x a b A B I. apply in_app_or in I. tauto. Qed.

Lemma cb_select_name : forall ti bt d, cb_select ti = Some (bt, d) -> bt = bs "tls-unique" \/ bt = bs "tls-exporter".
Proof.
  intros ti bt d E. unfold cb_select in E.
  destruct (match ti_unique ti with Some d0 => if ti_v13 ti then None else Some d0 | None => None end).
  - inversion E. auto.
  - destruct (ti_exporter ti); inversion E. auto.
Qed.

Lemma hi_length : forall (HMAC : bytes -> bytes -> bytes) n pw salt i,
  (forall k m, length (HMAC k m) = n) -> length (Hi HMAC pw salt i) = n.
Proof. intros. unfold Hi. apply hi_from_length; auto. Qed.

Section E2E.
  Variable H : bytes -> bytes.
  Variable HMAC : bytes -> bytes -> bytes.
  Variable hsize : nat.
  Variable precis : bytes -> option bytes.
  Variable cfg : scram_cfg.
  Variable id : scram_id.
  Variable c : srv_cfg.
  Variable db : bytes -> option (stored).
  Hypothesis HL : forall k m, length (HMAC k m) = hsize.
  Hypothesis Hpos : (0 < hsize)%nat.
  Hypothesis HW : forall k m, wf_bytes (HMAC k m) = true.
  (* the account: the prepared user name arrives escaped, is ','-free, and unescapes to the account name *)
  Variables uname acct pw salt : bytes.
  Variable iter : nat.
  Hypothesis Puser : precis (escape_name (sid_user id)) = Some uname.
  Hypothesis Ucomma : ~ In 44 uname.
  Hypothesis Uacct : unescape_name uname = Some acct.
  Hypothesis Ppass : precis (sid_pass id) = Some pw.
  Hypothesis Dacct : db acct = Some (store H HMAC pw salt iter).
  Hypothesis Iter1 : (1 <= iter)%nat.
  Hypothesis IterMax : N.of_nat iter < 9223372036854775808.
  Hypothesis Wsalt : wf_bytes salt = true.
  Hypothesis SNcomma : ~ In 44 (sc_snonce c).
  (* optional extensions the server appends to its first message: nothing, or "," followed by anything *)
  Hypothesis Ext : sc_ext c = [] \/ exists e, sc_ext c = 44 :: e.
  (* the channel: both ends report the same binding for a -PLUS mechanism; no binding otherwise *)
  Variables cbname cbdata : bytes.
  Hypothesis Chan :
    if sid_plus id
    then sc_plus c = true /\ sc_cbname c = cbname /\ sc_cbdata c = cbdata /\ wf_bytes cbdata = true /\
         exists ti, sid_tls id = Some ti /\ cb_select ti = Some (cbname, cbdata)
    else sc_plus c = false /\ cbname = [] /\ cbdata = [].

  Let gs2h : bytes := if sid_plus id then bs "p=" ++ cbname ++ bs ",," else bs "n,,".
  Let c64 : bytes := b64enc (gs2h ++ cbdata).

  Lemma cbname_facts : sid_plus id = true -> ~ In 44 cbname /\ wf_bytes cbname = true.
  Proof.
    intros P. rewrite P in Chan. destruct Chan as (_ & _ & _ & _ & ti & _ & S).
    destruct (cb_select_name _ _ _ S) as [-> | ->]; split; try reflexivity; intros I; simpl in I; intuition discriminate.
  Qed.

  Lemma gs2h_wf : wf_bytes (gs2h ++ cbdata) = true.
  Proof.
    unfold gs2h. pose proof cbname_facts as CF. destruct (sid_plus id) eqn:P.
    - destruct (CF eq_refl) as [_ W]. destruct Chan as (_ & _ & _ & Wd & _).
      rewrite !wf_app, W, Wd. reflexivity.
    - destruct Chan as (_ & _ & ->). reflexivity.
  Qed.

  (* 1. the client-first-message *)
  Lemma e2e_client_first : forall st r rest, is_nil r = false ->
    initial_client_message precis id st (r :: rest) =
      ({| ss_bare := bs "n=" ++ uname ++ bs ",r=" ++ b64enc r; ss_nonce := b64enc r; ss_salted := ss_salted st;
          ss_authmsg := ss_authmsg st; ss_iter := ss_iter st;
          ss_bind := if sid_plus id then c64 else ss_bind st; ss_verified := ss_verified st |},
       rest, Some (gs2h ++ bs "n=" ++ uname ++ bs ",r=" ++ b64enc r)).
  Proof.
    intros st r rest NR. unfold initial_client_message. rewrite Puser. unfold c64, gs2h.
    destruct (sid_plus id) eqn:P.
    - destruct Chan as (_ & _ & _ & _ & ti & T & S). rewrite T, S.
      rewrite <- !app_assoc. reflexivity.
    - reflexivity.
  Qed.

  (* 2. the server reads it *)
  Lemma e2e_server_first : forall r, is_nil r = false ->
    scram_server_first c db (gs2h ++ bs "n=" ++ uname ++ bs ",r=" ++ b64enc r) =
    let a := store H HMAC pw salt iter in
    let sf := server_first (b64enc r) (sc_snonce c) a (sc_ext c) in
    Some ({| sx_acct := a; sx_gs2 := gs2h; sx_bare := bs "n=" ++ uname ++ bs ",r=" ++ b64enc r; sx_sfirst := sf;
             sx_combined := b64enc r ++ sc_snonce c |}, sf).
  Proof.
    intros r NR. unfold scram_server_first, parse_client_first.
    set (flag := if sid_plus id then bs "p=" ++ cbname else bs "n").
    assert (FC : ~ In 44 flag).
    { unfold flag. pose proof cbname_facts as CF. destruct (sid_plus id) eqn:P.
      - destruct (CF eq_refl) as [NC _]. apply in_app_not; auto. simpl. intuition discriminate.
      - simpl. intuition discriminate. }
    assert (EG : gs2h = flag ++ bs ",,") by (unfold gs2h, flag; destruct (sid_plus id); [rewrite <- app_assoc|]; reflexivity).
    rewrite EG.
    replace ((flag ++ bs ",,") ++ bs "n=" ++ uname ++ bs ",r=" ++ b64enc r)
      with (flag ++ 44 :: ([] ++ 44 :: ((bs "n=" ++ uname) ++ 44 :: (bs "r=" ++ b64enc r))))
      by (rewrite <- !app_assoc; reflexivity).
    rewrite split_on_app by auto. rewrite split_on_app by (intros []).
    rewrite split_on_app by (apply in_app_not; auto; simpl; intuition discriminate).
    rewrite split_on_none by (apply in_app_not; [simpl; intuition discriminate|apply b64enc_no_comma]).
    cbn [is_nil negb]. rewrite !strip_prefix_app, Uacct.
    rewrite (b64enc_nonnil r NR). cbn [negb].
    assert (GO : gs2_ok c (flag ++ bs ",,") = true).
    { unfold gs2_ok, flag. destruct (sid_plus id) eqn:P.
      - destruct Chan as (-> & -> & _). rewrite <- app_assoc. apply bytes_eqb_refl.
      - destruct Chan as (-> & _). reflexivity. }
    rewrite GO. cbn [negb]. rewrite Dacct. cbv zeta. rewrite <- !app_assoc. reflexivity.
  Qed.

  (* ---- names for the messages of the exchange ---- *)
  Variable r : bytes.                       (* the draw of the randomness oracle *)
  Hypothesis Rne : is_nil r = false.
  Let cn := b64enc r.
  Let sn := sc_snonce c.
  Let comb := cn ++ sn.
  Let bare := bs "n=" ++ uname ++ bs ",r=" ++ cn.
  Let acc := store H HMAC pw salt iter.
  Let ext := sc_ext c.
  Let sfirst := server_first cn sn acc ext.
  Let salted := Hi HMAC pw salt iter.
  Let wo := bs "c=" ++ c64 ++ bs ",r=" ++ comb.
  Let am := bare ++ bs "," ++ sfirst ++ bs "," ++ wo.
  Let cfinal := wo ++ bs ",p=" ++ client_proof H HMAC salted am.
  Let sfinal := bs "v=" ++ b64enc (HMAC (sv_server_key acc) am).

  Definition st_after_first (st : scram_state) : scram_state :=
    {| ss_bare := bare; ss_nonce := cn; ss_salted := ss_salted st; ss_authmsg := ss_authmsg st; ss_iter := ss_iter st;
       ss_bind := if sid_plus id then c64 else ss_bind st; ss_verified := ss_verified st |}.

  Definition st_after_final (st : scram_state) (v : bool) : scram_state :=
    {| ss_bare := bare; ss_nonce := comb; ss_salted := salted; ss_authmsg := am; ss_iter := Z.of_nat iter;
       ss_bind := if sid_plus id then c64 else ss_bind st; ss_verified := v |}.

  Lemma comb_no_comma : ~ In 44 comb.
  Proof. apply in_app_not; [apply b64enc_no_comma | exact SNcomma]. Qed.

  (* 3. the client reads the server-first-message ... *)
  Lemma e2e_sf_parse : sf_parse sfirst = Some (comb, salt, Z.of_nat iter).
  Proof.
    unfold sf_parse, sfirst, server_first. fold cn sn. cbn [sv_salt sv_iter acc store].
    destruct (atoi_dec (N.of_nat iter) IterMax) as [AT DC].
    replace (bs "r=" ++ cn ++ sn ++ bs ",s=" ++ b64enc salt ++ bs ",i=" ++ dec_of_N (N.of_nat iter) ++ ext)
      with ((bs "r=" ++ comb) ++ 44 :: ((bs "s=" ++ b64enc salt) ++ 44 :: ((bs "i=" ++ dec_of_N (N.of_nat iter)) ++ ext)))
      by (unfold comb; rewrite <- !app_assoc; reflexivity).
    rewrite split_on_app by (apply in_app_not; [simpl; intuition discriminate|apply comb_no_comma]).
    rewrite split_on_app by (apply in_app_not; [simpl; intuition discriminate|apply b64enc_no_comma]).
    assert (NI : ~ In 44 (bs "i=" ++ dec_of_N (N.of_nat iter))) by (apply in_app_not; [simpl; intuition discriminate|exact DC]).
    assert (S3 : exists tl, split_on 44 ((bs "i=" ++ dec_of_N (N.of_nat iter)) ++ ext) = (bs "i=" ++ dec_of_N (N.of_nat iter)) :: tl).
    { unfold ext. destruct Ext as [-> | (e & ->)].
      - rewrite app_nil_r, split_on_none by exact NI. eauto.
      - rewrite split_on_app by exact NI. eauto. }
    destruct S3 as (tl3 & ->).
    rewrite !is_prefix_app. cbn [andb].
    change (skipn 2 (bs "s=" ++ b64enc salt)) with (b64enc salt).
    change (skipn 2 (bs "i=" ++ dec_of_N (N.of_nat iter))) with (dec_of_N (N.of_nat iter)).
    change (skipn 2 (bs "r=" ++ comb)) with comb.
    rewrite (go_b64_roundtrip salt Wsalt), AT. rewrite nat_N_Z. reflexivity.
  Qed.

  Lemma wo_is_msg_without_proof : forall st, msg_without_proof id (st_after_first st) comb = wo.
  Proof.
    intros st. unfold msg_without_proof, wo, st_after_first. cbn [ss_bind].
    pose proof Chan as CH. unfold c64, gs2h. destruct (sid_plus id).
    - reflexivity.
    - destruct CH as (_ & _ & ->). reflexivity.
  Qed.

  (*    ... and answers with the client-final-message *)
  Lemma e2e_client_final : forall st,
    handle_server_first H HMAC hsize precis id (st_after_first st) sfirst = Some (st_after_final st false, cfinal).
  Proof.
    intros st. unfold handle_server_first. rewrite e2e_sf_parse. rewrite gen_nonce_check, gen_authmsg_raw.
    cbn [ss_nonce st_after_first]. unfold cn at 1 2. rewrite (b64enc_nonnil r Rne).
    fold cn. unfold comb at 1. rewrite is_prefix_app. cbn [orb negb]. rewrite Ppass.
    rewrite (pbkdf2_is_Hi HMAC hsize pw salt iter HL Hpos Iter1). fold salted.
    rewrite wo_is_msg_without_proof. cbn [ss_bare ss_bind st_after_first]. fold am. reflexivity.
  Qed.

  (* 4. the server accepts it and returns the server-final-message *)
  Lemma e2e_server_final :
    scram_server_final H HMAC c {| sx_acct := acc; sx_gs2 := gs2h; sx_bare := bare; sx_sfirst := sfirst; sx_combined := comb |} cfinal
    = Some sfinal.
  Proof.
    unfold scram_server_final, server_final. cbn [sx_acct sx_gs2 sx_bare sx_sfirst sx_combined].
    assert (CB : (if sc_plus c then sc_cbdata c else []) = cbdata).
    { pose proof Chan as CH. destruct (sid_plus id).
      - destruct CH as (-> & _ & -> & _). reflexivity.
      - destruct CH as (-> & _ & ->). reflexivity. }
    rewrite CB.
    set (proof := bxor (HMAC salted (bs "Client Key")) (HMAC (H (HMAC salted (bs "Client Key"))) am)).
    assert (EC : cfinal = (bs "c=" ++ c64) ++ 44 :: ((bs "r=" ++ comb) ++ 44 :: (bs "p=" ++ b64enc proof))).
    { unfold cfinal, wo, client_proof. fold proof. rewrite <- !app_assoc. reflexivity. }
    rewrite EC.
    rewrite split_on_app by (apply in_app_not; [simpl; intuition discriminate|apply b64enc_no_comma]).
    rewrite split_on_app by (apply in_app_not; [simpl; intuition discriminate|apply comb_no_comma]).
    rewrite split_on_none by (apply in_app_not; [simpl; intuition discriminate|apply b64enc_no_comma]).
    rewrite !strip_prefix_app.
    unfold c64 at 1. rewrite (b64_roundtrip _ gs2h_wf).
    assert (WP : wf_bytes proof = true) by (apply bxor_wf; apply HW).
    rewrite (b64_roundtrip _ WP).
    assert (EA : bare ++ bs "," ++ sfirst ++ bs "," ++ (bs "c=" ++ c64) ++ bs "," ++ bs "r=" ++ comb = am).
    { unfold am, wo. rewrite <- !app_assoc. reflexivity. }
    rewrite EA. rewrite !bytes_eqb_refl. cbn [andb].
    assert (SK : sv_stored_key acc = H (HMAC salted (bs "Client Key"))) by reflexivity.
    rewrite SK.
    assert (LEN : Nat.eqb (length proof) (length (HMAC (H (HMAC salted (bs "Client Key"))) am)) = true).
    { apply Nat.eqb_eq. unfold proof. rewrite bxor_length; rewrite !HL; reflexivity. }
    rewrite LEN. cbn [andb].
    pose proof (scram_proof_accepted H HMAC hsize salted am HL) as PA. cbv zeta in PA. fold proof in PA.
    rewrite PA, bytes_eqb_refl. reflexivity.
  Qed.

  (* 5. the client verifies the server signature and acknowledges *)
  Lemma e2e_client_ack : forall st,
    handle_server_final HMAC cfg (st_after_final st false) sfinal = Some (st_after_final st true, []).
  Proof.
    intros st. unfold handle_server_final. cbn [ss_salted ss_authmsg st_after_final].
    assert (S1 : is_nil salted = false).
    { pose proof (hi_length HMAC hsize pw salt iter HL) as L. fold salted in L. destruct salted; [simpl in L; lia|reflexivity]. }
    assert (S2 : is_nil am = false) by (unfold am, bare; reflexivity).
    rewrite S1, S2, andb_false_r.
    change (skipn 2 sfinal) with (b64enc (HMAC (sv_server_key acc) am)).
    change (server_sig HMAC salted am) with (b64enc (HMAC (sv_server_key acc) am)).
    rewrite bytes_eqb_refl. reflexivity.
  Qed.

  Lemma next_on_first : forall (s : scram_state * list bytes) x,
    scram_next H HMAC hsize precis cfg id s (bs "r=" ++ x) true =
    match handle_server_first H HMAC hsize precis id (fst s) (bs "r=" ++ x) with
    | Some (st1, resp) => ((st1, snd s), Some (Some resp))
    | None => ((ss_reset (fst s), snd s), None)
    end.
  Proof. reflexivity. Qed.

  Lemma next_on_final : forall (s : scram_state * list bytes) x,
    scram_next H HMAC hsize precis cfg id s (bs "v=" ++ x) true =
    match handle_server_final HMAC cfg (fst s) (bs "v=" ++ x) with
    | Some (st1, resp) => ((st1, snd s), Some (Some resp))
    | None => ((ss_reset (fst s), snd s), None)
    end.
  Proof. reflexivity. Qed.

  (* 6. the whole exchange: the server accepts, the client has verified the server signature and reports success *)
  Theorem e2e_accepted : forall st rest,
    scram_dialogue H HMAC hsize precis cfg id c db (st, r :: rest) = true.
  Proof.
    intros st rest. unfold scram_dialogue.
    set (st' := if restart_resets cfg then ss_reset st else st).
    assert (N1 : scram_next H HMAC hsize precis cfg id (st, r :: rest) [] true =
                 ((st_after_first st', rest), Some (Some (gs2h ++ bare)))).
    { unfold scram_next. cbn [fst snd]. fold st'. rewrite (e2e_client_first st' r rest Rne). reflexivity. }
    rewrite N1. unfold bare, cn. rewrite (e2e_server_first r Rne). cbv zeta.
    fold cn. fold bare. fold sn. fold acc. fold ext. fold sfirst. fold comb.
    assert (N2 : scram_next H HMAC hsize precis cfg id (st_after_first st', rest) sfirst true =
                 ((st_after_final st' false, rest), Some (Some cfinal))).
    { unfold sfirst, server_first. rewrite next_on_first. cbn [fst snd].
      change (bs "r=" ++ cn ++ sn ++ bs ",s=" ++ b64enc (sv_salt acc) ++ bs ",i=" ++ dec_of_N (N.of_nat (sv_iter acc)) ++ ext) with sfirst.
      rewrite e2e_client_final. reflexivity. }
    cbv beta iota. rewrite N2. rewrite e2e_server_final.
    assert (N3 : scram_next H HMAC hsize precis cfg id (st_after_final st' false, rest) sfinal true =
                 ((st_after_final st' true, rest), Some (Some []))).
    { unfold sfinal. rewrite next_on_final. cbn [fst snd].
      change (bs "v=" ++ b64enc (HMAC (sv_server_key acc) am)) with sfinal. rewrite e2e_client_ack. reflexivity. }
    rewrite N3. cbn [is_nil fst ss_verified st_after_final andb].
    unfold scram_next. cbn [fst ss_verified st_after_final negb]. rewrite !andb_false_r. reflexivity.
  Qed.
End E2E.

Lemma e2e_accepted_ascii :
  forall (H : bytes -> bytes) (HMAC : bytes -> bytes -> bytes) (hsize : nat) (precis : bytes -> option bytes)
         (cfg : scram_cfg) (id : scram_id) (c : srv_cfg) (db : bytes -> option stored),
    (forall k m : bytes, length (HMAC k m) = hsize) -> (0 < hsize)%nat -> (forall k m : bytes, wf_bytes (HMAC k m) = true) ->
    forall (salt : bytes) (iter : nat),
    precis (escape_name (sid_user id)) = Some (escape_name (sid_user id)) -> precis (sid_pass id) = Some (sid_pass id) ->
    db (sid_user id) = Some (store H HMAC (sid_pass id) salt iter) ->
    (1 <= iter)%nat -> N.of_nat iter < 9223372036854775808 -> wf_bytes salt = true ->
    ~ In 44 (sc_snonce c) -> (sc_ext c = [] \/ exists e, sc_ext c = 44 :: e) -> sid_plus id = false -> sc_plus c = false ->
    forall r : bytes, is_nil r = false ->
    forall (st : scram_state) (rest : list bytes),
      scram_dialogue H HMAC hsize precis cfg id c db (st, r :: rest) = true.
Proof.
  intros H HMAC hsize precis cfg id c db HL Hp HW salt iter PU PP DB I1 IM WS SN EX NP CP r RN st rest.
  apply (e2e_accepted H HMAC hsize precis cfg id c db HL Hp HW (escape_name (sid_user id)) (sid_user id) (sid_pass id) salt iter
           PU (escape_no_comma _) (escape_unescape _) PP DB I1 IM WS SN EX [] []); auto.
  rewrite NP. auto.
Qed.

(* the server rejects a client-final-message whose proof does not open the stored key *)
Lemma server_rejects_wrong_proof : forall (H : bytes -> bytes) (HMAC : bytes -> bytes -> bytes) a gs2 cbdata cbare sfirst combined c64 nonce p64 cb proof,
  b64dec c64 = Some cb -> b64dec p64 = Some proof ->
  ~ In 44 c64 -> ~ In 44 nonce -> ~ In 44 p64 ->
  H (bxor (HMAC (sv_stored_key a) (cbare ++ bs "," ++ sfirst ++ bs "," ++ (bs "c=" ++ c64) ++ bs "," ++ (bs "r=" ++ nonce))) proof)
    <> sv_stored_key a ->
  server_final H HMAC a gs2 cbdata cbare sfirst combined ((bs "c=" ++ c64) ++ bs "," ++ (bs "r=" ++ nonce) ++ bs "," ++ (bs "p=" ++ p64)) = None.
Proof.
  intros H HMAC a gs2 cbdata cbare sfirst combined c64 nonce p64 cb proof DC DP NC NN NP NE.
  unfold server_final.
  replace ((bs "c=" ++ c64) ++ bs "," ++ (bs "r=" ++ nonce) ++ bs "," ++ (bs "p=" ++ p64))
    with ((bs "c=" ++ c64) ++ 44 :: ((bs "r=" ++ nonce) ++ 44 :: (bs "p=" ++ p64))) by reflexivity.
  rewrite split_on_app by (apply in_app_not; [simpl; intuition discriminate|auto]).
  rewrite split_on_app by (apply in_app_not; [simpl; intuition discriminate|auto]).
  rewrite split_on_none by (apply in_app_not; [simpl; intuition discriminate|auto]).
  rewrite !strip_prefix_app, DC, DP.
  match goal with |- context [bytes_eqb (H ?x) (sv_stored_key a)] => destruct (bytes_eqb (H x) (sv_stored_key a)) eqn:E end.
  - exfalso. apply NE. apply SaslProofs.bytes_eqb_eq. exact E.
  - rewrite !andb_false_r. reflexivity.
Qed.


(* ---- the Auth loop hands the mechanism exactly the bytes the server issued ---- *)
(* T1: in smtp.Client.Auth the decoded challenge reaches a.Next unchanged *)
Lemma gen_challenge_passed_unchanged : Gen.smtp_auth_challenge_passed_unchanged = true.
Proof. reflexivity. Qed.

(* for ANY mechanism: the response written after the challenge [chal] (any bytes: leading / trailing / interior blanks,
   tabs, CR, LF included) is the base64 of what the mechanism's Next returns for exactly [chal] *)
Lemma auth_loop_passes_challenge : forall S (m : mech S) active name (s s' : S) chal resp rest o,
  wf_bytes chal = true ->
  m_next m s chal true = (s', Some (Some resp)) ->
  o_sent (f_out (auth_loop m active name s code_challenge (b64enc chal) rest o)) =
  match rest with
  | Reply c mm :: rest' => o_sent (f_out (auth_loop m active name s' c mm rest' (cmd_out active (b64enc resp) (Reply c mm) o)))
  | _ => o_sent o ++ [b64enc resp]
  end.
Proof.
  intros S m active name s s' chal resp rest o W N.
  pose proof (go_b64_roundtrip chal W) as D. unfold go_b64dec in D.
  destruct rest as [|[c mm|] rest']; cbn [auth_loop];
    change (code_challenge =? code_challenge) with true; cbv iota; rewrite D, N; reflexivity.
Qed.

(* CRAM-MD5 through Client.Auth: the line written in answer to the challenge is the RFC 2195 response to exactly the issued
   bytes, and an RFC 2195 server that computes HMAC-MD5 over the challenge it issued accepts it *)
Lemma cram_auth_answers_issued_challenge : forall (HMACmd5 : bytes -> bytes -> bytes) user secret chal lad secret_of,
  wf_bytes chal = true -> secret_of user = Some secret ->
  let f := auth (cram_mech HMACmd5 user secret) lad false tt [Reply code_challenge (b64enc chal)] in
  o_sent (f_out f) = [bs "AUTH CRAM-MD5"; b64enc (cram_response HMACmd5 user secret chal)] /\
  cram_server HMACmd5 secret_of chal (cram_response HMACmd5 user secret chal) = true.
Proof.
  intros HM user secret chal lad secret_of W SO. split; [|apply cram_accepted; auto].
  unfold auth, deferred. cbn [m_start cram_mech f_out].
  rewrite (auth_loop_passes_challenge unit (cram_mech HM user secret) _ _ tt tt chal (cram_response HM user secret chal) [] _ W eq_refl).
  reflexivity.
Qed.
