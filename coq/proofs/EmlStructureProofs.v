(* C10 — stage S2 assembled: the field tree the front end reads off the tree of a rendered message
   in the feature set is the canonical one; and the composition with the render agent's theorems. *)
From Coq Require Import String ZArith.
From Verif Require Import Bytes Base64 LineBreaker QP HeaderFold WordEnc Writer MimeTree MimeRead Render.
From Verif Require Import Eml EmlRender EmlFront EmlRoundtrip.
From VerifGen Require Import Gen.
From VerifProofs Require Import WordEncProofs HeaderSafeProofs HeaderFoldProofs RenderProofs MimeReadProofs C01Proofs.
From VerifProofs Require Import EmlProofs EmlRenderProofs EmlCodecProofs EmlFrontProofs EmlHeaderProofs EmlRoundtripProofs EmlRoundtripMain.
From Coq Require Import Lia.

(* ---------- body parts ---------- *)
Lemma part_block : forall folded m p,
  Writer.m_charset m = charset_utf8 -> part_ok p = true ->
  fblock (part_hdr folded (m_wenc m) (Writer.m_charset m) p) (cpart_fields m p).
Proof.
  intros folded m p Hm Hp. destruct (part_ok_facts m p Hm Hp) as (Hct & Hcty & _ & _ & Henc).
  assert (Hd : p_desc p = []).
  { unfold part_ok in Hp. repeat (apply andb_true_iff in Hp; destruct Hp as [Hp ?]).
    destruct (p_desc p); [reflexivity|discriminate]. }
  unfold part_hdr, cpart_fields, part_kvs. rewrite Hd, Hcty. cbn [app].
  destruct folded.
  - change [fld h_cte (enc_name (Writer.p_enc p)); fld h_ctype (Writer.p_ctype p ++ bs "; charset=" ++ charset_utf8)]
      with ([fld h_cte (enc_name (Writer.p_enc p))] ++ [fld h_ctype (Writer.p_ctype p ++ bs "; charset=" ++ charset_utf8)]).
    apply fblock_app.
    + rewrite <- (app_nil_r (hline _ _)). apply (fb_cons _ h_cte (join (bs ", ") [enc_name (Writer.p_enc p)])); [|constructor].
      apply ftext_hline; [reflexivity|discriminate|]. destruct (Writer.p_enc p); try contradiction; reflexivity.
    + rewrite <- (app_nil_r (hline _ _)). apply (fb_cons _ h_ctype (join (bs ", ") [Writer.p_ctype p ++ bs "; charset=" ++ charset_utf8])); [|constructor].
      apply ftext_hline; [reflexivity|discriminate|]. destruct Hct as [ -> | -> ]; reflexivity.
  - apply (fblock_part_lines [(h_cte, enc_name (Writer.p_enc p)); (h_ctype, Writer.p_ctype p ++ bs "; charset=" ++ charset_utf8)]).
    constructor; [|constructor; [|constructor]]; unfold kv_plain; cbn [fst snd].
    + destruct (Writer.p_enc p); try contradiction; repeat split; reflexivity.
    + destruct Hct as [ -> | -> ]; repeat split; reflexivity.
Qed.

(* ---------- files ---------- *)
Lemma name_bytes : forall n, name_ok n = true ->
  nlfree n /\ hd_ok n = true /\ forallb (fun b => (32 <=? b)%N && (b <=? 126)%N) n = true.
Proof.
  intros n H. unfold name_ok in H. apply andb_true_iff in H. destruct H as [H Hg].
  apply andb_true_iff in H. destruct H as [_ H].
  assert (Hb : forall b, In b n -> (32 <= b)%N /\ (b <= 126)%N).
  { intros b Hin. rewrite forallb_forall in H. specialize (H b Hin).
    repeat (apply andb_true_iff in H; destruct H as [H ?]). apply N.leb_le in H, H2. lia. }
  repeat split.
  - apply forallb_forall. intros b Hin. destruct (Hb b Hin). unfold nl_free.
    destruct (N.eqb_spec b 13); [lia|]. destruct (N.eqb_spec b 10); [lia|reflexivity].
  - now apply good_value_hd.
  - apply forallb_forall. intros b Hin. destruct (Hb b Hin). apply andb_true_iff. split; apply N.leb_le; lia.
Qed.

Lemma mime_bytes : forall t, mime_ok t = true -> nlfree t /\ hd_ok t = true.
Proof.
  intros t H. unfold mime_ok in H.
  apply andb_true_iff in H. destruct H as [H _]. apply andb_true_iff in H. destruct H as [H _].
  apply andb_true_iff in H. destruct H as [H _].
  destruct (good_word_facts t H) as (Hh & _ & Hn & _). auto.
Qed.

Lemma nlfree_app : forall a b, nlfree a -> nlfree b -> nlfree (a ++ b).
Proof. intros a b Ha Hb. unfold nlfree in *. now rewrite forallb_app, Ha, Hb. Qed.

Lemma file_block : forall wenc is_att f, file_ok f = true ->
  let fe := file_headers wenc is_att f in
  fblock (file_hdr false (fst fe)) (cfile_fields (fst fe)).
Proof.
  intros wenc is_att f Hf. cbv zeta.
  destruct (file_ok_facts f Hf) as (Hn & Hm & _).
  destruct (name_bytes _ Hn) as (Nnl & Nhd & _). destruct (mime_bytes _ Hm) as (Mnl & Mhd).
  (* the header cache after addFiles *)
  assert (Hh : f_hdr (fst (file_headers wenc is_att f)) =
    [(h_ctype, f_mime f ++ bs "; name=" ++ bs """" ++ f_name f ++ bs """");
     (h_cte, enc_b64);
     (h_cdisp, render_cd (if is_att then lit_attachment else lit_inline) (f_name f))] ++
    (if is_att then [] else [(h_cid, bs "<" ++ f_name f ++ bs ">")])).
  { unfold file_ok in Hf. repeat (apply andb_true_iff in Hf; destruct Hf as [Hf ?]).
    destruct f as [n mime fenc desc hd prod]. cbn [f_name f_mime f_enc f_desc f_hdr f_prod] in *.
    destruct hd; [|discriminate]. destruct desc; [|discriminate]. destruct fenc; [discriminate|].
    destruct (name_ok_facts n Hn) as (Hs & Hne & _ & _).
    assert (Hw : word_encode wenc (Writer.sanitize n) = n) by (rewrite Hs; unfold word_encode; now rewrite Hne).
    assert (Hc : word_encode wenc (bs "<" ++ n ++ bs ">") = bs "<" ++ n ++ bs ">").
    { unfold word_encode. rewrite !needs_encoding_app, Hne. reflexivity. }
    change (bs "<" ++ n ++ bs ">") with (60%N :: n ++ [62%N]) in Hc.
    unfold file_headers, file_hdrs. cbn [f_name f_mime f_enc f_desc f_hdr f_prod with_hdr fst snd].
    rewrite Hw, Hs. destruct is_att; cbn -[word_encode]; rewrite ?Hc; reflexivity. }
  unfold file_hdr, cfile_fields, file_kvs, part_header_lines. rewrite Hh.
  assert (Pct : kv_plain (h_ctype, f_mime f ++ bs "; name=" ++ bs """" ++ f_name f ++ bs """")).
  { unfold kv_plain. cbn [fst snd]. repeat split; try reflexivity.
    - destruct (f_mime f); [discriminate|exact Mhd].
    - rewrite !app_assoc. now rewrite last_ok_app by discriminate.
    - repeat apply nlfree_app; try assumption; reflexivity. }
  assert (Pcd : forall disp, (disp = lit_attachment \/ disp = lit_inline) -> kv_plain (h_cdisp, render_cd disp (f_name f))).
  { intros disp Hdisp. unfold kv_plain, render_cd. cbn [fst snd]. repeat split; try reflexivity.
    - destruct Hdisp as [ -> | -> ]; reflexivity.
    - rewrite !app_assoc. now rewrite last_ok_app by discriminate.
    - destruct Hdisp as [ -> | -> ]; repeat apply nlfree_app; try assumption; reflexivity. }
  assert (Pid : kv_plain (h_cid, bs "<" ++ f_name f ++ bs ">")).
  { unfold kv_plain. cbn [fst snd]. repeat split; try reflexivity.
    - rewrite app_assoc. now rewrite last_ok_app by discriminate.
    - repeat apply nlfree_app; try assumption; reflexivity. }
  destruct is_att; cbn [app].
  - set (vct := f_mime f ++ bs "; name=" ++ bs """" ++ f_name f ++ bs """") in *.
    set (vcd := render_cd lit_attachment (f_name f)) in *.
    assert (HL : Forall kv_plain [(h_cdisp, vcd); (h_cte, enc_b64); (h_ctype, vct)]).
    { constructor; [apply (Pcd lit_attachment); now left|]. constructor; [repeat split; reflexivity|].
      constructor; [exact Pct|constructor]. }
    exact (fblock_part_lines [(h_cdisp, vcd); (h_cte, enc_b64); (h_ctype, vct)] HL).
  - set (vct := f_mime f ++ bs "; name=" ++ bs """" ++ f_name f ++ bs """") in *.
    set (vcd := render_cd lit_inline (f_name f)) in *.
    set (vid := bs "<" ++ f_name f ++ bs ">") in *.
    assert (HL : Forall kv_plain [(h_cdisp, vcd); (h_cid, vid); (h_cte, enc_b64); (h_ctype, vct)]).
    { constructor; [apply (Pcd lit_inline); now right|]. constructor; [exact Pid|].
      constructor; [repeat split; reflexivity|]. constructor; [exact Pct|constructor]. }
    exact (fblock_part_lines [(h_cdisp, vcd); (h_cid, vid); (h_cte, enc_b64); (h_ctype, vct)] HL).
Qed.

(* ---------- the top-level header block ---------- *)
Definition gkv_ok (kv : bytes * list bytes) : Prop :=
  key_ok (fst kv) = true /\ snd kv <> [] /\ good_value (join (bs ", ") (snd kv)) = true.

Lemma fblock_hlines : forall l, Forall gkv_ok l ->
  fblock (flat_map (fun kv => hline (fst kv) (snd kv)) l)
         (map (fun kv => fld (fst kv) (join (bs ", ") (snd kv))) l).
Proof.
  induction l as [|[k vs] l IH]; intros H; cbn [flat_map map]; [constructor|].
  inversion H as [|? ? (H1 & H2 & H3) Hr]; subst. cbn [fst snd] in *.
  unfold fld. apply fb_cons; [now apply ftext_hline|now apply IH].
Qed.

Lemma ua_good : good_value user_agent = true.
Proof. vm_compute. reflexivity. Qed.

Lemma top_block : forall d i rb m,
  in_feature_set m = true -> good_value d = true -> good_value i = true ->
  let zm := z_msg (resolve d i rb m) in
  fblock (top_headers zm) (ctop_fields zm).
Proof.
  intros d i rb m Hfs Hd Hi zm.
  destruct (feature_facts m Hfs) as (Hcs & (sv & Hgen & Hsv) & Hpre & (F & Hfrom & HF) &
    (tos & ccs & Haddr & Htne & Htos & Hccs) & _ & _ & _ & _ & Hbm & Hbr & Hba).
  destruct (resolve_proj d i rb m Hbm Hbr Hba) as (Zg & Zp & Zf & Za & _).
  fold zm in Zg, Zp, Zf, Za.
  unfold top_headers, ctop_fields. rewrite Zp, Hpre. cbn [preform_text sort_kv fold_right flat_map app].
  apply fblock_app.
  - unfold gen_text, gen_fields. rewrite Zg. unfold add_defaults. rewrite Hgen.
    set (L := sort_kv _).
    assert (EL : L = [(bs "Date", [d]); (bs "MIME-Version", [bs "1.0"]); (bs "Message-ID", [i]);
                      (hdr_subject, [sv]); (bs "User-Agent", [user_agent]); (bs "X-Mailer", [user_agent])]) by reflexivity.
    rewrite EL. apply fblock_hlines.
    repeat constructor; cbn [fst snd join]; try discriminate; try assumption; try reflexivity; apply ua_good.
  - unfold addr_text, addr_fields. rewrite Zf, Za, Hfrom, Haddr.
    change [fld hdr_from F] with (map (fun kv : bytes * list bytes => fld (fst kv) (join (bs ", ") (snd kv))) [(hdr_from, [F])]).
    assert (HFk : gkv_ok (hdr_from, [F])) by (repeat split; [discriminate|exact HF]).
    destruct ccs as [|c0 ccs'].
    + assert (HL : Forall gkv_ok [(hdr_from, [F]); (hdr_to, tos)]).
      { constructor; [exact HFk|]. constructor; [|constructor]. repeat split; assumption. }
      pose proof (fblock_hlines _ HL) as B. cbn [flat_map map fst snd app] in B. rewrite app_nil_r in B.
      cbn. rewrite !app_nil_r. exact B.
    + assert (HL : Forall gkv_ok [(hdr_from, [F]); (hdr_to, tos); (hdr_cc, c0 :: ccs')]).
      { constructor; [exact HFk|]. constructor; [repeat split; assumption|].
        constructor; [|constructor]. repeat split; [discriminate|apply Hccs; discriminate]. }
      pose proof (fblock_hlines _ HL) as B. cbn [flat_map map fst snd app] in B. rewrite app_nil_r in B.
      cbn. rewrite !app_nil_r. exact B.
Qed.

(* ---------- trees ---------- *)
Definition nshape (t : node) (t' : fnode) : Prop :=
  match t, t' with
  | Leaf h body, FLeaf hf body' => fblock h hf /\ body = body'
  | Multi h b kids, FMulti hf fkids => fblock h hf /\ map fnode_of_node kids = map Some fkids
  | _, _ => False
  end.

Lemma nshape_fnode : forall t t', nshape t t' -> fnode_of_node t = Some t'.
Proof.
  intros [h body|h b kids] [hf body'|hf fkids] H; cbn [nshape] in H; try contradiction.
  - destruct H as [H ->]. cbn [fnode_of_node]. now rewrite (fields_of_fblock h hf H).
  - destruct H as [H Hk]. cbn [fnode_of_node]. rewrite (fields_of_fblock h hf H), Hk, sequence_o_some. reflexivity.
Qed.

Lemma nshape_map : forall ts ts', Forall2 nshape ts ts' -> map fnode_of_node ts = map Some ts'.
Proof.
  intros ts ts' H. induction H as [|t t' ts ts' Ht _ IH]; [reflexivity|].
  cbn [map]. now rewrite (nshape_fnode t t' Ht), IH.
Qed.

Lemma nshape_prepend : forall top topf t t', fblock top topf -> nshape t t' ->
  nshape (prepend_hdr top t) (fprepend topf t').
Proof.
  intros top topf [h body|h b kids] [hf body'|hf fkids] Ht H; cbn [nshape prepend_hdr fprepend] in *; try contradiction.
  - destruct H as [H ->]. split; [now apply fblock_app|reflexivity].
  - destruct H as [H Hk]. split; [now apply fblock_app|assumption].
Qed.

Lemma nshape_nest : forall c mime b kids fkids,
  Forall2 nshape kids fkids -> (c = true -> mp_sub mime /\ is_token b = true) ->
  Forall2 nshape (nest c mime b kids) (cnest c mime b fkids).
Proof.
  intros c mime b kids fkids H Hc. destruct c; [|exact H].
  destruct (Hc eq_refl) as [Hm Hb]. cbn [nest cnest]. constructor; [|constructor].
  cbn [nshape]. split; [|now apply nshape_map].
  rewrite <- (app_nil_r (mp_hdr mime b)).
  change [fld h_ctype (mp_ctype mime b)] with ((canon h_ctype, mp_ctype mime b) :: []).
  apply fb_cons; [now apply ftext_mp_hdr|constructor].
Qed.

Lemma nshape_parts : forall folded m ps,
  Writer.m_charset m = charset_utf8 -> forallb part_ok ps = true ->
  Forall2 nshape (map (part_leaf m folded) ps) (map (cpart_leaf m) ps).
Proof.
  intros folded m ps Hm. induction ps as [|p ps IH]; intros Hp; [constructor|].
  cbn [forallb] in Hp. apply andb_true_iff in Hp. destruct Hp as [Hp Hps].
  cbn [map]. constructor; [|now apply IH].
  unfold part_leaf, cpart_leaf. cbn [nshape]. split; [now apply part_block|reflexivity].
Qed.

Lemma nshape_files : forall wenc is_att fs, forallb file_ok fs = true ->
  Forall2 nshape (map (file_leaf false) (map (file_headers wenc is_att) fs))
                 (map cfile_leaf (map (file_headers wenc is_att) fs)).
Proof.
  intros wenc is_att fs. induction fs as [|f fs IH]; intros Hf; [constructor|].
  cbn [forallb] in Hf. apply andb_true_iff in Hf. destruct Hf as [Hf Hfs].
  cbn [map]. constructor; [|now apply IH].
  unfold file_leaf, cfile_leaf. cbn [nshape]. split; [now apply (file_block wenc is_att f Hf)|reflexivity].
Qed.

Lemma Forall2_app_nshape : forall a a' b b', Forall2 nshape a a' -> Forall2 nshape b b' -> Forall2 nshape (a ++ b) (a' ++ b').
Proof. intros. now apply Forall2_app. Qed.

(* the field tree of the expected tree of a rendered message is the canonical one *)
Theorem fnode_expected : forall d i rb m,
  let z := resolve d i rb m in
  in_feature_set m = true -> good_value d = true -> good_value i = true -> boundaries_ok z = true ->
  fnode_of_node (expected_tree z) = Some (ctree z).
Proof.
  intros d i rb m z Hfs Hd Hi Hbd.
  pose proof (top_block d i rb m Hfs Hd Hi) as Htop. cbv zeta in Htop. fold z in Htop.
  destruct (feature_facts m Hfs) as (Hcs & _ & _ & _ & _ & Hpne & Hpo & Hem & Hat & Hbm & Hbr & Hba).
  destruct (resolve_proj d i rb m Hbm Hbr Hba) as (_ & _ & _ & _ & Zpa & Zcs & Ze & Zat & _).
  fold z in Zpa, Zcs, Ze, Zat.
  assert (Hzcs : Writer.m_charset (z_msg z) = charset_utf8) by now rewrite Zcs.
  unfold boundaries_ok in Hbd.
  apply andb_true_iff in Hbd. destruct Hbd as [Hbd Btm]. apply andb_true_iff in Hbd. destruct Hbd as [Bta Btr].
  assert (F2 : Forall2 nshape (expected_forest z) (cforest z)).
  { unfold expected_forest, cforest. cbv zeta. rewrite Zpa, Ze, Zat.
    apply nshape_nest.
    - apply Forall2_app_nshape; [|now apply nshape_files].
      apply nshape_nest.
      + apply Forall2_app_nshape; [|now apply nshape_files].
        apply nshape_nest; [now apply nshape_parts|].
        intros E. rewrite Zpa, E in Bta. split; [right; now right|exact Bta].
      + intros E. rewrite Ze, E in Btr. split; [right; now left|exact Btr].
    - intros E. rewrite Zat, E in Btm. split; [now left|exact Btm]. }
  unfold expected_tree, ctree.
  destruct F2 as [|t t' ts ts' Ht Hts]; [reflexivity|].
  destruct Hts; [|reflexivity].
  apply nshape_fnode. now apply nshape_prepend.
Qed.

(* ---------- the composition: parse (render m) ---------- *)
From VerifProofs Require Import WriterProofs.

Lemma feature_no_failing : forall m, in_feature_set m = true -> msg_has_failing_producer m = false.
Proof.
  intros m H. destruct (feature_facts m H) as (_ & _ & _ & _ & _ & _ & Hpo & Hem & Hat & _).
  unfold msg_has_failing_producer.
  assert (P : forall ps, forallb part_ok ps = true -> existsb has_failing_part ps = false).
  { induction ps as [|p ps IH]; intros Hp; [reflexivity|]. cbn [forallb existsb] in *.
    apply andb_true_iff in Hp. destruct Hp as [Hp Hps]. rewrite (IH Hps), orb_false_r.
    unfold part_ok in Hp. apply andb_true_iff in Hp. destruct Hp as [Hp _].
    apply andb_true_iff in Hp. destruct Hp as [_ Hp]. now apply negb_true_iff in Hp. }
  assert (Fl : forall fs, forallb file_ok fs = true -> existsb has_failing_file fs = false).
  { induction fs as [|f fs IH]; intros Hf; [reflexivity|]. cbn [forallb existsb] in *.
    apply andb_true_iff in Hf. destruct Hf as [Hf Hfs]. rewrite (IH Hfs), orb_false_r.
    unfold file_ok in Hf. apply andb_true_iff in Hf. destruct Hf as [Hf _].
    apply andb_true_iff in Hf. destruct Hf as [_ Hf]. now apply negb_true_iff in Hf. }
  now rewrite (P _ Hpo), (Fl _ Hem), (Fl _ Hat).
Qed.

Lemma feature_no_bad_boundary : forall d i rb m, in_feature_set m = true -> no_bad_boundary (resolve d i rb m).
Proof.
  intros d i rb m H. destruct (feature_facts m H) as (_ & _ & _ & _ & _ & _ & _ & _ & _ & Hbm & Hbr & Hba).
  unfold no_bad_boundary, resolve. rewrite Hbm, Hbr, Hba.
  destruct (has_mixed m), (has_related m), (has_alt m); cbn; auto.
Qed.

Section Compose.
Context (pa pl : bytes -> ares) (pd : bytes -> dres).

Theorem parse_render : forall d i rb m,
  let z := resolve d i rb m in
  in_feature_set m = true -> good_value d = true -> good_value i = true ->
  oracles_ok pa pl pd d m -> boundaries_ok z = true -> fresh_expected z = true ->
  exists st, eml_parse pa pl pd (r_out (write_to d i rb m unlimited)) = Ok st /\
             project_parsed st = project_built d m /\ parsed_as d i m st.
Proof.
  intros d i rb m z Hfs Hd Hi Ho Hb Hfr.
  assert (Hn : 1 <= length (Writer.m_parts m)).
  { destruct (feature_facts m Hfs) as (_ & _ & _ & _ & _ & Hpne & _). destruct (Writer.m_parts m); [congruence|cbn; lia]. }
  unfold eml_parse.
  rewrite (leaves_thm d i rb m Hn (feature_no_failing m Hfs) (feature_no_bad_boundary d i rb m Hfs) Hfr).
  unfold eml_parse_tree. pose proof (fnode_expected d i rb m Hfs Hd Hi Hb) as E. cbv zeta in E. fold z in E.
  fold z. rewrite E. now apply parse_ctree.
Qed.

End Compose.
