(* C10: the hypotheses of C10_parse_render are satisfiable on a non-trivial message
   (two alternatives + embed + attachment), and the statement is not vacuous on it. *)
From Coq Require Import String.
From Verif Require Import Bytes Base64 LineBreaker QP HeaderFold WordEnc Writer MimeTree MimeRead Render.
From Verif Require Import Eml EmlRender EmlFront EmlRoundtrip.
From VerifGen Require Import Gen.
From VerifProofs Require Import RenderProofs MimeReadProofs C01Proofs EmlStructureProofs.

Definition ex_from : bytes := bs """Alice Example"" <alice@example.com>".
Definition ex_to : list bytes := [bs "<bob@example.com>"; bs """Carol"" <carol@example.com>"].
Definition ex_cc : list bytes := [bs "<dave@example.com>"].

Definition ex10 : Writer.msg :=
  mkmsg charset_utf8 113%N
        [(hdr_subject, [word_encode 113 (bs "Quarterly report: caf" ++ [195; 169]%N ++ bs " and more")])] []
        (Some ex_from) [(hdr_to, ex_to); (hdr_cc, ex_cc)]
        [mkpart type_text_plain [] EncQP [] (mkprod [bs "Hello = world,"; crlf; bs "a line with caf" ++ [195; 169]%N; crlf] false);
         mkpart type_text_html charset_utf8 EncB64 [] (mkprod [bs "<p>Hello <b>world</b></p>"] false)]
        [mkfile (bs "logo.png") (bs "image/png") None [] [] (mkprod [[137; 80; 78; 71; 13; 10; 26; 10]%N] false)]
        [mkfile (bs "notes a=b.txt") (bs "text/plain") None [] [] (mkprod [bs "line one"; crlf] false)]
        [] [] [].
Definition ex10_date : bytes := bs "Wed, 30 Sep 2026 12:00:00 +0000".
Definition ex10_msgid : bytes := bs "<1.2.3@example.com>".
Definition ex10_rb : list bytes := [bs "b0b0b0b0b0b0b0b0b0b0"; bs "c1c1c1c1c1c1c1c1c1c1"; bs "d2d2d2d2d2d2d2d2d2d2"].
Definition ex10_z : rmsg := resolve ex10_date ex10_msgid ex10_rb ex10.

(* oracles that satisfy H-addr / H-date on this message (any function with these values does) *)
Definition ex_pa (v : bytes) : ares := AOk [v].
Definition ex_pl (v : bytes) : ares :=
  if bytes_eqb v (join (bs ", ") ex_to) then AOk ex_to else if bytes_eqb v (join (bs ", ") ex_cc) then AOk ex_cc else AErr.
Definition ex_pd (v : bytes) : dres := DOk v.

Lemma ex10_in_feature_set : in_feature_set ex10 = true.
Proof. vm_compute. reflexivity. Qed.

Lemma ex10_hypotheses :
  in_feature_set ex10 = true /\ good_value ex10_date = true /\ good_value ex10_msgid = true /\
  oracles_ok ex_pa ex_pl ex_pd ex10_date ex10 /\ boundaries_ok ex10_z = true /\ fresh_expected ex10_z = true.
Proof.
  repeat split; try (vm_compute; reflexivity).
  intros k l [E|[E|[]]]; inversion E; subst; vm_compute; reflexivity.
Qed.

(* the parse of the rendered bytes, computed: three nesting levels, the observables of the message *)
Lemma ex10_direct :
  exists st, eml_parse ex_pa ex_pl ex_pd (r_out (write_to ex10_date ex10_msgid ex10_rb ex10 unlimited)) = Ok st /\
             project_parsed st = project_built ex10_date ex10 /\
             length (pj_parts (project_parsed st)) = 2 /\ length (pj_atts (project_parsed st)) = 1 /\
             length (pj_embs (project_parsed st)) = 1.
Proof. eexists. split; [vm_compute; reflexivity|]. repeat split; vm_compute; reflexivity. Qed.

(* 7bit (known finding 7bit-requoted), end to end on the rendered bytes: the body "a=b" of a 7bit
   single-part message comes back as "a=3Db" *)
Definition ex7 : Writer.msg :=
  mkmsg charset_utf8 113%N [(hdr_subject, [bs "seven"])] [] (Some ex_from) [(hdr_to, ex_to)]
        [mkpart type_text_plain [] (EncOther enc_7bit) [] (mkprod [bs "a=b"] false)] [] [] [] [] [].

Lemma ex7_refuted :
  exists st, eml_parse ex_pa ex_pl ex_pd (r_out (write_to ex10_date ex10_msgid ex10_rb ex7 unlimited)) = Ok st /\
             pj_parts (project_parsed st) = [(type_text_plain, charset_utf8, bs "a=3Db")] /\
             pj_parts (project_built ex10_date ex7) = [(type_text_plain, charset_utf8, bs "a=b")].
Proof. eexists. split; [vm_compute; reflexivity|]. split; vm_compute; reflexivity. Qed.

(* ---------- second half: the re-render of the parsed message ---------- *)
From Verif Require Import EmlRerender.
From VerifProofs Require Import EmlRerenderProofs.

Definition ex_mime_of (n : bytes) : bytes := if bytes_eqb n (bs "logo.png") then bs "image/png" else bs "text/plain".
Definition ex10_rb2 : list bytes := [bs "e3e3e3e3e3e3e3e3e3e3"; bs "f4f4f4f4f4f4f4f4f4f4"; bs "a5a5a5a5a5a5a5a5a5a5"].
Definition ex10_m2 : Writer.msg := reparsed ex_mime_of ex10_date ex10_msgid ex10.
Definition ex10_z2 : rmsg := resolve [] [] ex10_rb2 ex10_m2.

Lemma ex10_rerender_hypotheses :
  (forall f, In f (m_embeds ex10 ++ m_attach ex10) -> f_mime f = ex_mime_of (f_name f)) /\
  fresh_expected ex10_z2 = true /\ boundaries_ok ex10_z2 = true.
Proof.
  split; [|split; vm_compute; reflexivity].
  intros f [E|[E|[]]]; subst f; reflexivity.
Qed.

(* computed directly: parse the first rendering, re-render, read with the independent reader *)
Lemma ex10_rerender_direct :
  exists st t2, eml_parse ex_pa ex_pl ex_pd (r_out (write_to ex10_date ex10_msgid ex10_rb ex10 unlimited)) = Ok st /\
    read_tree (rerender ex_mime_of ex10_rb2 st) = Some t2 /\
    tree_content t2 = tree_content (expected_tree ex10_z) /\ length (tree_content t2) = 4.
Proof. eexists. eexists. split; [vm_compute; reflexivity|]. split; [vm_compute; reflexivity|]. split; vm_compute; reflexivity. Qed.

(* 7bit (known finding 7bit-requoted): every trip quotes once more *)
Lemma ex7_rerender_refuted :
  exists st t2, eml_parse ex_pa ex_pl ex_pd (r_out (write_to ex10_date ex10_msgid ex10_rb ex7 unlimited)) = Ok st /\
    read_tree (rerender ex_mime_of ex10_rb2 st) = Some t2 /\
    map (option_map lc_content) (tree_content t2) = [Some (bs "a=3D3Db")].
Proof. eexists. eexists. split; [vm_compute; reflexivity|]. split; vm_compute; reflexivity. Qed.

(* ---------- display names that net/mail quotes: comma, semicolon, colon, brackets, dots, at-sign ---------- *)
Definition exq_to : list bytes := [bs """Doe, John"" <j@x.test>"; bs """Team: ops; <x> (y) J. R. @"" <t@x.test>"].
Definition exq_cc : list bytes := [bs """Smith, A."" <a@x.test>"].
Definition exq : Writer.msg :=
  mkmsg charset_utf8 113%N [(hdr_subject, [bs "names"])] [] (Some (bs """Roe, Jane"" <jane@x.test>"))
        [(hdr_to, exq_to); (hdr_cc, exq_cc)]
        [mkpart type_text_plain [] EncQP [] (mkprod [bs "body"] false)] [] [] [] [] [].
Definition exq_pl (v : bytes) : ares :=
  if bytes_eqb v (join (bs ", ") exq_to) then AOk exq_to else if bytes_eqb v (join (bs ", ") exq_cc) then AOk exq_cc else AErr.

(* such address lists are inside the feature set (the quoted phrase is a sequence of printable words) … *)
Lemma exq_in_feature_set : in_feature_set exq = true /\ oracles_ok ex_pa exq_pl ex_pd ex10_date exq.
Proof.
  split; [vm_compute; reflexivity|]. repeat split; try (vm_compute; reflexivity).
  intros k l [E|[E|[]]]; inversion E; subst; vm_compute; reflexivity.
Qed.

(* … and the parsed To / Cc are the LISTS net/mail parsed (a re-split of the raw value at the commas
   would cut inside "Doe, John") *)
Lemma exq_direct :
  exists st, eml_parse ex_pa exq_pl ex_pd (r_out (write_to ex10_date ex10_msgid ex10_rb exq unlimited)) = Ok st /\
             pj_to (project_parsed st) = exq_to /\ pj_cc (project_parsed st) = exq_cc /\
             project_parsed st = project_built ex10_date exq.
Proof. eexists. split; [vm_compute; reflexivity|]. repeat split; vm_compute; reflexivity. Qed.
