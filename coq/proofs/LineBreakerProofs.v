(* Proofs about the base64 line breaker: every chunking yields wrap (concat chunks). *)
From Verif Require Import Bytes Base64 LineBreaker.
From VerifGen Require Import Gen.
From Coq Require Import Lia ZifyBool ZifyNat ZifyN.
Open Scope nat_scope.

(* Obligations on the source-derived definitions (break when the source changes) *)
Lemma gen_lb_fits_spec : forall u l : nat,
  Gen.lb_fits (N.of_nat u) (N.of_nat l) Gen.max_body_length = (u + l <? max_body).
Proof.
  intros u l. unfold Gen.lb_fits, max_body.
  destruct (Nat.ltb_spec (u + l) (N.to_nat Gen.max_body_length));
  destruct (N.ltb_spec (N.of_nat u + N.of_nat l) Gen.max_body_length); try reflexivity; lia.
Qed.

Lemma gen_max_body_pos : 1 <= max_body.
Proof. unfold max_body. vm_compute. lia. Qed.

Lemma gen_max_body_le_76 : max_body <= 76.
Proof. unfold max_body. vm_compute. lia. Qed.

Section Wrap.
Variable max : nat.
Hypothesis Hmax : 1 <= max.

Lemma wrap_nowrap : forall d col rest,
  col + length d < max ->
  wrap_from max col (d ++ rest) = d ++ wrap_from max (col + length d) rest.
Proof.
  induction d as [|b d IH]; intros col rest H; cbn [app length wrap_from] in *.
  - now rewrite Nat.add_0_r.
  - destruct (Nat.eqb_spec (S col) max) as [E|E]; [lia|].
    rewrite IH by lia. replace (col + S (length d)) with (S col + length d) by lia. reflexivity.
Qed.

Lemma wrap_fill : forall d col rest,
  1 <= length d -> col + length d = max ->
  wrap_from max col (d ++ rest) = d ++ crlf ++ wrap_from max 0 rest.
Proof.
  induction d as [|b d IH]; intros col rest H1 H; cbn [app length wrap_from] in *; [lia|].
  destruct (Nat.eqb_spec (S col) max) as [E|E].
  - assert (length d = 0) as Hd by lia. destruct d; [|discriminate]. reflexivity.
  - destruct d as [|b' d']; [cbn in H; lia|].
    rewrite (IH (S col) rest); [reflexivity | cbn; lia | cbn in *; lia].
Qed.
End Wrap.

Lemma lb_write_step : forall fuel line data line' out,
  length line < max_body ->
  lb_write fuel line data = Some (line', out) ->
  length line' < max_body /\
  forall rest, line ++ wrap_from max_body (length line) (data ++ rest)
             = out ++ line' ++ wrap_from max_body (length line') rest.
Proof.
  pose proof gen_max_body_pos as Hpos.
  induction fuel as [|f IH]; intros line data line' out Hl H; cbn [lb_write] in H; [discriminate|].
  rewrite gen_lb_fits_spec in H.
  destruct (Nat.ltb_spec (length line + length data) max_body) as [Hfit|Hnofit].
  - inversion H; subst; clear H. rewrite app_length. split; [lia|].
    intros rest. rewrite wrap_nowrap by lia. now rewrite <- app_assoc.
  - set (excess := max_body - length line) in *.
    destruct (lb_write f [] (skipn excess data)) as [[l2 o2]|] eqn:E; [|discriminate].
    inversion H; subst; clear H.
    apply IH in E; [|cbn; lia]. destruct E as [Hl2 E]. split; [exact Hl2|].
    intros rest.
    rewrite <- (firstn_skipn excess data) at 1. rewrite <- app_assoc.
    rewrite (wrap_fill max_body Hpos).
    + specialize (E rest). cbn [app length] in E. rewrite E.
      now rewrite <- !app_assoc.
    + rewrite firstn_length. lia.
    + rewrite firstn_length. lia.
Qed.

Lemma lb_write_fuel : forall fuel line data,
  length line < max_body -> length data < fuel ->
  lb_write fuel line data <> None.
Proof.
  induction fuel as [|f IH]; intros line data Hl Hf; [lia|]. cbn [lb_write].
  rewrite gen_lb_fits_spec.
  destruct (Nat.ltb_spec (length line + length data) max_body) as [Hfit|Hnofit]; [discriminate|].
  set (excess := max_body - length line).
  specialize (IH [] (skipn excess data)).
  destruct (lb_write f [] (skipn excess data)) as [[l2 o2]|]; [discriminate|].
  exfalso. apply IH; [cbn; pose proof gen_max_body_pos; lia| |reflexivity].
  rewrite skipn_length. subst excess. lia.
Qed.

Lemma lb_close_spec : forall line,
  line ++ wrap_from max_body (length line) [] = lb_close line.
Proof. intros [|b l]; reflexivity. Qed.

Lemma lb_run_from_spec : forall chunks line,
  length line < max_body ->
  lb_run_from line chunks = Some (line ++ wrap_from max_body (length line) (concat chunks)).
Proof.
  induction chunks as [|c cs IH]; intros line Hl; cbn [lb_run_from concat].
  - now rewrite lb_close_spec.
  - unfold lb_write_top.
    destruct (lb_write (S (length c)) line c) as [[l2 o2]|] eqn:E.
    + apply lb_write_step in E; [|exact Hl]. destruct E as [Hl2 E].
      rewrite IH by exact Hl2. now rewrite E.
    + exfalso. eapply lb_write_fuel; [exact Hl| |exact E]. lia.
Qed.

Theorem lb_chunk_independent : forall chunks,
  lb_run chunks = Some (wrap (concat chunks)).
Proof.
  intros chunks. unfold lb_run, wrap.
  rewrite lb_run_from_spec; [reflexivity|]. cbn. pose proof gen_max_body_pos. lia.
Qed.

(* Line discipline of wrapped text *)
Lemma chk_wrap_from : forall s col,
  forallb no_crlf_byte s = true -> col < max_body ->
  chk_lines max_body col false (wrap_from max_body col s ++ []) = true.
Proof.
  pose proof gen_max_body_pos as Hpos.
  induction s as [|b t IH]; intros col Hs Hc; cbn [wrap_from].
  - destruct (Nat.eqb_spec col 0) as [E|E]; subst; cbn; reflexivity.
  - cbn [forallb] in Hs. apply andb_true_iff in Hs. destruct Hs as [Hb Ht].
    unfold no_crlf_byte in Hb. apply andb_true_iff in Hb. destruct Hb as [Hb1 Hb2].
    apply negb_true_iff in Hb1, Hb2.
    destruct (Nat.eqb_spec (S col) max_body) as [E|E].
    + cbn [app chk_lines crlf]. rewrite Hb1, Hb2. cbn [chk_lines N.eqb].
      replace (Nat.leb (S col) max_body) with true by (symmetry; apply Nat.leb_le; lia).
      cbn. apply IH; [exact Ht | lia].
    + cbn [app chk_lines]. rewrite Hb1, Hb2.
      replace (Nat.leb (S col) max_body) with true by (symmetry; apply Nat.leb_le; lia).
      cbn [andb]. apply IH; [exact Ht | lia].
Qed.

Lemma wrap_lines_ok : forall s,
  forallb no_crlf_byte s = true -> lines_ok max_body (wrap s) = true.
Proof.
  intros s Hs. unfold lines_ok, wrap. rewrite <- (app_nil_r (wrap_from _ _ _)).
  apply chk_wrap_from; [exact Hs|]. pose proof gen_max_body_pos. lia.
Qed.

(* the base64 alphabet contains neither CR nor LF *)
Lemma b64char_no_crlf : forall n, no_crlf_byte (b64char n) = true.
Proof.
  intros n. unfold no_crlf_byte, b64char.
  destruct (N.ltb_spec n 26); [|destruct (N.ltb_spec n 52); [|destruct (N.ltb_spec n 62);
    [|destruct (N.eqb_spec n 62)]]];
  apply andb_true_iff; split; apply negb_true_iff; apply N.eqb_neq; lia.
Qed.

Lemma b64enc_no_crlf : forall s, forallb no_crlf_byte (b64enc s) = true.
Proof.
  fix IH 1. intros [|a [|b [|c t]]]; cbn [b64enc forallb]; rewrite ?b64char_no_crlf; try reflexivity.
  rewrite IH. reflexivity.
Qed.

Theorem b64_body_lines : forall content out,
  b64_body content = Some out -> lines_ok max_body out = true.
Proof.
  intros content out H. unfold b64_body in H. rewrite lb_chunk_independent in H.
  inversion H; subst. cbn [concat]. rewrite app_nil_r.
  apply wrap_lines_ok, b64enc_no_crlf.
Qed.

(* whatever pieces the encoder hands to the line breaker *)
Theorem b64_any_chunking_lines : forall pieces out,
  forallb no_crlf_byte (concat pieces) = true ->
  lb_run pieces = Some out -> lines_ok max_body out = true /\ out = wrap (concat pieces).
Proof.
  intros pieces out Hp H. rewrite lb_chunk_independent in H. inversion H; subst.
  split; [apply wrap_lines_ok; exact Hp | reflexivity].
Qed.
