(* C10, second half — the re-render of the parsed message, read by the independent reader, shows the
   content of the first rendering. *)
From Coq Require Import String.
From Verif Require Import Bytes Base64 LineBreaker QP HeaderFold WordEnc Writer MimeTree MimeRead Render.
From Verif Require Import Eml EmlRender EmlFront EmlRoundtrip EmlRerender.
From VerifGen Require Import Gen.
From VerifProofs Require Import CodecProofs WordEncProofs HeaderSafeProofs HeaderFoldProofs WriterProofs RenderProofs MimeReadProofs C01Proofs.
From VerifProofs Require Import EmlProofs EmlRenderProofs EmlCodecProofs EmlFrontProofs EmlHeaderProofs EmlRoundtripProofs EmlRoundtripMain EmlStructureProofs.
From Coq Require Import Lia.

(* ---------- canonical text is a fixed point ---------- *)
Lemma canon_props_n : forall n s, length s <= n -> no_bare_cr s = true ->
  crlf_only (canon_crlf s) = true /\ (wf_bytes s = true -> wf_bytes (canon_crlf s) = true).
Proof.
  induction n as [|n IH]; intros s Hl H.
  - destruct s; [split; reflexivity|cbn in Hl; lia].
  - destruct s as [|b t]; [split; reflexivity|].
    cbn [no_bare_cr] in H. apply andb_true_iff in H. destruct H as [Hb Ht].
    cbn [canon_crlf]. destruct (N.eqb_spec b 10) as [->|H10].
    + destruct (IH t) as [I1 I2]; [cbn in Hl; lia|assumption|]. split.
      * cbn. exact I1.
      * intros W. apply wf_cons in W. destruct W as [_ W]. cbn. now apply I2.
    + destruct (N.eqb_spec b 13) as [->|H13].
      * rewrite Hb. cbn [andb]. destruct (IH t) as [I1 I2]; [cbn in Hl; lia|assumption|]. split; [exact I1|].
        intros W. apply wf_cons in W. destruct W as [_ W]. now apply I2.
      * cbn [andb]. destruct (IH t) as [I1 I2]; [cbn in Hl; lia|assumption|]. split.
        -- cbn [crlf_only]. apply N.eqb_neq in H13, H10. rewrite H13, H10. exact I1.
        -- intros W. apply wf_cons in W. destruct W as [Wb W]. unfold wf_bytes in *. cbn [forallb].
           rewrite (I2 W), andb_true_r. unfold wf_byte. now apply N.ltb_lt.
Qed.

Lemma crlf_only_nbc_n : forall n s, length s <= n -> crlf_only s = true -> no_bare_cr s = true.
Proof.
  induction n as [|n IH]; intros s Hl H.
  - destruct s; [reflexivity|cbn in Hl; lia].
  - destruct s as [|b t]; [reflexivity|]. cbn [crlf_only] in H. cbn [no_bare_cr].
    destruct (N.eqb_spec b 13) as [->|H13].
    + apply andb_true_iff in H. destruct H as [H1 H2]. rewrite H1. cbn [andb].
      destruct t as [|c t']; [discriminate|]. cbn [no_bare_cr].
      cbn [next_is_lf] in H1. apply N.eqb_eq in H1. subst c. change (10 =? 13)%N with false. cbn [andb].
      apply IH; [cbn in Hl; lia|exact H2].
    + apply andb_true_iff in H. destruct H as [_ H2]. cbn [andb]. apply IH; [cbn in Hl; lia|exact H2].
Qed.

Lemma expected_idem : forall e c,
  (e = EncQP -> no_bare_cr c = true) ->
  EmlRoundtrip.expected_content e (EmlRoundtrip.expected_content e c) = EmlRoundtrip.expected_content e c.
Proof.
  intros e c H. destruct e; try reflexivity. cbn [EmlRoundtrip.expected_content].
  apply canon_crlf_id. apply (canon_props_n (length c) c (le_n _) (H eq_refl)).
Qed.

(* decoding what the writer puts on the wire, by the transfer-encoding label in the header *)
Lemma decode_cte_enc : forall e body, (e = EncQP \/ e = EncB64 \/ e = Enc8bit) ->
  decode_cte (enc_name e) body = eml_decode_body e body.
Proof. intros e body [ -> | [ -> | -> ] ]; reflexivity. Qed.

(* the body of a part of the reparsed message decodes to what the original part decodes to *)
Lemma part2_decodes : forall p, part_ok p = true ->
  decode_cte (enc_name (Writer.p_enc p)) (encode_body (Writer.p_enc p) (p_prod (part2 p)))
  = decode_cte (enc_name (Writer.p_enc p)) (encode_body (Writer.p_enc p) (p_prod p)) /\
  decode_cte (enc_name (Writer.p_enc p)) (encode_body (Writer.p_enc p) (p_prod p))
  = Some (EmlRoundtrip.expected_content (Writer.p_enc p) (EmlRoundtrip.content_of (p_prod p))).
Proof.
  intros p Hp.
  destruct (part_ok_facts (mkmsg charset_utf8 0%N [] [] None [] [] [] [] [] [] []) p eq_refl Hp) as (_ & _ & _ & Hwf & Henc).
  set (e := Writer.p_enc p) in *. set (c := EmlRoundtrip.content_of (p_prod p)) in *.
  assert (He : e = EncQP \/ e = EncB64 \/ e = Enc8bit) by (destruct e; auto; contradiction).
  assert (Hq : e = EncQP -> no_bare_cr c = true) by (intros E; rewrite E in Henc; exact Henc).
  assert (D1 : decode_cte (enc_name e) (encode_body e (p_prod p)) = Some (EmlRoundtrip.expected_content e c)).
  { rewrite decode_cte_enc by assumption. now apply body_roundtrip. }
  split; [|exact D1]. rewrite D1. rewrite decode_cte_enc by assumption.
  cbn [part2 p_prod]. fold e. fold c.
  set (p2 := mkprod [EmlRoundtrip.expected_content e c] false).
  assert (C2 : EmlRoundtrip.content_of p2 = EmlRoundtrip.expected_content e c) by (unfold p2, EmlRoundtrip.content_of; cbn; now rewrite app_nil_r).
  rewrite (body_roundtrip e p2 He).
  - rewrite C2. f_equal. now apply expected_idem.
  - rewrite C2. destruct e; try exact Hwf. cbn [EmlRoundtrip.expected_content].
    apply (canon_props_n (length c) c (le_n _) (Hq eq_refl)). exact Hwf.
  - intros E. rewrite C2. subst e. rewrite E. cbn [EmlRoundtrip.expected_content].
    apply (crlf_only_nbc_n (length (canon_crlf c))); [lia|]. rewrite E in Hq.
    apply (canon_props_n (length c) c (le_n _) (Hq eq_refl)).
Qed.

Lemma file2_decodes : forall mime_of is_att f, file_ok f = true ->
  decode_cte enc_b64 (encode_body EncB64 (f_prod (file2 mime_of is_att f)))
  = decode_cte enc_b64 (encode_body EncB64 (f_prod f)) /\
  decode_cte enc_b64 (encode_body EncB64 (f_prod f)) = Some (EmlRoundtrip.content_of (f_prod f)).
Proof.
  intros mime_of is_att f Hf. destruct (file_ok_facts f Hf) as (_ & _ & Hw).
  assert (D1 : decode_cte enc_b64 (encode_body EncB64 (f_prod f)) = Some (EmlRoundtrip.content_of (f_prod f)))
    by exact (body_b64 (f_prod f) Hw).
  split; [|exact D1]. rewrite D1. cbn [file2 f_prod].
  set (p2 := mkprod [EmlRoundtrip.content_of (f_prod f)] false).
  assert (C2 : EmlRoundtrip.content_of p2 = EmlRoundtrip.content_of (f_prod f)) by (unfold p2, EmlRoundtrip.content_of at 1; cbn; now rewrite app_nil_r).
  rewrite <- C2. apply (body_b64 p2). now rewrite C2.
Qed.

(* ---------- A: the Writer.msg the parsed Msg denotes is [reparsed] ---------- *)
Lemma good_value_not_encoded : forall w v, good_value v = true -> word_encode w v = v.
Proof.
  intros w v H. unfold word_encode. now rewrite (safe_not_needs_encoding v (good_value_safe v H)).
Qed.

Section A.
Context (mime_of : bytes -> bytes).

Lemma msg_of_parsed_reparsed : forall d i m st,
  in_feature_set m = true -> good_value d = true -> good_value i = true ->
  parsed_as d i m st -> msg_of_parsed mime_of st = reparsed mime_of d i m.
Proof.
  intros d i m st Hfs Hd Hi (Hcs & Hen & Hp & He & Ha & (sv & Hsv & Hg) & Had).
  destruct (feature_facts m Hfs) as (_ & (sv' & Hgen & Hgsv) & _ & (F & Hfrom & _) & _ & _ & Hpo & _).
  assert (sv = sv') by (unfold gen_value in Hsv; rewrite Hgen in Hsv; now inversion Hsv). subst sv'.
  unfold msg_of_parsed, reparsed. rewrite Hcs, Hp, He, Ha, Hg, Had, Hsv.
  assert (Hw : wenc_of st = w_of m) by (unfold wenc_of, w_of; now rewrite Hen).
  rewrite Hw. cbn [a_from a_to a_cc].
  f_equal.
  - unfold parsed_gen. cbn [map fst snd].
    rewrite !good_value_not_encoded; try assumption; try reflexivity; apply ua_good.
  - rewrite Hfrom. reflexivity.
  - rewrite map_map. apply map_ext_in. intros p Hin.
    rewrite forallb_forall in Hpo. specialize (Hpo p Hin).
    destruct (part_ok_facts (mkmsg charset_utf8 0%N [] [] None [] [] [] [] [] [] []) p eq_refl Hpo) as (_ & _ & _ & _ & Henc).
    unfold part_of_obs, part_obs, part2. cbn [p_ct p_cs Eml.p_enc p_content].
    destruct (Writer.p_enc p); try contradiction; reflexivity.
  - rewrite map_map. apply map_ext. intros f. unfold file_of_obs, file_obs, file2. cbn [fo_name fo_cid fo_bytes]. reflexivity.
  - rewrite map_map. apply map_ext. intros f. reflexivity.
Qed.

End A.

(* ---------- B: the header texts of the re-render are those of the first render ---------- *)
Section B.
Context (mime_of : bytes -> bytes).

Lemma reparsed_proj : forall d i m d2 i2 rb2,
  let m2 := reparsed mime_of d i m in let z2 := resolve d2 i2 rb2 m2 in
  Writer.m_parts (z_msg z2) = map part2 (Writer.m_parts m) /\
  z_embeds z2 = map (file_headers (w_of m) false) (map (file2 mime_of false) (m_embeds m)) /\
  z_attach z2 = map (file_headers (w_of m) true) (map (file2 mime_of true) (m_attach m)) /\
  Writer.m_charset (z_msg z2) = charset_utf8 /\ m_wenc (z_msg z2) = w_of m.
Proof.
  intros d i m d2 i2 rb2 m2 z2.
  destruct (resolve_proj d2 i2 rb2 m2 eq_refl eq_refl eq_refl) as (_ & _ & _ & _ & Zpa & Zcs & Ze & Zat & _).
  fold z2 in Zpa, Zcs, Ze, Zat. repeat split; try assumption.
  unfold z2, resolve. destruct (has_mixed m2), (has_related m2), (has_alt m2); reflexivity.
Qed.

Lemma top_headers_same : forall d i rb m d2 i2 rb2,
  in_feature_set m = true ->
  top_headers (z_msg (resolve d2 i2 rb2 (reparsed mime_of d i m))) = top_headers (z_msg (resolve d i rb m)).
Proof.
  intros d i rb m d2 i2 rb2 Hfs.
  destruct (feature_facts m Hfs) as (_ & (sv & Hgen & _) & Hpre & (F & Hfrom & _) &
    (tos & ccs & Haddr & Htne & _ & _) & _ & _ & _ & _ & Hbm & Hbr & Hba).
  destruct (resolve_proj d i rb m Hbm Hbr Hba) as (Zg & Zp & Zf & Za & _).
  destruct (resolve_proj d2 i2 rb2 (reparsed mime_of d i m) eq_refl eq_refl eq_refl) as (Yg & Yp & Yf & Ya & _).
  unfold top_headers, gen_text, addr_text. rewrite Zg, Zp, Zf, Za, Yg, Yp, Yf, Ya.
  unfold add_defaults. cbn [reparsed Writer.m_gen m_preform m_from m_addr]. unfold gen_value, addr_list.
  rewrite Hgen, Hpre, Haddr, Hfrom.
  destruct tos as [|t0 tos']; [congruence|]. destruct ccs; reflexivity.
Qed.

Lemma part2_hdr_same : forall folded w w' p, part_ok p = true ->
  part_hdr folded w charset_utf8 (part2 p) = part_hdr folded w' charset_utf8 p.
Proof.
  intros folded w w' p Hp.
  destruct (part_ok_facts (mkmsg charset_utf8 0%N [] [] None [] [] [] [] [] [] []) p eq_refl Hp) as (_ & Hcty & Hcs & _).
  cbn [Writer.m_charset] in Hcty, Hcs.
  assert (Hd : p_desc p = []).
  { unfold part_ok in Hp. repeat (apply andb_true_iff in Hp; destruct Hp as [Hp ?]). destruct (p_desc p); [reflexivity|discriminate]. }
  unfold part_hdr, part_kvs. rewrite Hd, Hcty. cbn [part2 p_desc Writer.p_enc]. reflexivity.
Qed.
End B.

Section B2.
Context (mime_of : bytes -> bytes).

Lemma file2_hdr_same : forall w w' is_att f, file_ok f = true -> f_mime f = mime_of (f_name f) ->
  file_hdr false (fst (file_headers w is_att (file2 mime_of is_att f))) = file_hdr false (fst (file_headers w' is_att f)) /\
  snd (file_headers w is_att (file2 mime_of is_att f)) = EncB64 /\ snd (file_headers w' is_att f) = EncB64.
Proof.
  intros w w' is_att f Hf Hmime.
  destruct (file_ok_facts f Hf) as (Hn & _ & _).
  destruct (file_headers_fresh w' is_att f Hf) as (_ & He1 & _ & _).
  destruct (name_ok_facts (f_name f) Hn) as (Hs & Hne & _ & _).
  assert (Hw : forall e, word_encode e (Writer.sanitize (f_name f)) = f_name f) by (intros e; rewrite Hs; unfold word_encode; now rewrite Hne).
  assert (Hc : forall e, word_encode e (bs "<" ++ f_name f ++ bs ">") = bs "<" ++ f_name f ++ bs ">").
  { intros e. unfold word_encode. rewrite !needs_encoding_app, Hne. reflexivity. }
  assert (Hc' := Hc). change (bs "<" ++ f_name f ++ bs ">") with (60%N :: f_name f ++ [62%N]) in Hc'.
  (* the original *)
  assert (H1 : f_hdr (fst (file_headers w' is_att f)) =
    [(h_ctype, f_mime f ++ bs "; name=" ++ bs """" ++ f_name f ++ bs """"); (h_cte, enc_b64);
     (h_cdisp, render_cd (if is_att then lit_attachment else lit_inline) (f_name f))] ++
    (if is_att then [] else [(h_cid, bs "<" ++ f_name f ++ bs ">")])).
  { unfold file_ok in Hf. repeat (apply andb_true_iff in Hf; destruct Hf as [Hf ?]).
    destruct f as [n mime fenc desc hd prod]. cbn [f_name f_mime f_enc f_desc f_hdr f_prod] in *.
    destruct hd; [|discriminate]. destruct desc; [|discriminate]. destruct fenc; [discriminate|].
    unfold file_headers, file_hdrs. cbn [f_name f_mime f_enc f_desc f_hdr f_prod with_hdr fst snd].
    rewrite Hw, Hs. destruct is_att; cbn -[word_encode]; rewrite ?Hc'; reflexivity. }
  (* the reparsed one *)
  assert (H2 : f_hdr (fst (file_headers w is_att (file2 mime_of is_att f))) =
    (if is_att then [] else [(h_cid, bs "<" ++ f_name f ++ bs ">")]) ++
    [(h_ctype, f_mime f ++ bs "; name=" ++ bs """" ++ f_name f ++ bs """"); (h_cte, enc_b64);
     (h_cdisp, render_cd (if is_att then lit_attachment else lit_inline) (f_name f))] /\
    snd (file_headers w is_att (file2 mime_of is_att f)) = EncB64).
  { unfold file_headers, file_hdrs, file2. cbn [f_name f_mime f_enc f_desc f_hdr f_prod with_hdr fst snd].
    rewrite Hw, Hs, <- Hmime. destruct is_att; cbn -[word_encode]; rewrite ?Hc'; split; reflexivity. }
  destruct H2 as [H2 He2].
  split; [|split; assumption].
  unfold file_hdr, file_kvs, part_header_lines. rewrite H1, H2. destruct is_att; reflexivity.
Qed.

End B2.

(* ---------- C: the leaves of the two trees ---------- *)
Definition folded_of (z : rmsg) : bool :=
  Nat.eqb (length (Writer.m_parts (z_msg z))) 1 && Nat.eqb (length (z_embeds z)) 0 && Nat.eqb (length (z_attach z)) 0.

Definition body_leaves (z : rmsg) : list (bytes * bytes) :=
  let m := z_msg z in
  map (fun p => (part_hdr (folded_of z) (m_wenc m) (Writer.m_charset m) p, encode_body (Writer.p_enc p) (p_prod p))) (Writer.m_parts m) ++
  map (fun fe => (file_hdr false (fst fe), encode_body (snd fe) (f_prod (fst fe)))) (z_embeds z) ++
  map (fun fe => (file_hdr false (fst fe), encode_body (snd fe) (f_prod (fst fe)))) (z_attach z).

Definition tleaves (z : rmsg) : list (bytes * bytes) :=
  if folded_of z then map (fun hb => (top_headers (z_msg z) ++ fst hb, snd hb)) (body_leaves z) else body_leaves z.

Lemma leaves_prepend : forall top t,
  leaves (prepend_hdr top t) = match t with Leaf h b => [(top ++ h, b)] | Multi _ _ _ => leaves t end.
Proof. intros top [h b|h b kids]; reflexivity. Qed.

Lemma leaves_expected_tree : forall z,
  1 <= length (Writer.m_parts (z_msg z)) ->
  length (m_embeds (z_msg z)) = length (z_embeds z) -> length (m_attach (z_msg z)) = length (z_attach z) ->
  leaves (expected_tree z) = tleaves z.
Proof.
  intros z Hn He Ha. destruct (forest_expected z Hn He Ha) as (_ & t & Et).
  pose proof (expected_leaves z t Et) as L. cbv zeta in L.
  unfold expected_tree. rewrite Et, leaves_prepend. unfold tleaves, body_leaves, folded_of. cbv zeta.
  unfold expected_forest in Et. cbv zeta in Et.
  destruct (Writer.m_parts (z_msg z)) as [|p1 [|p2 ps]]; [cbn in Hn; lia| |];
    destruct (z_embeds z) as [|e1 es]; destruct (z_attach z) as [|a1 az];
    cbn [length Nat.leb Nat.eqb andb nest map app] in *; inversion Et; subst t; try exact L.
  cbn [leaves part_leaf map app fst snd]. reflexivity.
Qed.

Lemma leaf_eq : forall H f b1 b2,
  fields_of_block H = Some f ->
  decode_cte (hget f hdr_content_transfer_enc) b1 = decode_cte (hget f hdr_content_transfer_enc) b2 ->
  leaf_content (H, b1) = leaf_content (H, b2).
Proof. intros H f b1 b2 Hf Hd. unfold leaf_content. cbn [fst snd]. now rewrite Hf, Hd. Qed.

Section C.
Context (mime_of : bytes -> bytes).

Lemma part_leaf_eq : forall pre pf fo w w' (m : Writer.msg) p,
  fblock pre pf -> hvals pf (canon hdr_content_transfer_enc) = [] ->
  Writer.m_charset m = charset_utf8 -> m_wenc m = w' -> part_ok p = true ->
  leaf_content (pre ++ part_hdr fo w charset_utf8 (part2 p), encode_body (Writer.p_enc p) (p_prod (part2 p)))
  = leaf_content (pre ++ part_hdr fo w' charset_utf8 p, encode_body (Writer.p_enc p) (p_prod p)).
Proof.
  intros pre pf fo w w' m p Hpre Hl Hm Hw Hp.
  rewrite (part2_hdr_same fo w w' p Hp).
  pose proof (part_block fo m p Hm Hp) as B. rewrite Hm, Hw in B.
  apply (leaf_eq _ (pf ++ cpart_fields m p)).
  - apply fields_of_fblock. now apply fblock_app.
  - rewrite (hget_app_absent pf _ hdr_content_transfer_enc Hl).
    change (hget (cpart_fields m p) hdr_content_transfer_enc) with (enc_name (Writer.p_enc p)).
    apply (part2_decodes p Hp).
Qed.

Lemma file_leaf_eq : forall pre pf w w' is_att f,
  fblock pre pf -> hvals pf (canon hdr_content_transfer_enc) = [] ->
  file_ok f = true -> f_mime f = mime_of (f_name f) ->
  let fe2 := file_headers w is_att (file2 mime_of is_att f) in
  let fe := file_headers w' is_att f in
  leaf_content (pre ++ file_hdr false (fst fe2), encode_body (snd fe2) (f_prod (fst fe2)))
  = leaf_content (pre ++ file_hdr false (fst fe), encode_body (snd fe) (f_prod (fst fe))).
Proof.
  intros pre pf w w' is_att f Hpre Hl Hf Hmime fe2 fe.
  destruct (file2_hdr_same mime_of w w' is_att f Hf Hmime) as (Hh & He2 & He1).
  destruct (file_headers_fresh w' is_att f Hf) as (Hfields & _ & Hprod & _).
  fold fe2 in Hh, He2. fold fe in Hh, He1, Hfields, Hprod.
  rewrite Hh, He2, He1, Hprod.
  change (f_prod (fst fe2)) with (f_prod (file2 mime_of is_att f)).
  apply (leaf_eq _ (pf ++ cfile_fields (fst fe))).
  - apply fields_of_fblock. apply fblock_app; [assumption|exact (file_block w' is_att f Hf)].
  - rewrite (hget_app_absent pf _ hdr_content_transfer_enc Hl). rewrite Hfields.
    assert (E : hget (file_fields is_att (f_name f) (f_mime f)) hdr_content_transfer_enc = enc_b64) by (destruct is_att; reflexivity).
    rewrite E. apply (file2_decodes mime_of is_att f Hf).
Qed.

Lemma ctop_lacks_cte : forall d i rb m, in_feature_set m = true ->
  hvals (ctop_fields (z_msg (resolve d i rb m))) (canon hdr_content_transfer_enc) = [].
Proof.
  intros d i rb m Hfs.
  destruct (feature_facts m Hfs) as (_ & (sv & Hgen & _) & _ & (F & Hfrom & _) &
    (tos & ccs & Haddr & _) & _ & _ & _ & _ & Hbm & Hbr & Hba).
  destruct (resolve_proj d i rb m Hbm Hbr Hba) as (Zg & _ & Zf & Za & _).
  unfold ctop_fields, gen_fields, addr_fields. rewrite Zg, Zf, Za, Hfrom, Haddr.
  unfold add_defaults. rewrite Hgen. destruct ccs; reflexivity.
Qed.

Theorem rerender_content : forall d i rb m d2 i2 rb2,
  in_feature_set m = true -> good_value d = true -> good_value i = true ->
  (forall f, In f (m_embeds m ++ m_attach m) -> f_mime f = mime_of (f_name f)) ->
  tree_content (expected_tree (resolve d2 i2 rb2 (reparsed mime_of d i m)))
  = tree_content (expected_tree (resolve d i rb m)).
Proof.
  intros d i rb m d2 i2 rb2 Hfs Hd Hi Hmime.
  set (z := resolve d i rb m). set (m2 := reparsed mime_of d i m). set (z2 := resolve d2 i2 rb2 m2).
  destruct (feature_facts m Hfs) as (Hcs & _ & _ & _ & _ & Hpne & Hpo & Hem & Hat & Hbm & Hbr & Hba).
  destruct (resolve_proj d i rb m Hbm Hbr Hba) as (_ & _ & _ & _ & Zpa & Zcs & Ze & Zat & _).
  fold z in Zpa, Zcs, Ze, Zat.
  destruct (reparsed_proj mime_of d i m d2 i2 rb2) as (Ypa & Ye & Yat & Ycs & Yw). fold m2 z2 in Ypa, Ye, Yat, Ycs, Yw.
  destruct (resolve_lengths d i rb m) as (L1 & L2 & _). fold z in L1, L2.
  destruct (resolve_lengths d2 i2 rb2 m2) as (M1 & M2 & _). fold z2 in M1, M2.
  assert (Hn : 1 <= length (Writer.m_parts m)) by (destruct (Writer.m_parts m); [congruence|cbn; lia]).
  unfold tree_content.
  rewrite (leaves_expected_tree z), (leaves_expected_tree z2); try assumption;
    [|rewrite Ypa, map_length; exact Hn|rewrite Zpa; exact Hn].
  assert (Hfo : folded_of z2 = folded_of z).
  { unfold folded_of. now rewrite Ypa, Ye, Yat, Zpa, Ze, Zat, !map_length. }
  assert (Hzcs : Writer.m_charset (z_msg z) = charset_utf8) by now rewrite Zcs.
  (* the three groups of leaves, for a given prefix *)
  assert (G : forall pre pf, fblock pre pf -> hvals pf (canon hdr_content_transfer_enc) = [] ->
    map leaf_content (map (fun hb => (pre ++ fst hb, snd hb)) (body_leaves z2))
    = map leaf_content (map (fun hb => (pre ++ fst hb, snd hb)) (body_leaves z))).
  { intros pre pf Hpre Hl. unfold body_leaves. rewrite Hfo, Ypa, Ye, Yat, Zpa, Ze, Zat, Ycs, Yw, Zcs, Hcs.
    rewrite !map_app, !map_map. f_equal; [|f_equal].
    - apply map_ext_in. intros p Hin. cbn [fst snd]. rewrite forallb_forall in Hpo.
      change (Writer.p_enc (part2 p)) with (Writer.p_enc p).
      apply (part_leaf_eq pre pf _ _ _ (z_msg z) p Hpre Hl Hzcs eq_refl (Hpo p Hin)).
    - apply map_ext_in. intros f Hin. cbn [fst snd]. rewrite forallb_forall in Hem.
      apply (file_leaf_eq pre pf (w_of m) (m_wenc m) false f Hpre Hl (Hem f Hin)).
      apply Hmime. apply in_or_app. now left.
    - apply map_ext_in. intros f Hin. cbn [fst snd]. rewrite forallb_forall in Hat.
      apply (file_leaf_eq pre pf (w_of m) (m_wenc m) true f Hpre Hl (Hat f Hin)).
      apply Hmime. apply in_or_app. now right. }
  unfold tleaves. rewrite Hfo. destruct (folded_of z).
  - (* one text part: the top-level header block is part of the leaf's header *)
    unfold z2, m2. rewrite (top_headers_same mime_of d i rb m d2 i2 rb2 Hfs). fold z.
    apply (G (top_headers (z_msg z)) (ctop_fields (z_msg z))).
    + exact (top_block d i rb m Hfs Hd Hi).
    + exact (ctop_lacks_cte d i rb m Hfs).
  - pose proof (G [] [] fb_nil eq_refl) as G0. cbn [app] in G0.
    assert (Id : forall l : list (bytes * bytes), map (fun hb => (fst hb, snd hb)) l = l).
    { induction l as [|[a b] l IH]; [reflexivity|]. cbn. now rewrite IH. }
    now rewrite !Id in G0.
Qed.

(* … and that content is the content of the message that was built *)
Lemma leaf_content_some : forall H f b c,
  fields_of_block H = Some f -> decode_cte (hget f hdr_content_transfer_enc) b = Some c ->
  option_map lc_content (leaf_content (H, b)) = Some c.
Proof. intros H f b c Hf Hd. unfold leaf_content. cbn [fst snd]. rewrite Hf, Hd. reflexivity. Qed.

Theorem first_render_contents : forall d i rb m,
  in_feature_set m = true -> good_value d = true -> good_value i = true ->
  map (option_map lc_content) (tree_content (expected_tree (resolve d i rb m)))
  = map Some (map (fun p => EmlRoundtrip.expected_content (Writer.p_enc p) (EmlRoundtrip.content_of (p_prod p))) (Writer.m_parts m)
              ++ map (fun f => EmlRoundtrip.content_of (f_prod f)) (m_embeds m)
              ++ map (fun f => EmlRoundtrip.content_of (f_prod f)) (m_attach m)).
Proof.
  intros d i rb m Hfs Hd Hi. set (z := resolve d i rb m).
  destruct (feature_facts m Hfs) as (Hcs & _ & _ & _ & _ & Hpne & Hpo & Hem & Hat & Hbm & Hbr & Hba).
  destruct (resolve_proj d i rb m Hbm Hbr Hba) as (_ & _ & _ & _ & Zpa & Zcs & Ze & Zat & _).
  fold z in Zpa, Zcs, Ze, Zat.
  destruct (resolve_lengths d i rb m) as (L1 & L2 & _). fold z in L1, L2.
  assert (Hn : 1 <= length (Writer.m_parts m)) by (destruct (Writer.m_parts m); [congruence|cbn; lia]).
  assert (Hzcs : Writer.m_charset (z_msg z) = charset_utf8) by now rewrite Zcs.
  unfold tree_content. rewrite (leaves_expected_tree z); try assumption; [|rewrite Zpa; exact Hn].
  assert (G : forall pre pf, fblock pre pf -> hvals pf (canon hdr_content_transfer_enc) = [] ->
    map (option_map lc_content) (map leaf_content (map (fun hb => (pre ++ fst hb, snd hb)) (body_leaves z)))
    = map Some (map (fun p => EmlRoundtrip.expected_content (Writer.p_enc p) (EmlRoundtrip.content_of (p_prod p))) (Writer.m_parts m)
              ++ map (fun f => EmlRoundtrip.content_of (f_prod f)) (m_embeds m)
              ++ map (fun f => EmlRoundtrip.content_of (f_prod f)) (m_attach m))).
  { intros pre pf Hpre Hl. unfold body_leaves. rewrite Zpa, Ze, Zat, Zcs, Hcs.
    rewrite !map_app, !map_map. f_equal; [|f_equal].
    - apply map_ext_in. intros p Hin. cbn [fst snd]. rewrite forallb_forall in Hpo.
      pose proof (part_block (folded_of z) (z_msg z) p Hzcs (Hpo p Hin)) as B. rewrite Hzcs in B.
      apply (leaf_content_some _ (pf ++ cpart_fields (z_msg z) p)).
      + apply fields_of_fblock. now apply fblock_app.
      + rewrite (hget_app_absent pf _ hdr_content_transfer_enc Hl).
        change (hget (cpart_fields (z_msg z) p) hdr_content_transfer_enc) with (enc_name (Writer.p_enc p)).
        apply (part2_decodes p (Hpo p Hin)).
    - apply map_ext_in. intros f Hin. cbn [fst snd]. rewrite forallb_forall in Hem.
      destruct (file_headers_fresh (m_wenc m) false f (Hem f Hin)) as (Hfields & He1 & Hprod & _).
      rewrite He1, Hprod.
      apply (leaf_content_some _ (pf ++ cfile_fields (fst (file_headers (m_wenc m) false f)))).
      + apply fields_of_fblock. apply fblock_app; [assumption|exact (file_block (m_wenc m) false f (Hem f Hin))].
      + rewrite (hget_app_absent pf _ hdr_content_transfer_enc Hl), Hfields.
        change (hget (file_fields false (f_name f) (f_mime f)) hdr_content_transfer_enc) with enc_b64.
        apply (file2_decodes (fun _ => []) false f (Hem f Hin)).
    - apply map_ext_in. intros f Hin. cbn [fst snd]. rewrite forallb_forall in Hat.
      destruct (file_headers_fresh (m_wenc m) true f (Hat f Hin)) as (Hfields & He1 & Hprod & _).
      rewrite He1, Hprod.
      apply (leaf_content_some _ (pf ++ cfile_fields (fst (file_headers (m_wenc m) true f)))).
      + apply fields_of_fblock. apply fblock_app; [assumption|exact (file_block (m_wenc m) true f (Hat f Hin))].
      + rewrite (hget_app_absent pf _ hdr_content_transfer_enc Hl), Hfields.
        change (hget (file_fields true (f_name f) (f_mime f)) hdr_content_transfer_enc) with enc_b64.
        apply (file2_decodes (fun _ => []) true f (Hat f Hin)). }
  unfold tleaves. destruct (folded_of z).
  - apply (G (top_headers (z_msg z)) (ctop_fields (z_msg z))).
    + exact (top_block d i rb m Hfs Hd Hi).
    + exact (ctop_lacks_cte d i rb m Hfs).
  - pose proof (G [] [] fb_nil eq_refl) as G0. cbn [app] in G0.
    assert (Id : forall l : list (bytes * bytes), map (fun hb => (fst hb, snd hb)) l = l).
    { induction l as [|[a b] l IH]; [reflexivity|]. cbn. now rewrite IH. }
    now rewrite Id in G0.
Qed.
End C.

(* ---------- the composition ---------- *)
Lemma reparsed_no_failing : forall mime_of d i m, msg_has_failing_producer (reparsed mime_of d i m) = false.
Proof.
  intros mime_of d i m. unfold msg_has_failing_producer, reparsed.
  cbn [Writer.m_parts m_embeds m_attach].
  assert (P : forall ps, existsb has_failing_part (map part2 ps) = false) by (induction ps as [|p ps IH]; cbn; auto).
  assert (Fl : forall b fs, existsb has_failing_file (map (file2 mime_of b) fs) = false) by (intros b; induction fs as [|f fs IH]; cbn; auto).
  now rewrite P, !Fl.
Qed.

Lemma reparsed_no_bad_boundary : forall mime_of d i m d2 i2 rb2, no_bad_boundary (resolve d2 i2 rb2 (reparsed mime_of d i m)).
Proof.
  intros. unfold no_bad_boundary, resolve. set (m2 := reparsed mime_of d i m).
  change (m_bmixed m2) with (@nil N). change (m_brelated m2) with (@nil N). change (m_balt m2) with (@nil N).
  destruct (has_mixed m2), (has_related m2), (has_alt m2); cbn; auto.
Qed.

Section Compose2.
Context (pa pl : bytes -> ares) (pd : bytes -> dres) (mime_of : bytes -> bytes).

Theorem rerender_reads : forall d i rb m d2 i2 rb2,
  let z := resolve d i rb m in
  let m2 := reparsed mime_of d i m in
  let z2 := resolve d2 i2 rb2 m2 in
  in_feature_set m = true -> good_value d = true -> good_value i = true ->
  oracles_ok pa pl pd d m -> boundaries_ok z = true -> fresh_expected z = true ->
  (forall f, In f (m_embeds m ++ m_attach m) -> f_mime f = mime_of (f_name f)) ->
  fresh_expected z2 = true ->
  exists st, eml_parse pa pl pd (r_out (write_to d i rb m unlimited)) = Ok st /\
    msg_of_parsed mime_of st = m2 /\
    read_tree (r_out (write_to d2 i2 rb2 (msg_of_parsed mime_of st) unlimited)) = Some (expected_tree z2) /\
    tree_content (expected_tree z2) = tree_content (expected_tree z) /\
    map (option_map lc_content) (tree_content (expected_tree z2))
    = map Some (map (fun p => EmlRoundtrip.expected_content (Writer.p_enc p) (EmlRoundtrip.content_of (p_prod p))) (Writer.m_parts m)
                ++ map (fun f => EmlRoundtrip.content_of (f_prod f)) (m_embeds m)
                ++ map (fun f => EmlRoundtrip.content_of (f_prod f)) (m_attach m)).
Proof.
  intros d i rb m d2 i2 rb2 z m2 z2 Hfs Hd Hi Ho Hb Hfr Hmime Hfr2.
  destruct (parse_render pa pl pd d i rb m Hfs Hd Hi Ho Hb Hfr) as (st & Hp & _ & Hpa).
  exists st. split; [exact Hp|].
  pose proof (msg_of_parsed_reparsed mime_of d i m st Hfs Hd Hi Hpa) as E. fold m2 in E.
  split; [exact E|]. rewrite E.
  assert (Hn : 1 <= length (Writer.m_parts m2)).
  { unfold m2, reparsed. cbn [Writer.m_parts]. rewrite map_length.
    destruct (feature_facts m Hfs) as (_ & _ & _ & _ & _ & Hpne & _). destruct (Writer.m_parts m); [congruence|cbn; lia]. }
  split.
  - exact (leaves_thm d2 i2 rb2 m2 Hn (reparsed_no_failing mime_of d i m) (reparsed_no_bad_boundary mime_of d i m d2 i2 rb2) Hfr2).
  - pose proof (rerender_content mime_of d i rb m d2 i2 rb2 Hfs Hd Hi Hmime) as C. fold m2 z2 z in C.
    split; [exact C|]. rewrite C. exact (first_render_contents mime_of d i rb m Hfs Hd Hi).
Qed.

End Compose2.
