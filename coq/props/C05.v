(* C05 — Envelope addresses and command lines cannot be smuggled.
   Property theorems only: each is closed by [exact <lemma>] and followed by Print Assumptions.
   The model is the REPAIRED code (proposed_fixes/C05-quote-local-part.diff, C05-helo-single-token.diff):
   its byte tests are taken from the source (Gen.helo_bad_byte, Gen.mailbox_refuse_byte,
   Gen.mailbox_escape_byte); on the unrepaired tree they are `false` and the proofs below do not check. *)
From Coq Require Import String.
From Verif Require Import Bytes Base64 Envelope.
From VerifGen Require Import Gen.
From VerifProofs Require Import EnvelopeProofs.
Open Scope N_scope.

(* source-derived: format strings and parameter texts of Mail / Rcpt / helo / ehlo, validateLine's
   character set, the byte tests of the two repaired sites, the DSN constants *)
Theorem C05_source_mail_rcpt_literals :
  smtp_mail_literals =
    [bs "MAIL FROM:<%s>"; bs "8BITMIME"; bs " BODY=8BITMIME"; bs "SMTPUTF8"; bs " SMTPUTF8"; bs "DSN"; []; bs " RET=%s"]
  /\ smtp_rcpt_literals = [bs "DSN"; []; bs "RCPT TO:<%s> NOTIFY=%s"; bs "RCPT TO:<%s>"].
Proof. exact (conj gen_smtp_mail_literals gen_smtp_rcpt_literals). Qed.
Print Assumptions C05_source_mail_rcpt_literals.

Theorem C05_source_helo_validate :
  (smtp_helo_literals = [bs "HELO %s"] /\ hd [] smtp_ehlo_literals = bs "EHLO %s")
  /\ hd [] smtp_validate_line_literals = [10; 13]
  /\ (forall b, helo_bad_byte b = ((b <=? 32) || (b =? 127))).
Proof. exact (conj gen_smtp_helo_ehlo_literals (conj gen_validate_line_literal gen_helo_bad_byte)). Qed.
Print Assumptions C05_source_helo_validate.

Theorem C05_source_mailbox :
  (nth 1 mailbox_literals [] = [64] /\ nth 3 mailbox_literals [] = dotdot /\ nth 4 mailbox_literals [] = atext_specials)
  /\ (forall b, mailbox_refuse_byte b = ((b <? 32) || (b =? 127)))
  /\ (forall b, mailbox_escape_byte b = ((b =? 34) || (b =? 92))).
Proof. exact (conj gen_mailbox_literals (conj gen_mailbox_refuse_byte gen_mailbox_escape_byte)). Qed.
Print Assumptions C05_source_mailbox.

(* Every command line the client writes outside DATA (EHLO/HELO, MAIL, RCPT, AUTH and its responses,
   "*", DATA, RSET, NOOP, QUIT, STARTTLS) is free of CR and LF: it passed validateLine, is base64, or is a
   constant (the DSN values and the mechanism name being CR/LF-free). *)
Theorem C05_single_line : forall (c : command) (l : bytes),
  wf_command c -> line_of c = Some l -> forallb no_crlf_byte l = true.
Proof. exact single_line. Qed.
Print Assumptions C05_single_line.

(* HELO/EHLO: whatever name the caller supplies, a transmitted line carries exactly one argument *)
Theorem C05_helo_single_argument : forall n l,
  (ehlo_line n = Some l \/ helo_line n = Some l) ->
  count_sp l = 1%nat /\ forallb no_crlf_byte l = true /\ n <> [] \/ n = [].
Proof. exact helo_single_argument. Qed.
Print Assumptions C05_helo_single_argument.

(* credentials only travel base64-encoded: no blank, CR or LF whatever user name / password are *)
Theorem C05_auth_line_two_blanks : forall mech r,
  forallb not_sp mech = true -> count_sp (auth_line mech (Some r)) = 2%nat.
Proof. exact auth_line_two_blanks. Qed.
Print Assumptions C05_auth_line_two_blanks.

Theorem C05_auth_response_one_token : forall r,
  count_sp (auth_resp_line r) = O /\ forallb no_crlf_byte (auth_resp_line r) = true.
Proof. exact auth_resp_no_blank. Qed.
Print Assumptions C05_auth_response_one_token.

(* DSN options: every accepted combination yields RET in {none, HDRS, FULL} and a NOTIFY value made of
   esmtp-value characters only *)
Theorem C05_dsn_options_safe : forall opts cfg, apply_dsn_opts dsn_none opts = Some cfg ->
  ret_ok (d_ret cfg) /\ value_ok (notify_string cfg).
Proof. exact dsn_options_safe. Qed.
Print Assumptions C05_dsn_options_safe.

(* DSN values end to end.  Source-derived: WithDSNMailReturnType / WithDSNRcptNotifyType store the very expression
   their switch validates, and smtp.Client.Mail / Rcpt refuse a stored value that is no esmtp-value (byte test of
   validateParamValue, proposed_fixes/C05-dsn-parameter-value.diff). *)
Theorem C05_source_dsn_values :
  (dsn_ret_validated_is_stored = true /\ dsn_notify_validated_is_stored = true)
  /\ (forall b, param_bad_byte b = ((b <=? 32) || (b =? 61) || (127 <=? b))).
Proof. exact (conj gen_dsn_validated_is_stored gen_param_bad_byte). Qed.
Print Assumptions C05_source_dsn_values.

(* For every option list the constructors accept, every mailbox and capability set: the MAIL / RCPT lines are read
   back with exactly the client's own parameters, RET / NOTIFY being built from the stored = validated values. *)
Theorem C05_dsn_options : forall opts cfg c local domain,
  apply_dsn_opts dsn_none opts = Some cfg ->
  local <> [] -> ascii_unless (c_utf8 c) local = true ->
  domain_ok (c_utf8 c) domain = true -> no_at domain = true ->
  match smtp_mailbox (local ++ 64 :: domain) with
  | None => existsb is_ctl local = true
  | Some p =>
      (exists line, mail_line c (d_ret cfg) p = Some line /\
         parse_path_line (c_utf8 c) line = Some (VMail, local, domain, mail_params c (d_ret cfg))) /\
      (exists line, rcpt_line c (notify_string cfg) p = Some line /\
         parse_path_line (c_utf8 c) line = Some (VRcpt, local, domain, rcpt_params c (notify_string cfg)))
  end.
Proof. exact dsn_options_lines. Qed.
Print Assumptions C05_dsn_options.

(* The raw setters of smtp.Client take ANY string: whatever was stored, a MAIL / RCPT line that is written is one
   line, and a value that is sent (DSN advertised, value non-empty) has no blank, control character or "=". *)
Theorem C05_raw_dsn_value_lines : forall c v addr l,
  (mail_line c v addr = Some l \/ rcpt_line c v addr = Some l) ->
  forallb no_crlf_byte l = true /\ (c_dsn c && nonempty v = true -> param_value_ok v = true).
Proof. exact raw_dsn_value_lines. Qed.
Print Assumptions C05_raw_dsn_value_lines.

(* For every mailbox local@domain (local part any non-empty byte string — ASCII unless SMTPUTF8 is in
   force —, domain an RFC 5321 Domain / address-literal without "@"), every capability set and every
   accepted DSN setting: either the address is refused — only when the local part holds a control
   character, and then nothing of the message is sent (C05_refused_sends_nothing) — or the MAIL FROM and
   RCPT TO lines, read with the RFC 5321 grammar, denote exactly (local, domain) and carry exactly the
   client's own parameters. *)
Theorem C05_path_exact : forall c ret notify local domain,
  local <> [] -> ascii_unless (c_utf8 c) local = true ->
  domain_ok (c_utf8 c) domain = true -> no_at domain = true ->
  ret_ok ret -> value_ok notify ->
  match smtp_mailbox (local ++ 64 :: domain) with
  | None => existsb is_ctl local = true
  | Some p =>
      (exists line, mail_line c ret p = Some line /\
         parse_path_line (c_utf8 c) line = Some (VMail, local, domain, mail_params c ret)) /\
      (exists line, rcpt_line c notify p = Some line /\
         parse_path_line (c_utf8 c) line = Some (VRcpt, local, domain, rcpt_params c notify))
  end.
Proof. exact path_exact. Qed.
Print Assumptions C05_path_exact.

Theorem C05_refused_sends_nothing : forall c ret notify from rcpts,
  (smtp_mailbox from = None \/ exists r, In r rcpts /\ smtp_mailbox r = None) ->
  envelope_lines c ret notify from rcpts = None.
Proof. exact refused_sends_nothing. Qed.
Print Assumptions C05_refused_sends_nothing.

(* the behaviour before the two repairs, kept as documentation (DESIGN section 6 row 11) *)
Theorem C05_unquoted_local_before_fix_refuted :
  exists c ret local domain line,
    smtp_mailbox_old (local ++ 64 :: domain) = Some (local ++ 64 :: domain) /\
    mail_line c ret (local ++ 64 :: domain) = Some line /\
    parse_path_line (c_utf8 c) line <> Some (VMail, local, domain, mail_params c ret).
Proof. exact unquoted_local_before_fix_refuted. Qed.
Print Assumptions C05_unquoted_local_before_fix_refuted.

Theorem C05_helo_space_before_fix_refuted :
  exists n l, ehlo_line_old n = Some l /\ count_sp l = 2%nat.
Proof. exact helo_blank_before_fix_refuted. Qed.
Print Assumptions C05_helo_space_before_fix_refuted.

(* non-vacuity *)
Example C05_example :
  match smtp_mailbox (bs "a b@x.test") with
  | Some p => mail_line (mkCaps true false false) [] p = Some (bs "MAIL FROM:<""a b""@x.test> BODY=8BITMIME")
  | None => False
  end /\ smtp_mailbox (9 :: bs "@x.test") = None.
Proof. split; reflexivity. Qed.
