(* C16 — Authentication secrets never reach the debug log.
   Property theorems only: each is closed by [exact <lemma>] and followed by Print Assumptions.
   Model: coq/theories/AuthLoop.v (smtp.Client.Auth, the two records each cmd hands to the logger, the
   authIsActive window); proofs: coq/proofs/AuthLoopProofs.v.  The mechanism is ANY value of the smtp.Auth
   interface (any state type, any Start / Next functions), so the statements cover every mechanism, every
   credential and every internal behaviour of the mechanism; the reply script is any list of replies. *)
From Coq Require Import String.
From Verif Require Import Bytes Base64 AuthLoop Sasl Crypto SaslRun.
From VerifGen Require Import Gen.
From VerifProofs Require Import AuthLoopProofs.
Open Scope N_scope.

(* T1: the redaction rule as the source has it *)
Theorem C16_source_redaction_rule :
  (forall a, Gen.smtp_cmd_redact a = a) /\
  (forall a c, Gen.smtp_reply_redact a c = a && (300 <=? c) && (c <=? 400)) /\
  Gen.smtp_redacted_placeholder = bs "<SMTP auth data redacted>" /\
  Gen.smtp_auth_deactivation_deferred = true.
Proof. exact gen_redaction_rule. Qed.
Print Assumptions C16_source_redaction_rule.

(* With auth-data logging off, every record of every Auth run — the AUTH command, every response, the abort
   "*" and the QUIT issued inside Auth included — is either the constant placeholder record or the rendering of
   one of the server's own replies: nothing the client wrote (hence nothing derived from the credentials, in any
   encoding) is in the log. *)
Theorem C16_no_client_data_in_log :
  forall S (m : mech S) (s : S) (a0 : bool) (script : list reply),
    Forall (fun r => r = {| lr_c2s := true; lr_text := redacted |} \/
                     exists rep, (rep = RBad \/ In rep script) /\ r = rec_s2c true rep)
           (o_log (f_out (auth m false a0 s script))).
Proof. exact auth_log_clean. Qed.
Print Assumptions C16_no_client_data_in_log.

(* ... and of a 3xx reply (a challenge, which may echo client data) only the code is logged *)
Theorem C16_challenge_text_redacted : forall c m, 300 <= c -> c <= 400 ->
  lr_text (rec_s2c true (Reply c m)) = dec_of_N c ++ bs " " ++ redacted.
Proof. exact reply_3xx_redacted. Qed.
Print Assumptions C16_challenge_text_redacted.

(* the window is closed at every return of Auth (success, server error, mechanism error, undecodable
   challenge, failed Start, read error / disconnect) *)
Theorem C16_window_closes :
  forall S (m : mech S) (s : S) (lad : bool) (script : list reply),
    f_active (auth m lad false s script) = false.
Proof. exact auth_window_closed. Qed.
Print Assumptions C16_window_closes.

(* the flag is owned by the running Auth call: T1 - Auth is the only function of package smtp that assigns authIsActive;
   and inside Auth the value set on entry is the one every command of the exchange is logged under, and the one in force
   until the deferred function runs (whatever the mechanism does in Start / Next, e.g. calling other methods of the Client) *)
Theorem C16_source_flag_owned_by_auth : Gen.smtp_authIsActive_writers = [bs "Client.Auth"].
Proof. exact gen_flag_owned_by_auth. Qed.
Print Assumptions C16_source_flag_owned_by_auth.

Theorem C16_flag_constant_during_auth : forall S (m : mech S) active name rest s code msg64 o,
  f_active (auth_loop m active name s code msg64 rest o) = active.
Proof. exact loop_active. Qed.
Print Assumptions C16_flag_constant_during_auth.

(* T1: the window is opened on entry exactly when auth-data logging is off, whatever c.debug is at that moment *)
Theorem C16_source_entry_opens_window : forall lad dbg, Gen.smtp_auth_entry_opens lad dbg = negb lad.
Proof. exact gen_entry_opens. Qed.
Print Assumptions C16_source_entry_opens_window.

(* debug logging switched on / off, the logger replaced, SetLogAuthData called - at any moment WHILE Auth runs (from the
   mechanism or another goroutine): whatever selection of the records reaches whatever logger, every record is clean.
   (auth_x: logAuthData read on entry = false, any value at exit; the redaction of a record depends on authIsActive alone.) *)
Theorem C16_any_selection_of_records_clean :
  forall S (m : mech S) (s : S) (lad_exit a0 : bool) (script : list reply) (sel : list logrec),
    incl sel (o_log (f_out (auth_x m false lad_exit a0 s script))) ->
    Forall (fun r => r = {| lr_c2s := true; lr_text := redacted |} \/
                     exists rep, (rep = RBad \/ In rep script) /\ r = rec_s2c true rep) sel.
Proof. exact auth_any_selection_clean. Qed.
Print Assumptions C16_any_selection_of_records_clean.

(* T1: the deferred function of Auth clears authIsActive unconditionally (proposed_fixes/C16-auth-window-closes-after-optin.diff).
   Before that repair the deferred function read "if !c.logAuthData": with SetLogAuthData called while Auth runs the flag
   stayed set and all later traffic was logged redacted (C16_before_fix_window_stays_open_refuted). *)
Theorem C16_source_defer_unconditional : Gen.smtp_auth_defer_unconditional = true.
Proof. exact gen_defer_unconditional. Qed.
Print Assumptions C16_source_defer_unconditional.

(* the window is closed at every return of Auth also when logAuthData changes while it runs *)
Theorem C16_window_closes_whatever_changes :
  forall S (m : mech S) (s : S) (lad_entry lad_exit a0 : bool) (script : list reply),
    f_active (auth_x m lad_entry lad_exit a0 s script) = false.
Proof. exact auth_x_window_closed. Qed.
Print Assumptions C16_window_closes_whatever_changes.

Theorem C16_before_fix_window_stays_open_refuted :
  forall S (m : mech S) (s : S) (a0 : bool) (script : list reply),
    Gen.smtp_auth_defer_unconditional = false -> f_active (auth_x m false true a0 s script) = true.
Proof. exact optin_during_auth_leaves_window_open. Qed.
Print Assumptions C16_before_fix_window_stays_open_refuted.

(* so traffic after authentication is logged verbatim *)
Theorem C16_after_auth_plain :
  forall S (m : mech S) (s : S) (lad : bool) (script : list reply) (line : bytes) (c : N) (t : bytes),
    cmd_after (auth m lad false s script) line (Reply c t) =
    [ {| lr_c2s := true; lr_text := line |}; {| lr_c2s := false; lr_text := dec_of_N c ++ bs " " ++ t |} ].
Proof. exact after_auth_verbatim. Qed.
Print Assumptions C16_after_auth_plain.

(* concrete instances: PLAIN with password "hunter2-secret" against 535; the opt-in logs the AUTH line *)
Definition ex_plain : mech_desc :=
  MPlain {| pl_identity := []; pl_user := bs "user"; pl_pass := bs "hunter2-secret"; pl_host := bs "localhost"; pl_allow_unenc := false |}
         {| si_name := bs "localhost"; si_tls := false |}.

Example C16_plain_failed_auth_log :
  ro_log (run_auth cfg_fixed ex_plain false [Reply 535 (bs "5.7.8 no")]) =
  [ 62 :: bs "<SMTP auth data redacted>"; 60 :: bs "535 5.7.8 no";
    62 :: bs "<SMTP auth data redacted>"; 60 :: bs "0 ";
    62 :: bs "<SMTP auth data redacted>"; 60 :: bs "0 " ].
Proof. vm_compute. reflexivity. Qed.

Example C16_opt_in_logs_auth_line :
  nth 0 (ro_log (run_auth cfg_fixed ex_plain true [Reply 235 (bs "ok")])) [] =
  62 :: bs "AUTH PLAIN AHVzZXIAaHVudGVyMi1zZWNyZXQ=".
Proof. vm_compute. reflexivity. Qed.
