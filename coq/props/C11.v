(* C11 — Rendering is repeatable and all output paths agree.
   Model: coq/theories/Writer.v.  [resolve] is everything a render derives from the Msg and caches
   in it (default headers incl. Date / Message-ID, per-file MIME headers, multipart boundaries);
   [write_to] = Msg.WriteTo on a destination [k]; [r_msg] = the Msg after the call. *)
From Coq Require Import String.
From Verif Require Import Bytes Writer.
From VerifProofs Require Import RenderIdemProofs.

(* Resolving an already rendered message changes nothing: rendering does not alter the message
   beyond filling its caches, and the caches are stable. *)
Theorem C11_state_stable : forall d1 i1 rb1 d2 i2 rb2 (m : msg),
  files_ok m -> clean (resolve d1 i1 rb1 m) ->
  resolve d2 i2 rb2 (z_msg (resolve d1 i1 rb1 m)) = resolve d1 i1 rb1 m.
Proof. exact resolve_idem. Qed.
Print Assumptions C11_state_stable.

(* After ANY first render — successful or failed, on any destination k1 — a later render on a
   destination k behaves exactly as the first render would have on k: same bytes, same count,
   same verdict, same resulting message; for every later date / message-id / randomness oracle. *)
Theorem C11_repeatable : forall d1 i1 rb1 d2 i2 rb2 (m : msg) (k1 k : sink),
  files_ok m -> clean (resolve d1 i1 rb1 m) ->
  write_to d2 i2 rb2 (r_msg (write_to d1 i1 rb1 m k1)) k = write_to d1 i1 rb1 m k.
Proof. exact render_repeatable. Qed.
Print Assumptions C11_repeatable.

(* Any history of renders (any length, any mix of destinations and oracles) after the first one:
   every render equals the first render on its destination and the message state never moves. *)
Theorem C11_history : forall (ops : list (bytes * bytes * list bytes * sink)) d1 i1 rb1 (m : msg) (k1 : sink),
  files_ok m -> clean (resolve d1 i1 rb1 m) ->
  let m1 := r_msg (write_to d1 i1 rb1 m k1) in
  Forall2 (fun op r => r = write_to d1 i1 rb1 m (snd op)) ops (fst (render_many ops m1)) /\
  snd (render_many ops m1) = m1.
Proof. exact render_history. Qed.
Print Assumptions C11_history.

(* The Reader path: draining the rendered buffer with any sequence of read sizes returns exactly
   the buffer (then EOF). *)
Theorem C11_reader_drain : forall (sizes : list nat) (buf : bytes),
  fst (reader_drain buf sizes) ++ snd (reader_drain buf sizes) = buf.
Proof. exact reader_drain_spec. Qed.
Print Assumptions C11_reader_drain.

(* non-vacuity: a message with alternatives, an embed and an 8bit attachment; three well-formed
   random boundaries; the hypotheses hold and the second render is byte-identical *)
Definition ex_part (ct : bytes) : part := mkpart ct [] EncQP [] (mkprod [bs "Hello"] false).
Definition ex_file (e : option enc) : file := mkfile (bs "a.bin") (bs "application/octet-stream") e [] [] (mkprod [bs "data"] false).
Definition ex_msg : msg :=
  mkmsg (bs "UTF-8") 113 [(bs "Subject", [bs "s"])] [(bs "X-B", bs "b"); (bs "X-A", bs "a")] (Some (bs "<a@x.test>")) []
        [ex_part (bs "text/plain"); ex_part (bs "text/html")] [ex_file None] [ex_file (Some Enc8bit)] [] [] [].
Definition ex_rb : list bytes := [bs "b1b1"; bs "b2b2"; bs "b3b3"].
Example C11_example :
  clean (resolve (bs "d") (bs "i") ex_rb ex_msg) /\
  r_out (write_to (bs "d2") (bs "i2") [] (r_msg (write_to (bs "d") (bs "i") ex_rb ex_msg (fail_at 40 false))) unlimited)
  = r_out (write_to (bs "d") (bs "i") ex_rb ex_msg unlimited) /\
  r_err (write_to (bs "d") (bs "i") ex_rb ex_msg unlimited) = false.
Proof.
  split; [unfold clean; vm_compute; repeat split; intros; reflexivity|].
  split; vm_compute; reflexivity.
Qed.
Example C11_example_files_ok : files_ok ex_msg.
Proof.
  unfold files_ok, ex_msg; cbn [m_embeds m_attach m_wenc].
  split; [left; reflexivity|].
  split; (constructor; [|constructor]); unfold file_enc_ok, ex_file; cbn [f_enc f_name f_hdr];
  (split; [|split; [reflexivity|intros v H; vm_compute in H; discriminate]]); try exact I.
  unfold enc_canon. split; [vm_compute; discriminate|vm_compute; reflexivity].
Qed.

(* ======================= all output paths, any number of renders, edits in between =======================
   coq/theories/Paths.v: WriteTo / Write / WriteToSkipMiddleware / WriteToFile / WriteToTempFile / Send as
   one render into a sink (path_view: what the path delivers — the server commits the rendering with a
   final CRLF), NewReader / UpdateReader / Reader.Read, edits (setter and builder calls).  Every
   rendering operation carries the oracle draws it would consume (time, message id, boundaries, wrapper
   boundary of a signed message); [render_plain] / [render_signed signer] is the render function. *)
From Verif Require Import Smime Builder Setters Paths.
From VerifProofs Require Import WriterProofs SmimeProofs SmimeMainProofs CompleteOutputProofs PathsProofs.

(* After ANY first render (destination k1, successful or not), any number of operations through any
   mix of paths behaves like the reference machine in which every render is the FIRST render's function
   of the destination (ref_ops: the later draws are never looked at, the message never changes): same
   outputs — bytes, counts, verdicts — and the same final state, including every Reader read. *)
Theorem C11_paths_agree : forall (o1 : oracle) (m : msg) (k1 : sink) (ops : list op) (e : enc) (rd : option reader),
  files_ok m -> clean (resolve (o_date o1) (o_msgid o1) (o_rb o1) m) ->
  forallb (fun x => negb (is_edit x)) ops = true ->
  let m1 := rr_msg (render_plain o1 m k1) in
  run_ops render_plain (mkps (mkb e m1) rd) ops =
  (mkps (mkb e m1) (fst (ref_ops (first_plain o1 m) rd ops)), snd (ref_ops (first_plain o1 m) rd ops)).
Proof. exact paths_agree. Qed.
Print Assumptions C11_paths_agree.

(* … and each of those renders, whenever it reports success — on whatever destination (file, DATA
   writer, buffer; limited or not) — delivered the complete first rendering *)
Theorem C11_success_is_first_render : forall (o1 : oracle) (m : msg) (k : sink),
  fresh_sink k -> rr_err (render_plain o1 m k) = false ->
  rr_out (render_plain o1 m k) = rr_out (render_plain o1 m unlimited) /\
  rr_n (render_plain o1 m k) = length (rr_out (render_plain o1 m unlimited)) /\
  rr_err (render_plain o1 m unlimited) = false.
Proof. exact success_is_first_render. Qed.
Print Assumptions C11_success_is_first_render.

(* the Reader: what has been read is always a prefix of the buffer; reading with non-empty buffers
   until the data is exhausted returns exactly the buffer, for any read sizes *)
Theorem C11_reader_prefix : forall (sizes : list nat) (rd : reader),
  rd_err rd = false -> exists rest, drain rd sizes ++ rest = rd_buf rd.
Proof. exact drain_prefix. Qed.
Print Assumptions C11_reader_prefix.

Theorem C11_reader_drain_all : forall (sizes : list nat) (rd : reader),
  rd_err rd = false -> Forall (fun n => 0 < n)%nat sizes -> (length (rd_buf rd) <= length sizes)%nat ->
  drain rd sizes = rd_buf rd.
Proof. exact drain_all. Qed.
Print Assumptions C11_reader_drain_all.

(* UpdateReader replaces the buffer AND the error field: no stale error survives it *)
Theorem C11_update_reader_fresh : forall (rf : oracle -> msg -> sink -> rres) (st : pstate) (o : oracle) (rd0 : reader),
  ps_rd st = Some rd0 ->
  ps_rd (fst (run_op rf st (OUpdateReader o))) =
  Some (mkrd (rr_out (rf o (b_msg (ps_b st)) unlimited)) (rr_err (rf o (b_msg (ps_b st)) unlimited))).
Proof. exact update_reader_fresh. Qed.
Print Assumptions C11_update_reader_fresh.

(* S/MIME: the same with write_to_signed, for the paths that sign (all but WriteToSkipMiddleware, which
   writes the unsigned message and is not one of the property's paths); the only draw a later render
   still uses is the wrapper boundary (it is not cached) — the signed entity never depends on it, nor on
   the destination *)
Theorem C11_signed_paths_agree : forall (signer : bytes -> bytes) (o1 : oracle) (m : msg) (k1 : sink) (ops : list op) (e : enc) (rd : option reader),
  files_ok m -> clean (resolve (o_date o1) (o_msgid o1) (o_rb o1) m) ->
  forallb (fun x => negb (is_edit x)) ops = true ->
  forallb signing_op ops = true ->
  let m1 := rr_msg (render_signed signer o1 m k1) in
  run_ops (render_signed signer) (mkps (mkb e m1) rd) ops =
  (mkps (mkb e m1) (fst (ref_ops (first_signed signer o1 m) rd ops)), snd (ref_ops (first_signed signer o1 m) rd ops)).
Proof. exact signed_paths_agree_signing. Qed.
Print Assumptions C11_signed_paths_agree.

Theorem C11_signed_same_entity : forall (signer : bytes -> bytes) (o1 : oracle) (m : msg) (sb : bytes) (k : sink) (sb' : bytes) (k' : sink),
  rr_input (first_signed signer o1 m sb k) = rr_input (first_signed signer o1 m sb' k').
Proof. exact signed_same_entity. Qed.
Print Assumptions C11_signed_same_entity.

Theorem C11_signed_success_is_first_render : forall (signer : bytes -> bytes) (o1 : oracle) (m : msg) (sb : bytes) (k : sink),
  fresh_sink k -> rr_err (first_signed signer o1 m sb k) = false ->
  rr_out (first_signed signer o1 m sb k) = rr_out (first_signed signer o1 m sb unlimited) /\
  rr_n (first_signed signer o1 m sb k) = length (rr_out (first_signed signer o1 m sb unlimited)).
Proof. exact signed_success_is_first_render. Qed.
Print Assumptions C11_signed_success_is_first_render.

(* render; edit; render.  The second render is a render of the edited message (run_op, OEdit) in which
   what the first render generated is still in place: Date and Message-ID, the boundary of every
   multipart kind that was in use, and for every file of the first render its cached headers and its
   transfer encoding.  keeps_cached excludes Reset and SetGenHeader on Date / Message-ID. *)
Theorem C11_edits_then_render : forall (o1 : oracle) (m : msg) (e : enc) (edits : list cop) (o2 : oracle),
  files_ok m -> clean (resolve (o_date o1) (o_msgid o1) (o_rb o1) m) ->
  forallb keeps_cached edits = true ->
  let z1 := resolve (o_date o1) (o_msgid o1) (o_rb o1) m in
  let m1 := z_msg z1 in
  let m2 := b_msg (run_calls (mkb e m1) edits) in
  let z2 := resolve (o_date o2) (o_msgid o2) (o_rb o2) m2 in
  (forall k, cached_key k -> exists v, first_val k (m_gen m1) = Some v /\ first_val k (m_gen (z_msg z2)) = Some v) /\
  (has_mixed m = true -> m_bmixed (z_msg z2) = m_bmixed m1) /\
  (has_related m = true -> m_brelated (z_msg z2) = m_brelated m1) /\
  (has_alt m = true -> m_balt (z_msg z2) = m_balt m1) /\
  map (file_headers (m_wenc m2) false) (m_embeds m1) = z_embeds z1 /\
  map (file_headers (m_wenc m2) true) (m_attach m1) = z_attach z1.
Proof. exact edits_then_render. Qed.
Print Assumptions C11_edits_then_render.

(* ---- instances ---- *)
Definition o_a : oracle := mkor (bs "d") (bs "i") ex_rb (bs "SB1").
Definition o_b : oracle := mkor (bs "another date") (bs "another id") [bs "x1x1"; bs "x2x2"; bs "x3x3"] (bs "SB2").
Definition c11_ops : list op :=
  [ORender PWrite o_b unlimited; ORender PFile o_b (fail_at 100 false); ONewReader o_b; ORead 7; ORead 1] ++
  repeat (ORead 300) 12 ++
  [ORender PSend o_b unlimited; ORender PTempFile o_b (fail_at 0 true); OUpdateReader o_b; ORead 3] ++
  repeat (ORead 250) 14 ++ [ORead 1; ORender PSkipMw o_b unlimited].

Definition full_outputs (outs : list output) : list bytes :=
  flat_map (fun x => match x with OutRender PSend d _ false _ => [] | OutRender _ d _ false _ => [d] | _ => [] end) outs.
Definition read_data (outs : list output) : bytes :=
  flat_map (fun x => match x with OutRead d RdOk => d | _ => [] end) outs.

(* after a first render into a destination that fails at byte 40: three successful full renders through
   other paths, two failed ones, two Reader fills drained with odd sizes — every successful output is the
   first render's, with the draws of the first render, and the Reader delivered it twice *)
Example C11_paths_example :
  let R := r_out (write_to (bs "d") (bs "i") ex_rb ex_msg unlimited) in
  let m1 := rr_msg (render_plain o_a ex_msg (fail_at 40 false)) in
  let outs := snd (run_ops render_plain (mkps (mkb EncQP m1) None) c11_ops) in
  full_outputs outs = [R; R] /\ read_data outs = R ++ R /\
  existsb (fun x => match x with OutRender PSend d _ false _ => bytes_eqb d (data_canon R) | _ => false end) outs = true /\
  length (filter (fun x => match x with OutRender _ _ _ true _ => true | _ => false end) outs) = 2%nat.
Proof. vm_compute. repeat split; reflexivity. Qed.

(* a signed message: later renders with other wrapper boundaries sign the same entity *)
Example C11_signed_example :
  let sg := fun inp : bytes => bs "SIG" in
  let m1 := rr_msg (render_signed sg o_a ex_msg unlimited) in
  let outs := snd (run_ops (render_signed sg) (mkps (mkb EncQP m1) None) [ORender PWriteTo o_b unlimited; ORender PFile o_a unlimited]) in
  match outs with
  | [OutRender _ d1 _ false (Some i1); OutRender _ d2 _ false (Some i2)] =>
      i1 = i2 /\ d2 = rr_out (render_signed sg o_a ex_msg unlimited) /\ d1 <> d2
  | _ => False
  end.
Proof. vm_compute. repeat split; try reflexivity. discriminate. Qed.

(* edits between renders: Subject, a third alternative, a second attachment *)
Definition c11_edits : list cop :=
  [CS (SSubject (bs "edited")); CB (BAddAlt (bs "text/x-added") None None [] (mkprod [bs "added"] false));
   CB (BAttach (file_of (bs "second.bin") (bs "application/octet-stream") None [] None (mkprod [bs "more"] false)))].
Example C11_edits_example :
  forallb keeps_cached c11_edits = true /\
  let m1 := rr_msg (render_plain o_a ex_msg unlimited) in
  let outs := snd (run_ops render_plain (mkps (mkb EncQP m1) None) (map OEdit c11_edits ++ [ORender PWriteTo o_b unlimited])) in
  match last outs OutEdit with
  | OutRender _ d _ false _ =>
      occurs (bs "Date: d" ++ crlf) d = true /\ occurs (bs "Message-ID: i" ++ crlf) d = true /\
      occurs (bs "boundary=b1b1") d = true /\ occurs (bs "boundary=b2b2") d = true /\ occurs (bs "boundary=b3b3") d = true /\
      occurs (bs "Subject: edited") d = true /\ occurs (bs "second.bin") d = true /\ occurs (bs "x1x1") d = false
  | _ => False
  end.
Proof. split; vm_compute; repeat split; reflexivity. Qed.

(* the file header caches win over later changes of a *File's fields (Name, Desc, Enc are public fields;
   there is no builder call for such an edit): after the first render a renamed file still carries the
   headers of its first render — observed on the real code as well; documented, outside the property's
   builder-call quantifier *)
Example C11_file_field_edit_ignored :
  let f1 := fst (file_headers 113 true (ex_file None)) in
  let renamed := mkfile (bs "renamed.txt") (f_mime f1) (Some Enc8bit) (f_desc f1) (f_hdr f1) (f_prod f1) in
  f_hdr (fst (file_headers 113 true renamed)) = f_hdr f1 /\ snd (file_headers 113 true renamed) = EncB64.
Proof. vm_compute. split; reflexivity. Qed.
