(* C11 — Rendering is repeatable and all output paths agree.
   Model: coq/theories/Writer.v.  [resolve] is everything a render derives from the Msg and caches
   in it (default headers incl. Date / Message-ID, per-file MIME headers, multipart boundaries);
   [write_to] = Msg.WriteTo on a destination [k]; [r_msg] = the Msg after the call. *)
From Coq Require Import String.
From Verif Require Import Bytes Writer.
From VerifProofs Require Import RenderIdemProofs.

(* Resolving an already rendered message changes nothing: rendering does not alter the message
   beyond filling its caches, and the caches are stable. *)
Theorem C11_state_stable : forall d1 i1 rb1 d2 i2 rb2 (m : msg),
  files_ok m -> clean (resolve d1 i1 rb1 m) ->
  resolve d2 i2 rb2 (z_msg (resolve d1 i1 rb1 m)) = resolve d1 i1 rb1 m.
Proof. exact resolve_idem. Qed.
Print Assumptions C11_state_stable.

(* After ANY first render — successful or failed, on any destination k1 — a later render on a
   destination k behaves exactly as the first render would have on k: same bytes, same count,
   same verdict, same resulting message; for every later date / message-id / randomness oracle. *)
Theorem C11_repeatable : forall d1 i1 rb1 d2 i2 rb2 (m : msg) (k1 k : sink),
  files_ok m -> clean (resolve d1 i1 rb1 m) ->
  write_to d2 i2 rb2 (r_msg (write_to d1 i1 rb1 m k1)) k = write_to d1 i1 rb1 m k.
Proof. exact render_repeatable. Qed.
Print Assumptions C11_repeatable.

(* Any history of renders (any length, any mix of destinations and oracles) after the first one:
   every render equals the first render on its destination and the message state never moves. *)
Theorem C11_history : forall (ops : list (bytes * bytes * list bytes * sink)) d1 i1 rb1 (m : msg) (k1 : sink),
  files_ok m -> clean (resolve d1 i1 rb1 m) ->
  let m1 := r_msg (write_to d1 i1 rb1 m k1) in
  Forall2 (fun op r => r = write_to d1 i1 rb1 m (snd op)) ops (fst (render_many ops m1)) /\
  snd (render_many ops m1) = m1.
Proof. exact render_history. Qed.
Print Assumptions C11_history.

(* The Reader path: draining the rendered buffer with any sequence of read sizes returns exactly
   the buffer (then EOF). *)
Theorem C11_reader_drain : forall (sizes : list nat) (buf : bytes),
  fst (reader_drain buf sizes) ++ snd (reader_drain buf sizes) = buf.
Proof. exact reader_drain_spec. Qed.
Print Assumptions C11_reader_drain.

(* non-vacuity: a message with alternatives, an embed and an 8bit attachment; three well-formed
   random boundaries; the hypotheses hold and the second render is byte-identical *)
Definition ex_part (ct : bytes) : part := mkpart ct [] EncQP [] (mkprod [bs "Hello"] false).
Definition ex_file (e : option enc) : file := mkfile (bs "a.bin") (bs "application/octet-stream") e [] [] (mkprod [bs "data"] false).
Definition ex_msg : msg :=
  mkmsg (bs "UTF-8") 113 [(bs "Subject", [bs "s"])] [(bs "X-B", bs "b"); (bs "X-A", bs "a")] (Some (bs "<a@x.test>")) []
        [ex_part (bs "text/plain"); ex_part (bs "text/html")] [ex_file None] [ex_file (Some Enc8bit)] [] [] [].
Definition ex_rb : list bytes := [bs "b1b1"; bs "b2b2"; bs "b3b3"].
Example C11_example :
  clean (resolve (bs "d") (bs "i") ex_rb ex_msg) /\
  r_out (write_to (bs "d2") (bs "i2") [] (r_msg (write_to (bs "d") (bs "i") ex_rb ex_msg (fail_at 40 false))) unlimited)
  = r_out (write_to (bs "d") (bs "i") ex_rb ex_msg unlimited) /\
  r_err (write_to (bs "d") (bs "i") ex_rb ex_msg unlimited) = false.
Proof.
  split; [unfold clean; vm_compute; repeat split; intros; reflexivity|].
  split; vm_compute; reflexivity.
Qed.
Example C11_example_files_ok : files_ok ex_msg.
Proof.
  unfold files_ok, ex_msg; cbn [m_embeds m_attach m_wenc].
  split; [left; reflexivity|].
  split; (constructor; [|constructor]); unfold file_enc_ok, ex_file; cbn [f_enc f_name f_hdr];
  (split; [|split; [reflexivity|intros v H; vm_compute in H; discriminate]]); try exact I.
  unfold enc_canon. split; [vm_compute; discriminate|vm_compute; reflexivity].
Qed.
