(* C03 — The server only ever commits complete messages; IsDelivered tells the truth.
   Property theorems only: each is closed by [exact <lemma>] and followed by Print Assumptions.
   The renderer is an arbitrary producer [render m = (chunks written before it stopped, its error)]:
   the theorems cover every point at which rendering can fail and every chunking. *)
From Coq Require Import String.
From Verif Require Import Bytes Textproto SendErr RefServer SmtpSend SmtpSendGen.
From VerifProofs Require SmtpSendRenderProofs SmtpSendProgramsProofs SmtpSendInertProofs.
From VerifProofs Require Import TextprotoProofs SmtpSendProofs SmtpSendGenProofs SmtpSendCorollaries SmtpSendRefuted.

Theorem C03_source_expect_codes : gen_expects = std_expects.
Proof. exact gen_expects_std. Qed.
Print Assumptions C03_source_expect_codes.

Theorem C03_source_recovery_actions : dialogue_repaired gen_fixes.
Proof. exact gen_dialogue_repaired. Qed.
Print Assumptions C03_source_recovery_actions.

(* T1: the classifiers of senderror.go check the length of the error text before indexing into it, so a failing
   producer with an empty or one-/two-byte error text cannot make Send panic (in the model the classifiers are
   total; they agree with the guarded code on such texts: C20_short_error_text) *)
Theorem C03_source_len_guards : gen_len_guards = true.
Proof. exact gen_len_guards_present. Qed.
Print Assumptions C03_source_len_guards.

(* The commit log, for ALL scripts / capability sets / configurations / batches / renderers: exactly, in batch
   order, one commit for every message whose end-of-data the server answered with a 2yz/3yz code — envelope
   sender, all recipients, and the dot-canonical form of the COMPLETE rendering — and nothing else.
   [acked r] = the reply the client read at this message's end-of-data (which by C04 is the reply to it) has
   an accepting code. *)
Theorem C03_commits_exact : forall (F : fixes), dialogue_repaired F ->
  forall cfg render caps caps_tls script ms,
  let o := run_case std_expects F cfg caps caps_tls script ms render in
  w_commits (o_world o) = batch_commits render ms (o_results o).
Proof. exact commits_exact. Qed.
Print Assumptions C03_commits_exact.

(* every commit is the complete rendering of one message of the batch whose rendering succeeded *)
Theorem C03_commits_complete : forall (F : fixes), dialogue_repaired F ->
  forall cfg render caps caps_tls script ms,
  let o := run_case std_expects F cfg caps caps_tls script ms render in
  Forall (fun c => exists m from, In m ms /\ m_from m = Some from /\ snd (render m) = None /\
                   c = mkCommit from (m_rcpts m) (dotcanon (concat (fst (render m)))))
         (w_commits (o_world o)).
Proof. exact commits_complete. Qed.
Print Assumptions C03_commits_complete.

(* each message is committed at most once per call: the commit log is the image of a sub-batch (a selection
   of the messages, in order, each selected at most once) *)
Theorem C03_at_most_once : forall (F : fixes), dialogue_repaired F ->
  forall cfg render caps caps_tls script ms,
  let o := run_case std_expects F cfg caps caps_tls script ms render in
  exists mask : list bool, length mask = length ms /\
    w_commits (o_world o) = flat_map (commit_of render) (map fst (filter snd (combine ms mask))).
Proof. exact commits_at_most_once. Qed.
Print Assumptions C03_at_most_once.

(* IsDelivered <-> the end-of-data was acknowledged with 250 (ReadResponse(250) is exact: a 251 is an error
   although the server has accepted the message — noted in DESIGN, outside the property's reply space);
   delivered messages are committed; a message whose rendering fails is never delivered and — whenever the
   batch was attempted at all — carries an error. *)
Theorem C03_delivered_iff : forall (F : fixes), dialogue_repaired F ->
  forall cfg render caps caps_tls script ms,
  let o := run_case std_expects F cfg caps caps_tls script ms render in
  Forall (fun r => (r_delivered r = true <-> r_eod r = Some 250%N) /\
                   (r_delivered r = true -> acked r = true)) (o_results o).
Proof. exact delivered_iff. Qed.
Print Assumptions C03_delivered_iff.

Theorem C03_render_failure_not_delivered : forall (F : fixes), dialogue_repaired F ->
  forall cfg render caps caps_tls script ms,
  let o := run_case std_expects F cfg caps caps_tls script ms render in
  Forall2 (fun m r => snd (render m) <> None ->
             r_delivered r = false /\ acked r = false /\ (attempted (o_ret o) = true -> r_err r <> None))
          ms (o_results o).
Proof. exact render_failure_not_delivered. Qed.
Print Assumptions C03_render_failure_not_delivered.

(* [dotcanon] is what it claims to be: what the receiving side decodes from what net/textproto's dot-writer
   puts on the wire (dot-stuffing, LF -> CRLF, final CRLF, ".CRLF"), for every content and every chunking *)
Theorem C03_dot_roundtrip : forall chunks : list bytes,
  dot_decode (dot_encode chunks) = Some (dotcanon (concat chunks), []).
Proof. exact dot_roundtrip. Qed.
Print Assumptions C03_dot_roundtrip.

Theorem C03_dot_chunk_independent : forall chunks : list bytes,
  dot_encode chunks = dot_encode [concat chunks].
Proof. exact dot_encode_chunk_independent. Qed.
Print Assumptions C03_dot_chunk_independent.

(* Cross-engine composition: the renderer instantiated with the byte-core model of Msg.WriteTo (Writer.v,
   render_writer: the k-th Writer message is rendered into an unlimited destination; Date / Message-ID / boundary
   oracles per message).  Every commit then carries the dot-canonical form of the PURE rendering
   (Render.render_pure of the resolved message, the object of C01/C10/C18) of one message of the batch whose
   producers do not fail; a message with a failing body / file producer is never delivered and never committed. *)
Theorem C03_commit_is_pure_render : forall wms date msgid rb (F : fixes), dialogue_repaired F ->
  forall cfg caps caps_tls script ms, SmtpSendRenderProofs.boundaries_ok wms date msgid rb ->
  let o := run_case std_expects F cfg caps caps_tls script ms (SmtpSendRenderProofs.render_writer wms date msgid rb) in
  Forall (fun c => exists m from wm,
            In m ms /\ m_from m = Some from /\ nth_error wms (m_id m) = Some wm /\
            WriterProofs.msg_has_failing_producer wm = false /\
            c = mkCommit from (m_rcpts m) (dotcanon (SmtpSendRenderProofs.pure_of date msgid rb (m_id m) wm)))
         (w_commits (o_world o)).
Proof. exact SmtpSendRenderProofs.commit_is_pure_render. Qed.
Print Assumptions C03_commit_is_pure_render.

Theorem C03_failing_producer_never_committed : forall wms date msgid rb (F : fixes), dialogue_repaired F ->
  forall cfg caps caps_tls script ms,
  let o := run_case std_expects F cfg caps caps_tls script ms (SmtpSendRenderProofs.render_writer wms date msgid rb) in
  Forall2 (fun m r => forall wm, nth_error wms (m_id m) = Some wm ->
             WriterProofs.msg_has_failing_producer wm = true ->
             r_delivered r = false /\ acked r = false)
          ms (o_results o).
Proof. exact SmtpSendRenderProofs.failing_producer_never_committed. Qed.
Print Assumptions C03_failing_producer_never_committed.

(* whatever else the server advertises (PIPELINING, SIZE, CHUNKING, unknown keywords ...): the commit log and the
   per-message results are those of the run with only the consulted capabilities *)
Theorem C03_inert_capabilities : forall X F, fx_ehlo_replace F = true ->
  forall cfg render caps caps_tls script ms name,
  SmtpSendInertProofs.visible (run_case X F cfg (EOther name :: caps) (EOther name :: caps_tls) script ms render) =
  SmtpSendInertProofs.visible (run_case X F cfg caps caps_tls script ms render).
Proof. exact SmtpSendInertProofs.inert_capability_added. Qed.
Print Assumptions C03_inert_capabilities.

(* nil entries of a batch are skipped (the run is that of the non-nil messages: all theorems above apply to it) and
   the results stay aligned with the positions of the batch: a nil entry reports nothing, every message gets exactly
   its own result.  T1: the send loop ranges over [messages] itself and stores the error at messages[id]. *)
Theorem C03_nil_entries_aligned : forall oms rs, length rs = length (somes oms) ->
  length (align oms rs) = length oms /\
  (forall k, nth_error oms k = Some None -> nth_error (align oms rs) k = Some (mkRes None false None)) /\
  SmtpSendProgramsProofs.pick oms (align oms rs) = rs.
Proof. exact SmtpSendProgramsProofs.align_spec. Qed.
Print Assumptions C03_nil_entries_aligned.

Theorem C03_source_send_loop_indexes_batch : VerifGen.Gen.send_loop_indexes_batch = true.
Proof. exact gen_send_loop_indexes_batch. Qed.
Print Assumptions C03_source_send_loop_indexes_batch.

(* Concurrent Send calls on one dialled Client.  Client.Send holds sendMutex across SendWithSMTPClient (T1 below,
   from the lock program the locks engine extracts; mutual exclusion itself is C13_shared_conn_exclusive), so two
   racing Send calls are their sequential composition in either order, and then the commit log still consists of
   complete messages only.  The harness program "conc" starts the second Send from inside the first one's DATA. *)
Theorem C03_source_send_holds_send_mutex :
  forallb (call_under_lock false false) VerifGen.Gen.send_paths = true /\ VerifGen.Gen.send_paths <> [].
Proof. exact gen_send_holds_send_mutex. Qed.
Print Assumptions C03_source_send_holds_send_mutex.

Theorem C03_serialised_sends : forall (F : fixes), dialogue_repaired F ->
  forall cfg render caps caps_tls script ms1 ms2,
  let o := run_serialised std_expects F cfg caps caps_tls script ms1 ms2 render in
  all_legal (p_world o) = true /\ all_attributed (p_world o) = true /\
  w_commits (p_world o) = batch_commits render ms1 (p_results1 o) ++ batch_commits render ms2 (p_results2 o) /\
  (if attempted (p_ret1 o) then Forall2 (msg_post render) ms1 (p_results1 o) else p_results1 o = untouched ms1) /\
  (if attempted (p_ret2 o) then Forall2 (msg_post render) ms2 (p_results2 o) else p_results2 o = untouched ms2).
Proof. exact SmtpSendProgramsProofs.run_serialised_spec. Qed.
Print Assumptions C03_serialised_sends.

(* the original code commits a fragment and tells nobody: witness, replayed on the real code in corpus/C03.txt *)
Theorem C03_partial_commit_before_fix_refuted :
  exists script ms render,
    let o := run fixes_none script ms render in
    map cm_data (w_commits (o_world o)) = [dotcanon (bs "partial content")] /\
    map r_delivered (o_results o) = [false; false] /\
    fst (render m0) = [bs "partial content"] /\ snd (render m0) <> None.
Proof.
  exists [], [m0; m1], render_fail0.
  split; [exact (proj1 partial_commit_before_fix)|]. split; [exact (proj1 (proj2 partial_commit_before_fix))|].
  split; [reflexivity|discriminate].
Qed.
Print Assumptions C03_partial_commit_before_fix_refuted.

Example C03_repaired_example :
  let o := run fixes_all [] [m0; m1] render_fail0 in
  w_commits (o_world o) = [] /\ map r_delivered (o_results o) = [false; false].
Proof. split; [exact (proj1 partial_commit_repaired)|exact (proj1 (proj2 partial_commit_repaired))]. Qed.
