(* C02 — No caller-supplied text can alter the header block.
   Models: coq/theories/WordEnc.v (mime.WordEncoder as used by Msg.encodeString and addFiles),
   HeaderFold.v (msgWriter.writeHeader), Writer.v (file header synthesis, multipart.CreatePart). *)
From Coq Require Import String.
From Verif Require Import Bytes HeaderFold WordEnc Writer.
From VerifGen Require Import Gen.
From VerifProofs Require Import WordEncProofs HeaderSafeProofs.

(* Every byte string (CR, LF, NUL, other controls, non-ASCII, invalid UTF-8, any length), both
   word encoders: what SetGenHeader / Subject / SetOrganization / SetUserAgent / file and part
   descriptions / file names / Content-IDs store or emit consists of printable ASCII and TAB only. *)
Theorem C02_encoded_value_printable : forall (e : N) (s : bytes),
  (e = 113%N \/ e = 98%N) -> wf_bytes s = true -> forallb hdr_safe_byte (word_encode e s) = true.
Proof. exact word_encode_safe. Qed.
Print Assumptions C02_encoded_value_printable.

(* One writeHeader call emits exactly one header field for such values: printable ASCII, and every
   CRLF inside it is followed by a blank (a fold) — a value can neither start another field nor end
   the header block.  (field_ok is the strict per-field scanner.) *)
Theorem C02_one_field_per_header : forall (e : N) (key : bytes) (raw : list bytes),
  (e = 113%N \/ e = 98%N) -> forallb hdr_safe_byte key = true ->
  Forall (fun v => wf_bytes v = true) raw ->
  field_ok 0 (wh_buffer key (map (word_encode e) raw)) = true.
Proof. exact gen_header_one_field. Qed.
Print Assumptions C02_one_field_per_header.

(* File names: the documented replacement removes every control character, the double quote,
   the backslash and DEL
   (predicate taken from the source on every run), so the quoted name= / filename= parameter
   cannot be broken. *)
Theorem C02_sanitize_clean : forall s : bytes,
  forallb (fun b => negb (Gen.sanitize_bad b)) (sanitize s) = true.
Proof. exact sanitize_clean. Qed.
Print Assumptions C02_sanitize_clean.
Theorem C02_sanitize_bad_covers : forall b : N, Gen.sanitize_bad b = false ->
  (32 <= b /\ b <> 34 /\ b <> 92 /\ b <> 127)%N.
Proof. exact gen_sanitize_bad_spec. Qed.
Print Assumptions C02_sanitize_bad_covers.

(* All MIME headers synthesised for a file (Content-Type name=, Content-Transfer-Encoding,
   Content-Description, Content-Disposition filename=, Content-Id) have printable values, for
   arbitrary file name, description and caller-supplied Content-ID bytes. *)
Theorem C02_file_headers_printable : forall (w : N) (a : bool) (f : file),
  (w = 113%N \/ w = 98%N) ->
  forallb hdr_safe_byte (f_mime f) = true ->
  (match f_enc f with Some e => forallb hdr_safe_byte (enc_name e) = true | None => True end) ->
  wf_bytes (f_name f) = true -> wf_bytes (f_desc f) = true ->
  keys_unique (f_hdr f) -> values_safe_but h_cid (f_hdr f) ->
  (forall v, get_h h_cid (f_hdr f) = Some v -> wf_bytes v = true) ->
  values_safe (fst (file_hdrs w a f)).
Proof. exact file_headers_safe. Qed.
Print Assumptions C02_file_headers_printable.

(* A part header section written by multipart.CreatePart from printable values consists of
   well-formed field lines only: no extra field, no premature end of the section. *)
Theorem C02_part_header_section : forall hdrs : list (bytes * list bytes),
  hdr_list_safe hdrs -> sect_ok 2 (part_header_lines hdrs) = true.
Proof. exact part_header_lines_ok. Qed.
Print Assumptions C02_part_header_section.

(* non-vacuity / the classical injection attempt *)
Example C02_example :
  let v := bs "x" ++ [13; 10]%N ++ bs "X-Injected: 1" in
  wf_bytes v = true /\
  field_ok 0 (wh_buffer (bs "Subject") [word_encode 113 v]) = true /\
  field_ok 0 (wh_buffer (bs "Subject") [v]) = false.
Proof. vm_compute. repeat split; reflexivity. Qed.

(* documented limitation (known finding encoded-word-lookalike-verbatim): a printable value that
   itself has the form of an encoded-word is stored verbatim and a decoder will change it *)
Example C02_encoded_word_lookalike_refuted :
  exists s, word_encode 113 s = s /\ s = bs "=?utf-8?q?a?=".
Proof. exists (bs "=?utf-8?q?a?="). vm_compute. split; reflexivity. Qed.

(* ---------------- the whole message ----------------
   A strict RFC 5322 field scanner (coq/theories/HeaderScan.v: lines end in CRLF, a line starting
   with SP/TAB continues the previous field, every other line is "name:…" with a printable name
   without ':' / blank, bare CR or LF is malformed, an empty line ends the section, the text must
   not stop inside a line) applied to what go-mail renders (coq/theories/Render.v, proved equal to
   the writer model's output in proofs/RenderProofs.v) finds exactly the expected field names in
   order — no additional field, no premature end of the header section. *)
From Verif Require Import MimeTree Render HeaderScan.
From VerifProofs Require Import HeaderBlockProofs.

(* the top-level header block, for header-safe generic / From / address headers (what go-mail's
   setters store; keys printable without ':' and blank) and no preformatted headers: the sorted
   generic keys that have a value, From, the present To / Cc / Reply-To in source-list order *)
Theorem C02_top_header_block : forall (m : msg) (rest : bytes),
  hdrs_safe m -> m_preform m = [] ->
  field_names (top_headers m ++ crlf ++ rest) = Some (top_names m).
Proof. exact top_header_block. Qed.
Print Assumptions C02_top_header_block.

(* every part header section multipart.CreatePart writes: exactly the sorted keys, one field per
   value *)
Theorem C02_part_section_names : forall (hdrs : list (bytes * list bytes)) (rest : bytes),
  Forall kv_ok hdrs ->
  field_names (part_header_lines hdrs ++ crlf ++ rest) = Some (part_names hdrs).
Proof. exact part_section_names. Qed.
Print Assumptions C02_part_section_names.

(* the header section of the whole rendered message (top-level block + the outermost entity's own
   lines, up to the first empty line), for every shape: multipart (Content-Type), single part
   (Content-Transfer-Encoding, Content-Type), single file (its sorted header keys) *)
Theorem C02_message_header_fields : forall (z : rmsg) (t : node),
  hdrs_safe (z_msg z) -> m_preform (z_msg z) = [] -> entity_safe z -> forest_of z = [t] ->
  field_names (render_pure z) = Some (top_names (z_msg z) ++ entity_names z).
Proof. exact message_header_fields. Qed.
Print Assumptions C02_message_header_fields.

(* instance: the hypotheses hold and the names are what one expects; the same message with a raw
   CRLF in a value (not what the setters store) is refused by the scanner's expectations *)
Definition c02_msg (subject : bytes) : msg :=
  mkmsg (bs "UTF-8") 113 [(bs "Subject", [subject]); (bs "X-Empty", [])] [] (Some (bs """A"" <a@x.test>"))
        [(bs "Cc", [bs "<c@y.test>"; bs "<d@y.test>"]); (bs "To", [bs "<b@y.test>"])]
        [mkpart (bs "text/plain") [] EncQP [] (mkprod [bs "Hello"] false);
         mkpart (bs "text/html") [] EncQP [] (mkprod [bs "<p>Hello</p>"] false)] [] [] [] [] [].
Definition c02_z (subject : bytes) : rmsg :=
  resolve (bs "Thu, 01 Oct 2026 10:00:00 +0000") (bs "<1@x.test>") [bs "B1B1B1"] (c02_msg subject).

Example C02_message_example :
  field_names (render_pure (c02_z (bs "a long subject that has to be folded because it does not fit into one line of text"))) =
    Some [bs "Date"; bs "MIME-Version"; bs "Message-ID"; bs "Subject"; bs "User-Agent"; bs "X-Mailer";
          bs "From"; bs "To"; bs "Cc"; bs "Content-Type"] /\
  field_names (render_pure (c02_z (bs "x" ++ crlf ++ bs "X-Injected: 1"))) =
    Some [bs "Date"; bs "MIME-Version"; bs "Message-ID"; bs "Subject"; bs "X-Injected"; bs "User-Agent"; bs "X-Mailer";
          bs "From"; bs "To"; bs "Cc"; bs "Content-Type"].
Proof. vm_compute. split; reflexivity. Qed.

Example C02_message_hypotheses_satisfiable :
  let z := c02_z (bs "a subject") in
  hdrs_safe (z_msg z) /\ m_preform (z_msg z) = [] /\ entity_safe z /\ exists t, forest_of z = [t].
Proof.
  cbv zeta. split; [|split; [reflexivity|split]].
  - unfold hdrs_safe. split; [|split].
    + vm_compute. repeat (constructor; [split; [reflexivity|repeat constructor]|]). constructor.
    + intros f H. vm_compute in H. inversion H. reflexivity.
    + vm_compute. repeat constructor.
  - unfold entity_safe. cbv zeta. repeat split; try (vm_compute; reflexivity); vm_compute; repeat constructor.
  - eexists. vm_compute. reflexivity.
Qed.

(* ---------------- for ANY strings ----------------
   coq/theories/Setters.v models the text-accepting setters (Subject, SetGenHeader / SetHeader,
   SetOrganization, SetUserAgent, SetMessageIDWithValue, SetBulk, SetImportance, the address setters)
   and combines them with the part / file builder calls of Builder.v.  Every free-text argument is an
   ARBITRARY byte string (wf_bytes = bytes are < 256): subject, generic header values, organisation,
   user agent, message id, part and file descriptions, file names, content ids.  What the theorems
   still assume (cop_ok) concerns the typed-string parameters only: the header KEY of SetGenHeader
   (type Header, written as it is: must be a field name), content types, charsets, encoding names —
   and H-addr-safe: the strings net/mail's Address.String() returns are printable (validated per
   run); the date / message-id oracle strings and the drawn boundaries are printable. *)
From Verif Require Import Builder EmlWord Setters.
From VerifProofs Require Import RenderIdemProofs EmlWordProofs LineDisciplineProofs SettersProofs.
From Verif Require Import Writer.

(* whatever the setters are given, the stored message meets the hypotheses of the whole-message
   theorems (C02_message_header_fields, C18_message_crlf_only / _line_bound) *)
Theorem C02_setters_store_safe : forall (cs : bytes) (w : N) (e : enc) (ops : list cop) (d i : bytes) (rb : list bytes),
  safe cs -> wenc_ok w -> enc_typed e -> Forall cop_ok ops ->
  safe d -> safe i -> Forall safe rb ->
  let z := resolve d i rb (b_msg (run_calls (new_state cs w e) ops)) in
  hdrs_safe (z_msg z) /\ m_preform (z_msg z) = [] /\ entity_safe z /\ msg_safe z.
Proof. exact setters_store_safe. Qed.
Print Assumptions C02_setters_store_safe.

(* hence: the header section of the rendered message has exactly the expected fields, for every
   call sequence with arbitrary raw strings *)
Theorem C02_any_strings : forall (cs : bytes) (w : N) (e : enc) (ops : list cop) (d i : bytes) (rb : list bytes) (t : node),
  safe cs -> wenc_ok w -> enc_typed e -> Forall cop_ok ops ->
  safe d -> safe i -> Forall safe rb ->
  let m := b_msg (run_calls (new_state cs w e) ops) in
  let z := resolve d i rb m in
  forest_of z = [t] ->
  field_names (render_pure z) = Some (top_names (z_msg z) ++ entity_names z).
Proof. exact any_strings. Qed.
Print Assumptions C02_any_strings.

(* the value side: the stored generic header values are the word-encoded asked values (last call per
   key wins, Reset drops all), and each decodes (RFC 2047, the reader of EmlWord.v) to the string that
   was set — for every value that needs encoding or contains no "=?" *)
Theorem C02_stored_values_decode : forall (cs : bytes) (w : N) (e : enc) (ops : list cop),
  wenc_ok w ->
  let m := b_msg (run_calls (new_state cs w e) ops) in
  m_gen m = map (enc_kv w) (gen_asked ops) /\
  (Forall (fun kv => Forall (fun raw => wf_bytes raw = true /\ decodable raw = true) (snd kv)) (gen_asked ops) ->
   map (fun kv => (fst kv, map decode_header (snd kv))) (m_gen m) =
   map (fun kv => (fst kv, map Some (snd kv))) (gen_asked ops)).
Proof. exact stored_values_decode. Qed.
Print Assumptions C02_stored_values_decode.

(* the complement is the known finding encoded-word-lookalike-verbatim *)
Theorem C02_lookalike_value_refuted : exists raw : bytes,
  wf_bytes raw = true /\ decodable raw = false /\ decode_header (word_encode 113 raw) <> Some raw.
Proof. exact lookalike_refuted. Qed.
Print Assumptions C02_lookalike_value_refuted.

(* instance: injection attempts through every free-text argument *)
Definition c02_evil : bytes := bs "x" ++ crlf ++ bs "X-Injected: 1" ++ crlf ++ crlf ++ bs "body".
Definition c02_calls : list cop :=
  [CS (SSubject c02_evil); CS (SGen (bs "X-Custom") [c02_evil; bs "=?utf-8?q?a?="]); CS (SOrganization c02_evil);
   CS (SUserAgent c02_evil); CS (SMessageID c02_evil); CS SBulk; CS (SImportance ImpHigh);
   CS (SFrom (bs """A"" <a@x.test>")); CS (SAddr (bs "To") [bs "<b@y.test>"]);
   CB (BSetBody (bs "text/plain") None None c02_evil (mkprod [bs "Hello"] false));
   CB (BAddAlt (bs "text/html") (Some EncB64) None [] (mkprod [bs "<p>Hello</p>"] false));
   CB (BEmbed (file_of c02_evil (bs "image/png") None c02_evil (Some c02_evil) (mkprod [bs "x"] false)));
   CB (BAttach (file_of (bs "a""b/c.txt") (bs "text/plain") None [] None (mkprod [bs "y"] false)))].

Example C02_any_strings_hypotheses : Forall cop_ok c02_calls.
Proof. apply calls_okb_sound. vm_compute. reflexivity. Qed.

Example C02_any_strings_example :
  let z := resolve (bs "Thu, 01 Oct 2026 10:00:00 +0000") (bs "<1@x.test>") [bs "B1B1"; bs "B2B2"; bs "B3B3"]
                   (b_msg (run_calls (new_state (bs "UTF-8") 113 EncQP) c02_calls)) in
  field_names (render_pure z) =
    Some [bs "Date"; bs "Importance"; bs "MIME-Version"; bs "Message-ID"; bs "Organization"; bs "Precedence"; bs "Priority";
          bs "Subject"; bs "User-Agent"; bs "X-Auto-Response-Suppress"; bs "X-Custom"; bs "X-MSMail-Priority"; bs "X-Mailer";
          bs "X-Priority"; bs "From"; bs "To"; bs "Content-Type"] /\
  occurs (crlf ++ bs "X-Injected") (render_pure z) = false.
Proof. vm_compute. split; reflexivity. Qed.
