(* C02 — No caller-supplied text can alter the header block.
   Models: coq/theories/WordEnc.v (mime.WordEncoder as used by Msg.encodeString and addFiles),
   HeaderFold.v (msgWriter.writeHeader), Writer.v (file header synthesis, multipart.CreatePart). *)
From Coq Require Import String.
From Verif Require Import Bytes HeaderFold WordEnc Writer.
From VerifGen Require Import Gen.
From VerifProofs Require Import WordEncProofs HeaderSafeProofs.

(* Every byte string (CR, LF, NUL, other controls, non-ASCII, invalid UTF-8, any length), both
   word encoders: what SetGenHeader / Subject / SetOrganization / SetUserAgent / file and part
   descriptions / file names / Content-IDs store or emit consists of printable ASCII and TAB only. *)
Theorem C02_encoded_value_printable : forall (e : N) (s : bytes),
  (e = 113%N \/ e = 98%N) -> wf_bytes s = true -> forallb hdr_safe_byte (word_encode e s) = true.
Proof. exact word_encode_safe. Qed.
Print Assumptions C02_encoded_value_printable.

(* One writeHeader call emits exactly one header field for such values: printable ASCII, and every
   CRLF inside it is followed by a blank (a fold) — a value can neither start another field nor end
   the header block.  (field_ok is the strict per-field scanner.) *)
Theorem C02_one_field_per_header : forall (e : N) (key : bytes) (raw : list bytes),
  (e = 113%N \/ e = 98%N) -> forallb hdr_safe_byte key = true ->
  Forall (fun v => wf_bytes v = true) raw ->
  field_ok 0 (wh_buffer key (map (word_encode e) raw)) = true.
Proof. exact gen_header_one_field. Qed.
Print Assumptions C02_one_field_per_header.

(* File names: the documented replacement removes every control character, the double quote,
   the backslash and DEL
   (predicate taken from the source on every run), so the quoted name= / filename= parameter
   cannot be broken. *)
Theorem C02_sanitize_clean : forall s : bytes,
  forallb (fun b => negb (Gen.sanitize_bad b)) (sanitize s) = true.
Proof. exact sanitize_clean. Qed.
Print Assumptions C02_sanitize_clean.
Theorem C02_sanitize_bad_covers : forall b : N, Gen.sanitize_bad b = false ->
  (32 <= b /\ b <> 34 /\ b <> 92 /\ b <> 127)%N.
Proof. exact gen_sanitize_bad_spec. Qed.
Print Assumptions C02_sanitize_bad_covers.

(* All MIME headers synthesised for a file (Content-Type name=, Content-Transfer-Encoding,
   Content-Description, Content-Disposition filename=, Content-Id) have printable values, for
   arbitrary file name, description and caller-supplied Content-ID bytes. *)
Theorem C02_file_headers_printable : forall (w : N) (a : bool) (f : file),
  (w = 113%N \/ w = 98%N) ->
  forallb hdr_safe_byte (f_mime f) = true ->
  (match f_enc f with Some e => forallb hdr_safe_byte (enc_name e) = true | None => True end) ->
  wf_bytes (f_name f) = true -> wf_bytes (f_desc f) = true ->
  keys_unique (f_hdr f) -> values_safe_but h_cid (f_hdr f) ->
  (forall v, get_h h_cid (f_hdr f) = Some v -> wf_bytes v = true) ->
  values_safe (fst (file_hdrs w a f)).
Proof. exact file_headers_safe. Qed.
Print Assumptions C02_file_headers_printable.

(* A part header section written by multipart.CreatePart from printable values consists of
   well-formed field lines only: no extra field, no premature end of the section. *)
Theorem C02_part_header_section : forall hdrs : list (bytes * list bytes),
  hdr_list_safe hdrs -> sect_ok 2 (part_header_lines hdrs) = true.
Proof. exact part_header_lines_ok. Qed.
Print Assumptions C02_part_header_section.

(* non-vacuity / the classical injection attempt *)
Example C02_example :
  let v := bs "x" ++ [13; 10]%N ++ bs "X-Injected: 1" in
  wf_bytes v = true /\
  field_ok 0 (wh_buffer (bs "Subject") [word_encode 113 v]) = true /\
  field_ok 0 (wh_buffer (bs "Subject") [v]) = false.
Proof. vm_compute. repeat split; reflexivity. Qed.

(* documented limitation (known finding encoded-word-lookalike-verbatim): a printable value that
   itself has the form of an encoded-word is stored verbatim and a decoder will change it *)
Example C02_encoded_word_lookalike_refuted :
  exists s, word_encode 113 s = s /\ s = bs "=?utf-8?q?a?=".
Proof. exists (bs "=?utf-8?q?a?="). vm_compute. split; reflexivity. Qed.
