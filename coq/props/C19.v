(* C19 — No connection outlives a failed operation.
   Property theorems only: each is closed by [exact <lemma>] and followed by Print Assumptions.
   Model: theories/Dial.v (programs over transport primitives, scripted server with drop/stall/any reply code,
   TLS handshake oracle).  [world0 s] = a fresh client facing ANY server state s (any script of any length, any
   capability lines, any handshake oracle, muted or not).  The repairs are switches of the configuration whose
   values on the working tree are re-read from client.go on every run (Gen.dial_error_returns_close, ...). *)
From Coq Require Import String.
From Verif Require Import Dial.
From VerifGen Require Import Gen.
From VerifProofs Require Import DialProofs.

(* T1: the working tree closes the client on every error return of DialToSMTPClientWithContext after smtp.NewClient,
   and CloseWithSMTPClient closes the connection when QUIT fails *)
Theorem C19_source_closes_on_dial_error : src_fx_close = true.
Proof. exact (eq_refl true). Qed.
Print Assumptions C19_source_closes_on_dial_error.

Theorem C19_source_closes_on_failed_quit : src_fx_quit = true.
Proof. exact (eq_refl true). Qed.
Print Assumptions C19_source_closes_on_failed_quit.

(* DialWithContext / DialToSMTPClientWithContext: whenever it does not succeed and the dial function had returned a
   connection, that connection is closed on return — for every server behaviour, TLS policy, auth type (incl. any
   custom mechanism) and fuel *)
Theorem C19_dial_error_closed : forall fuel cfg (s : srv) r w',
  fx_close cfg = true ->
  run (dial fuel cfg) (world0 s) = (r, w') ->
  is_ok r = false ->
  opened (w_conn w') = true ->
  copen (w_conn w') = false.
Proof. exact C19_dial_error_closed_l. Qed.
Print Assumptions C19_dial_error_closed.

(* DialAndSendWithContext: the connection is closed on every return; success => the last command was QUIT *)
Theorem C19_dial_and_send_closed : forall fuel cfg msgs (s : srv) r ph w',
  fx_close cfg = true -> fx_quit cfg = true ->
  run (dial_and_send fuel cfg msgs) (world0 s) = (r, ph, w') ->
  (opened (w_conn w') = true -> copen (w_conn w') = false) /\
  (is_ok r = true -> last_cmd (w_trace w') = Some VQuit).
Proof. exact C19_dial_and_send_closed_l. Qed.
Print Assumptions C19_dial_and_send_closed.

(* the behaviour before the repairs (documentation): EHLO and HELO answered 550 -> error, connection left open;
   all replies fine but QUIT answered 500 -> error, connection left open *)
Definition cfg_plain (fx : bool) : config :=
  mkCfg NoTLS false Gen.smtp_auth_noauth None (bs "mail.verif.test") false fx fx fx true false.

Example C19_before_fix_refuted :
  exists s, let (r, w') := run (dial 8 (cfg_plain false)) (world0 s) in
            is_ok r = false /\ opened (w_conn w') = true /\ copen (w_conn w') = true.
Proof. exists (srv0 [DOk; DReply 550 TxPlain; DReply 550 TxPlain] None [] [] HsOk). vm_compute. auto. Qed.

Example C19_quit_before_fix_refuted :
  exists s, let (r, w') := run (dial_and_send 8 (cfg_plain false) [1%nat]) (world0 s) in
            is_ok (fst r) = false /\ copen (w_conn w') = true.
Proof.
  exists (srv0 [DOk; DOk; DOk; DOk; DOk; DOk; DOk; DOk; DOk; DReply 500 TxPlain; DReply 500 TxPlain] None [] [] HsOk).
  vm_compute. auto.
Qed.

(* non-vacuity: the hypotheses are satisfiable and both outcomes occur *)
Example C19_example_error : let (r, w') := run (dial 8 (cfg_plain true)) (world0 (srv0 [DOk; DReply 550 TxPlain; DReply 550 TxPlain] None [] [] HsOk)) in
  is_ok r = false /\ opened (w_conn w') = true /\ copen (w_conn w') = false /\ closes w' = 1%nat.
Proof. vm_compute. auto. Qed.

Example C19_example_success : let (r, w') := run (dial_and_send 8 (cfg_plain true) [2%nat]) (world0 (srv0 [] None [] [] HsOk)) in
  is_ok (fst r) = true /\ copen (w_conn w') = false /\ last_cmd (w_trace w') = Some VQuit.
Proof. vm_compute. auto. Qed.
