(* C18 — Generated output obeys Internet-message line discipline.
   Property theorems only: each is closed by [exact <lemma>] and followed by Print Assumptions. *)
From Verif Require Import Bytes Base64 LineBreaker QP.
From VerifGen Require Import Gen.
From VerifProofs Require Import LineBreakerProofs QPProofs.

(* source-derived constants the bounds below rest on (re-checked against /repo on every run) *)
Theorem C18_max_body_length_le_76 : (max_body <= 76)%nat.
Proof. exact gen_max_body_le_76. Qed.
Print Assumptions C18_max_body_length_le_76.

(* However the base64 encoder (or any producer) splits its output into Write calls, the line
   breaker emits exactly the 76-column wrapping of the concatenation. *)
Theorem C18_b64_chunk_independent : forall chunks : list bytes,
  lb_run chunks = Some (wrap (concat chunks)).
Proof. exact lb_chunk_independent. Qed.
Print Assumptions C18_b64_chunk_independent.

(* Every base64 body: all lines end in CRLF, no bare CR/LF, no line longer than MaxBodyLength. *)
Theorem C18_b64_body_lines : forall (content : bytes) (out : bytes),
  b64_body content = Some out -> lines_ok max_body out = true.
Proof. exact b64_body_lines. Qed.
Print Assumptions C18_b64_body_lines.

Theorem C18_b64_any_chunking_lines : forall (pieces : list bytes) (out : bytes),
  forallb no_crlf_byte (concat pieces) = true ->
  lb_run pieces = Some out -> lines_ok max_body out = true /\ out = wrap (concat pieces).
Proof. exact b64_any_chunking_lines. Qed.
Print Assumptions C18_b64_any_chunking_lines.

(* Every quoted-printable body, for every content and every chunking of the producer's writes:
   lines end in CRLF, no bare CR/LF, at most 76 characters (the final line is terminated by
   the CRLF the enclosing writer appends). *)
Theorem C18_qp_lines : forall chunks : list bytes,
  lines_ok 76 (qp_run chunks ++ crlf) = true.
Proof. exact qp_run_lines. Qed.
Print Assumptions C18_qp_lines.

Theorem C18_qp_chunk_independent : forall chunks : list bytes,
  qp_run chunks = qp_body (concat chunks).
Proof. exact qp_chunk_independent. Qed.
Print Assumptions C18_qp_chunk_independent.

(* non-vacuity: concrete non-trivial instances *)
Example C18_b64_example :
  b64_body (repeat 65%N 60) <> None /\ length (concat [repeat 65%N 60]) = 60.
Proof. split; [vm_compute; discriminate | reflexivity]. Qed.

(* ---------- header fields: msgWriter.writeHeader folds and the folding is lossless ---------- *)
From Coq Require Import String ZArith.
From Verif Require Import HeaderFold WordEnc Writer.
From VerifProofs Require Import HeaderSafeProofs HeaderFoldProofs.

(* For every key and every list of values made of header-safe bytes (printable ASCII or TAB — what
   the header encoder produces), RFC 5322 unfolding of the text writeHeader emits gives back
   exactly "Key: " ++ strings.Join(values, ", ") — nothing lost, nothing added, also with
   consecutive blanks, leading / trailing blanks, TABs, blank-only continuation lines and keys of
   any length. *)
Theorem C18_header_unfold : forall (key : bytes) (values : list bytes),
  forallb hdr_safe_byte key = true ->
  Forall (fun v => forallb hdr_safe_byte v = true) values ->
  unfold_hdr (wh_buffer key values) = key ++ bs ": " ++ join (bs ", ") values.
Proof. exact header_unfold. Qed.
Print Assumptions C18_header_unfold.

(* Every line (split at CRLF) of the emitted field has at most 78 characters, unless — after its
   single leading fold blank — it contains no blank: one word of the value, which the loop never
   splits (or "Key:" of an over-long key without blanks).  Needed of the key: it leaves room
   (len(key) + 5 <= MaxHeaderLength) or contains no blank. *)
Theorem C18_header_line_bound : forall (key : bytes) (values : list bytes),
  forallb hdr_safe_byte key = true ->
  Forall (fun v => forallb hdr_safe_byte v = true) values ->
  ((zlen key + 5 <= max_header)%Z \/ has_sp key = false) ->
  fold_bound_ok (wh_buffer key values ++ crlf) = true.
Proof. exact header_line_bound. Qed.
Print Assumptions C18_header_line_bound.

(* the bound the charLength arithmetic really keeps: MaxHeaderLength - 4 (= 72), and it is reached *)
Theorem C18_header_line_bound_exact : forall (key : bytes) (values : list bytes),
  forallb hdr_safe_byte key = true ->
  Forall (fun v => forallb hdr_safe_byte v = true) values ->
  ((zlen key + 5 <= max_header)%Z \/ has_sp key = false) ->
  fold_bound_ok_n fold_exact_bound (wh_buffer key values ++ crlf) = true.
Proof. exact header_line_bound_exact. Qed.
Print Assumptions C18_header_line_bound_exact.

(* the side condition on the key cannot be dropped *)
Theorem C18_header_line_bound_long_key_refuted : exists key values,
  forallb hdr_safe_byte key = true /\ Forall (fun v => forallb hdr_safe_byte v = true) values /\
  fold_bound_ok (wh_buffer key values ++ crlf) = false.
Proof. exact header_line_bound_long_key_refuted. Qed.
Print Assumptions C18_header_line_bound_long_key_refuted.

(* "blank" above is SP: the loop folds at SP only.  Counting TAB as a blank as well, a value word
   with an inner TAB is a counterexample; without TABs the bound holds in that reading too. *)
Theorem C18_header_line_bound_tab_refuted : exists key values,
  forallb hdr_safe_byte key = true /\ Forall (fun v => forallb hdr_safe_byte v = true) values /\
  fold_bound_ok_wsp (wh_buffer key values ++ crlf) = false.
Proof. exact header_line_bound_tab_refuted. Qed.
Print Assumptions C18_header_line_bound_tab_refuted.

Theorem C18_header_line_bound_no_tab : forall (key : bytes) (values : list bytes),
  forallb hdr_safe_byte key = true -> forallb no9 key = true ->
  Forall (fun v => forallb hdr_safe_byte v = true) values ->
  Forall (fun v => forallb no9 v = true) values ->
  ((zlen key + 5 <= max_header)%Z \/ has_sp key = false) ->
  fold_bound_ok_wsp (wh_buffer key values ++ crlf) = true.
Proof. exact header_line_bound_wsp. Qed.
Print Assumptions C18_header_line_bound_no_tab.

(* Part headers (depth > 0) are written by multipart.CreatePart without folding: a 60-character
   non-ASCII attachment name gives a 484-character Content-Type line that contains blanks
   (known finding part-header-line-too-long). *)
Theorem C18_part_header_refuted : exists f : file,
  fold_bound_ok (file_part_header 113 true f) = false /\
  existsb (fun l => (78 <? length l)%nat && has_sp (strip1 l)) (lines_of (file_part_header 113 true f)) = true /\
  list_max (map (@length N) (lines_of (file_part_header 113 true f))) = 484%nat.
Proof. exact part_header_refuted. Qed.
Print Assumptions C18_part_header_refuted.

(* non-vacuity: a safe value that really folds (three lines, a blank-only word sequence, a
   trailing blank), satisfies the hypotheses, unfolds to what was set and keeps the bound *)
Example C18_header_fold_example :
  let key := bs "Subject" in
  let values := [repeat 97%N 40 ++ bs "  " ++ repeat 98%N 40 ++ bs " " ++ repeat 99%N 30 ++ bs " "; bs "second value"] in
  forallb hdr_safe_byte key = true /\ Forall (fun v => forallb hdr_safe_byte v = true) values /\
  (zlen key + 5 <= max_header)%Z /\
  count_crlf (wh_buffer key values) = 2%nat /\
  unfold_hdr (wh_buffer key values) = key ++ bs ": " ++ join (bs ", ") values /\
  fold_bound_ok (wh_buffer key values ++ crlf) = true.
Proof.
  cbv zeta. split; [reflexivity|]. split; [repeat constructor|]. split; [vm_compute; discriminate|].
  repeat split; vm_compute; reflexivity.
Qed.

Example C18_header_line_bound_tight :
  fold_bound_ok_n 72 (wh_buffer (bs "Subject") [repeat 97%N 31 ++ [32%N] ++ repeat 97%N 31] ++ crlf) = true /\
  fold_bound_ok_n 71 (wh_buffer (bs "Subject") [repeat 97%N 31 ++ [32%N] ++ repeat 97%N 31] ++ crlf) = false.
Proof. exact header_line_bound_tight. Qed.
