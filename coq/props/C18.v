(* C18 — Generated output obeys Internet-message line discipline.
   Property theorems only: each is closed by [exact <lemma>] and followed by Print Assumptions. *)
From Verif Require Import Bytes Base64 LineBreaker QP.
From VerifGen Require Import Gen.
From VerifProofs Require Import LineBreakerProofs QPProofs.

(* source-derived constants the bounds below rest on (re-checked against /repo on every run) *)
Theorem C18_max_body_length_le_76 : (max_body <= 76)%nat.
Proof. exact gen_max_body_le_76. Qed.
Print Assumptions C18_max_body_length_le_76.

(* However the base64 encoder (or any producer) splits its output into Write calls, the line
   breaker emits exactly the 76-column wrapping of the concatenation. *)
Theorem C18_b64_chunk_independent : forall chunks : list bytes,
  lb_run chunks = Some (wrap (concat chunks)).
Proof. exact lb_chunk_independent. Qed.
Print Assumptions C18_b64_chunk_independent.

(* Every base64 body: all lines end in CRLF, no bare CR/LF, no line longer than MaxBodyLength. *)
Theorem C18_b64_body_lines : forall (content : bytes) (out : bytes),
  b64_body content = Some out -> lines_ok max_body out = true.
Proof. exact b64_body_lines. Qed.
Print Assumptions C18_b64_body_lines.

Theorem C18_b64_any_chunking_lines : forall (pieces : list bytes) (out : bytes),
  forallb no_crlf_byte (concat pieces) = true ->
  lb_run pieces = Some out -> lines_ok max_body out = true /\ out = wrap (concat pieces).
Proof. exact b64_any_chunking_lines. Qed.
Print Assumptions C18_b64_any_chunking_lines.

(* Every quoted-printable body, for every content and every chunking of the producer's writes:
   lines end in CRLF, no bare CR/LF, at most 76 characters (the final line is terminated by
   the CRLF the enclosing writer appends). *)
Theorem C18_qp_lines : forall chunks : list bytes,
  lines_ok 76 (qp_run chunks ++ crlf) = true.
Proof. exact qp_run_lines. Qed.
Print Assumptions C18_qp_lines.

Theorem C18_qp_chunk_independent : forall chunks : list bytes,
  qp_run chunks = qp_body (concat chunks).
Proof. exact qp_chunk_independent. Qed.
Print Assumptions C18_qp_chunk_independent.

(* non-vacuity: concrete non-trivial instances *)
Example C18_b64_example :
  b64_body (repeat 65%N 60) <> None /\ length (concat [repeat 65%N 60]) = 60.
Proof. split; [vm_compute; discriminate | reflexivity]. Qed.
