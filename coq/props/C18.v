(* C18 — Generated output obeys Internet-message line discipline.
   Property theorems only: each is closed by [exact <lemma>] and followed by Print Assumptions. *)
From Verif Require Import Bytes Base64 LineBreaker QP.
From VerifGen Require Import Gen.
From VerifProofs Require Import LineBreakerProofs QPProofs.

(* source-derived constants the bounds below rest on (re-checked against /repo on every run) *)
Theorem C18_max_body_length_le_76 : (max_body <= 76)%nat.
Proof. exact gen_max_body_le_76. Qed.
Print Assumptions C18_max_body_length_le_76.

(* However the base64 encoder (or any producer) splits its output into Write calls, the line
   breaker emits exactly the 76-column wrapping of the concatenation. *)
Theorem C18_b64_chunk_independent : forall chunks : list bytes,
  lb_run chunks = Some (wrap (concat chunks)).
Proof. exact lb_chunk_independent. Qed.
Print Assumptions C18_b64_chunk_independent.

(* Every base64 body: all lines end in CRLF, no bare CR/LF, no line longer than MaxBodyLength. *)
Theorem C18_b64_body_lines : forall (content : bytes) (out : bytes),
  b64_body content = Some out -> lines_ok max_body out = true.
Proof. exact b64_body_lines. Qed.
Print Assumptions C18_b64_body_lines.

Theorem C18_b64_any_chunking_lines : forall (pieces : list bytes) (out : bytes),
  forallb no_crlf_byte (concat pieces) = true ->
  lb_run pieces = Some out -> lines_ok max_body out = true /\ out = wrap (concat pieces).
Proof. exact b64_any_chunking_lines. Qed.
Print Assumptions C18_b64_any_chunking_lines.

(* Every quoted-printable body, for every content and every chunking of the producer's writes:
   lines end in CRLF, no bare CR/LF, at most 76 characters (the final line is terminated by
   the CRLF the enclosing writer appends). *)
Theorem C18_qp_lines : forall chunks : list bytes,
  lines_ok 76 (qp_run chunks ++ crlf) = true.
Proof. exact qp_run_lines. Qed.
Print Assumptions C18_qp_lines.

Theorem C18_qp_chunk_independent : forall chunks : list bytes,
  qp_run chunks = qp_body (concat chunks).
Proof. exact qp_chunk_independent. Qed.
Print Assumptions C18_qp_chunk_independent.

(* non-vacuity: concrete non-trivial instances *)
Example C18_b64_example :
  b64_body (repeat 65%N 60) <> None /\ length (concat [repeat 65%N 60]) = 60.
Proof. split; [vm_compute; discriminate | reflexivity]. Qed.

(* ---------- header fields: msgWriter.writeHeader folds and the folding is lossless ---------- *)
From Coq Require Import String ZArith.
From Verif Require Import HeaderFold WordEnc Writer.
From VerifProofs Require Import HeaderSafeProofs HeaderFoldProofs.

(* For every key and every list of values made of header-safe bytes (printable ASCII or TAB — what
   the header encoder produces), RFC 5322 unfolding of the text writeHeader emits gives back
   exactly "Key: " ++ strings.Join(values, ", ") — nothing lost, nothing added, also with
   consecutive blanks, leading / trailing blanks, TABs, blank-only continuation lines and keys of
   any length. *)
Theorem C18_header_unfold : forall (key : bytes) (values : list bytes),
  forallb hdr_safe_byte key = true ->
  Forall (fun v => forallb hdr_safe_byte v = true) values ->
  unfold_hdr (wh_buffer key values) = key ++ bs ": " ++ join (bs ", ") values.
Proof. exact header_unfold. Qed.
Print Assumptions C18_header_unfold.

(* Every line (split at CRLF) of the emitted field has at most 78 characters, unless — after its
   single leading fold blank — it contains no blank: one word of the value, which the loop never
   splits (or "Key:" of an over-long key without blanks).  Needed of the key: it leaves room
   (len(key) + 5 <= MaxHeaderLength) or contains no blank. *)
Theorem C18_header_line_bound : forall (key : bytes) (values : list bytes),
  forallb hdr_safe_byte key = true ->
  Forall (fun v => forallb hdr_safe_byte v = true) values ->
  ((zlen key + 5 <= max_header)%Z \/ has_sp key = false) ->
  fold_bound_ok (wh_buffer key values ++ crlf) = true.
Proof. exact header_line_bound. Qed.
Print Assumptions C18_header_line_bound.

(* the bound the charLength arithmetic really keeps: MaxHeaderLength - 4 (= 72), and it is reached *)
Theorem C18_header_line_bound_exact : forall (key : bytes) (values : list bytes),
  forallb hdr_safe_byte key = true ->
  Forall (fun v => forallb hdr_safe_byte v = true) values ->
  ((zlen key + 5 <= max_header)%Z \/ has_sp key = false) ->
  fold_bound_ok_n fold_exact_bound (wh_buffer key values ++ crlf) = true.
Proof. exact header_line_bound_exact. Qed.
Print Assumptions C18_header_line_bound_exact.

(* the side condition on the key cannot be dropped *)
Theorem C18_header_line_bound_long_key_refuted : exists key values,
  forallb hdr_safe_byte key = true /\ Forall (fun v => forallb hdr_safe_byte v = true) values /\
  fold_bound_ok (wh_buffer key values ++ crlf) = false.
Proof. exact header_line_bound_long_key_refuted. Qed.
Print Assumptions C18_header_line_bound_long_key_refuted.

(* "blank" above is SP: the loop folds at SP only.  Counting TAB as a blank as well, a value word
   with an inner TAB is a counterexample; without TABs the bound holds in that reading too. *)
Theorem C18_header_line_bound_tab_refuted : exists key values,
  forallb hdr_safe_byte key = true /\ Forall (fun v => forallb hdr_safe_byte v = true) values /\
  fold_bound_ok_wsp (wh_buffer key values ++ crlf) = false.
Proof. exact header_line_bound_tab_refuted. Qed.
Print Assumptions C18_header_line_bound_tab_refuted.

Theorem C18_header_line_bound_no_tab : forall (key : bytes) (values : list bytes),
  forallb hdr_safe_byte key = true -> forallb no9 key = true ->
  Forall (fun v => forallb hdr_safe_byte v = true) values ->
  Forall (fun v => forallb no9 v = true) values ->
  ((zlen key + 5 <= max_header)%Z \/ has_sp key = false) ->
  fold_bound_ok_wsp (wh_buffer key values ++ crlf) = true.
Proof. exact header_line_bound_wsp. Qed.
Print Assumptions C18_header_line_bound_no_tab.

(* Part headers (depth > 0) are written by multipart.CreatePart without folding: a 60-character
   non-ASCII attachment name gives a 484-character Content-Type line that contains blanks
   (known finding part-header-line-too-long). *)
Theorem C18_part_header_refuted : exists f : file,
  fold_bound_ok (file_part_header 113 true f) = false /\
  existsb (fun l => (78 <? length l)%nat && has_sp (strip1 l)) (lines_of (file_part_header 113 true f)) = true /\
  list_max (map (@length N) (lines_of (file_part_header 113 true f))) = 484%nat.
Proof. exact part_header_refuted. Qed.
Print Assumptions C18_part_header_refuted.

(* non-vacuity: a safe value that really folds (three lines, a blank-only word sequence, a
   trailing blank), satisfies the hypotheses, unfolds to what was set and keeps the bound *)
Example C18_header_fold_example :
  let key := bs "Subject" in
  let values := [repeat 97%N 40 ++ bs "  " ++ repeat 98%N 40 ++ bs " " ++ repeat 99%N 30 ++ bs " "; bs "second value"] in
  forallb hdr_safe_byte key = true /\ Forall (fun v => forallb hdr_safe_byte v = true) values /\
  (zlen key + 5 <= max_header)%Z /\
  count_crlf (wh_buffer key values) = 2%nat /\
  unfold_hdr (wh_buffer key values) = key ++ bs ": " ++ join (bs ", ") values /\
  fold_bound_ok (wh_buffer key values ++ crlf) = true.
Proof.
  cbv zeta. split; [reflexivity|]. split; [repeat constructor|]. split; [vm_compute; discriminate|].
  repeat split; vm_compute; reflexivity.
Qed.

Example C18_header_line_bound_tight :
  fold_bound_ok_n 72 (wh_buffer (bs "Subject") [repeat 97%N 31 ++ [32%N] ++ repeat 97%N 31] ++ crlf) = true /\
  fold_bound_ok_n 71 (wh_buffer (bs "Subject") [repeat 97%N 31 ++ [32%N] ++ repeat 97%N 31] ++ crlf) = false.
Proof. exact header_line_bound_tight. Qed.

(* ======================= the whole message =======================
   coq/theories/Render.v gives the bytes of a rendered message as a pure function (proved equal to the
   writer model's output on every destination that reports no error: C01_render_pure,
   C12_success_means_pure); coq/theories/Lines.v defines the line discipline without a length bound.
   Hypotheses (proofs/LineDisciplineProofs.v):
     msg_safe z     header keys / values as go-mail's setters store them (printable; keys without
                    ':' and blank) at top level, in part sections and in file header caches; no
                    preformatted headers;
     all_encoded z  every body is encoded by the library (quoted-printable, also the default branch
                    for other encoding names, or base64) — 8bit bodies are the caller's own lines;
     bnds_safe z / bnds_ok z   the boundaries in use are printable / printable without blank and at
                    most 70 characters (RFC 2046; multipart.Writer's random boundaries have 60). *)
From Verif Require Import MimeTree Render Lines.
From VerifProofs Require Import WriterProofs RenderProofs HeaderBlockProofs LineDisciplineProofs.

(* (1) no bare CR, no bare LF anywhere in the message; with a final CRLF appended (what the DATA
   writer does) it consists of complete lines; a multipart message ends in CRLF by itself *)
Theorem C18_message_crlf_only : forall (d i : bytes) (rb : list bytes) (m : msg),
  let z := resolve d i rb m in
  msg_safe z -> all_encoded z = true -> bnds_safe z ->
  crlf_only (render_pure z ++ crlf) = true /\
  no_bare_crlf (render_pure z) = true /\
  (multipart z = true -> crlf_only (render_pure z) = true).
Proof. exact message_crlf_only. Qed.
Print Assumptions C18_message_crlf_only.

(* (2) every encoded leaf body: lines of at most 76 characters (the last one terminated by the
   enclosing writer's CRLF) — for every resolved message, no further hypothesis *)
Theorem C18_message_body_lines : forall z : rmsg,
  all_encoded z = true ->
  Forall (fun lf => lines_ok 76 (snd lf ++ crlf) = true) (flat_map leaves (forest_of z)).
Proof. exact message_body_lines. Qed.
Print Assumptions C18_message_body_lines.

(* … and the delimiter lines "--b" / "--b--" of every multipart layer have at most 72 / 74 *)
Theorem C18_message_delimiter_lines : forall z : rmsg,
  bnds (fun b => length b <= 70)%nat z ->
  Forall (fun b => (length (dashdash ++ b) <= 72 /\ length (dashdash ++ b ++ dashdash) <= 74)%nat)
         (flat_map node_bnds (forest_of z)).
Proof. exact message_delimiter_lines. Qed.
Print Assumptions C18_message_delimiter_lines.

(* (3) EVERY line of the message — header sections at every level, delimiter lines, encoded
   bodies — has at most 78 characters or is a single token without blanks.  nested_short z is the
   complement of the known finding part-header-line-too-long: the part header sections written by
   multipart.CreatePart (not folded) have no line "Key: value" longer than 78. *)
Theorem C18_message_line_bound : forall (d i : bytes) (rb : list bytes) (m : msg),
  let z := resolve d i rb m in
  msg_safe z -> all_encoded z = true -> bnds_ok z = true -> nested_short z = true ->
  forallb (line_ok 78) (lines_of (render_pure z ++ crlf)) = true.
Proof. exact message_line_bound. Qed.
Print Assumptions C18_message_line_bound.

(* the top-level header block needs nothing but header-safe stored values *)
Theorem C18_message_header_lines : forall m : msg,
  hdrs_safe m -> m_preform m = [] -> fold_bound_ok (top_headers m) = true.
Proof. exact top_header_line_bound. Qed.
Print Assumptions C18_message_header_lines.

(* random boundaries: without cached boundaries, bnds_ok follows from the drawn ones *)
Theorem C18_random_boundaries_ok : forall (d i : bytes) (rb : list bytes) (m : msg),
  m_bmixed m = [] -> m_brelated m = [] -> m_balt m = [] ->
  Forall (fun b => bnd_ok b = true) rb ->
  bnds_ok (resolve d i rb m) = true.
Proof. exact resolve_bnds_ok. Qed.
Print Assumptions C18_random_boundaries_ok.

(* ---- instances ---- *)
Definition c18_hex (c : N) : bytes := repeat c 60.
Definition c18_rb : list bytes := [c18_hex 97; c18_hex 98; c18_hex 99]%N.
Definition c18_msg (attname : bytes) : msg :=
  mkmsg (bs "UTF-8") 113%N
        [(bs "Subject", [bs "a subject that is long enough to be folded by writeHeader because it does not fit"])] []
        (Some (bs "<alice@example.com>")) [(bs "To", [bs "<bob@example.com>"; bs "<carol@example.com>"])]
        [mkpart (bs "text/plain") [] EncQP [] (mkprod [repeat 120%N 200; crlf; bs "second line = end"] false);
         mkpart (bs "text/html") [] EncB64 (bs "the html part") (mkprod [repeat 60%N 100] false)]
        [mkfile (bs "logo.png") (bs "image/png") None [] [] (mkprod [[137; 80; 78; 71; 13; 10; 26; 10]%N] false)]
        [mkfile attname (bs "text/plain") (Some EncQP) [] [] (mkprod [bs "line one"; crlf] false)]
        [] [] [].
Definition c18_z (attname : bytes) : rmsg := resolve (bs "Thu, 01 Oct 2026 10:00:00 +0000") (bs "<1@example.com>") c18_rb (c18_msg attname).

(* the hypotheses are satisfiable by a three-layer message (mixed > related > alternative) … *)
Example C18_message_hypotheses_satisfiable :
  let z := c18_z (bs "notes.txt") in
  msg_safe z /\ all_encoded z = true /\ bnds_ok z = true /\ bnds_safe z /\ nested_short z = true /\
  multipart z = true /\ Forall (fun b => bnd_ok b = true) c18_rb.
Proof.
  cbv zeta. split; [|split; [vm_compute; reflexivity|split; [vm_compute; reflexivity|split; [|split; [vm_compute; reflexivity|split; [vm_compute; reflexivity|repeat constructor]]]]]].
  - unfold msg_safe. cbv zeta. split; [|split; [reflexivity|split; [|split]]].
    + unfold hdrs_safe. split; [|split].
      * vm_compute. repeat (constructor; [split; [reflexivity|repeat constructor]|]). constructor.
      * intros f H. vm_compute in H. inversion H. reflexivity.
      * vm_compute. repeat constructor.
    + vm_compute. repeat (constructor; [repeat (constructor; [split; [reflexivity|repeat constructor]|]); constructor|]). constructor.
    + vm_compute. repeat (constructor; [repeat (constructor; [split; [reflexivity|repeat constructor]|]); constructor|]). constructor.
    + vm_compute. repeat (constructor; [repeat (constructor; [split; [reflexivity|repeat constructor]|]); constructor|]). constructor.
  - unfold bnds_safe, bnds. cbv zeta. repeat split; intros _; vm_compute; reflexivity.
Qed.

(* … on which the statements are not vacuous: 56 lines (and the empty one after the last CRLF), among them folded header lines, soft-broken
   quoted-printable lines of 76 characters and base64 lines of 76 characters *)
Example C18_message_example :
  let s := render_pure (c18_z (bs "notes.txt")) in
  crlf_only s = true /\ forallb (line_ok 78) (lines_of s) = true /\
  list_max (map (@length N) (lines_of s)) = 76%nat /\
  Nat.leb 40 (length (lines_of s)) = true.
Proof. vm_compute. repeat split; reflexivity. Qed.

(* the hypothesis nested_short cannot be dropped (known finding part-header-line-too-long): the
   same message with a 60-character non-ASCII attachment name has a part header line of several
   hundred characters that contains blanks *)
Theorem C18_message_part_header_refuted : exists attname : bytes,
  let z := c18_z attname in
  all_encoded z = true /\ bnds_ok z = true /\ nested_short z = false /\
  crlf_only (render_pure z) = true /\
  forallb (line_ok 78) (lines_of (render_pure z ++ crlf)) = false.
Proof. exists (concat (repeat [195; 164]%N 60)). vm_compute. repeat split; reflexivity. Qed.
Print Assumptions C18_message_part_header_refuted.

(* "ends in CRLF" is a property of multipart messages: a message that is one quoted-printable part
   whose text does not end in a line break ends without CRLF (the DATA writer supplies it) *)
Theorem C18_single_part_no_final_crlf_refuted : exists m : msg,
  let z := resolve (bs "d") (bs "<i@x>") [] m in
  all_encoded z = true /\ multipart z = false /\
  no_bare_crlf (render_pure z) = true /\ crlf_only (render_pure z) = false /\
  crlf_only (render_pure z ++ crlf) = true.
Proof.
  exists (mkmsg (bs "UTF-8") 113%N [] [] None [] [mkpart (bs "text/plain") [] EncQP [] (mkprod [bs "Hello"] false)] [] [] [] [] []).
  vm_compute. repeat split; reflexivity.
Qed.
Print Assumptions C18_single_part_no_final_crlf_refuted.
