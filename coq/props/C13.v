(* C13 — Concurrent use of one Client is safe.
   Property theorems only: each is closed by [exact <lemma>] and followed by Print Assumptions.
   Model: coq/theories/Locks.v (interleaving semantics over sync.RWMutex-like mutexes; a schedule is
   ANY list of goroutine ids, a scheduled goroutine that is blocked or finished is skipped).
   The lock programs of Client.Send, DialAndSendWithContext, DialToSMTPClientWithContext, sendSingleMsg,
   smtp.Client.cmd, dataCloser.Write/Close ... are regenerated from /repo into Gen.v on every run (T1e);
   the theorems below are stated about those generated programs, so deleting or narrowing
   c.sendMutex.Lock() / the deferred Unlock breaks them at make time. *)
From Coq Require Import String.
From Verif Require Import Bytes Locks.
From VerifGen Require Import Gen.
From VerifProofs Require Import LocksProofs.

(* ---- obligations on the source-derived lock programs ---- *)
Theorem C13_send_bracketed_in_source : ob_send_bracketed = true /\ ob_send_scan = true /\ ob_send_body = true.
Proof. exact (conj ob_send_bracketed_true (conj ob_send_scan_true ob_send_body_true)). Qed.
Print Assumptions C13_send_bracketed_in_source.

(* For ALL numbers of goroutines, ALL bodies of the call inside Client.Send (any events that do not
   touch sendMutex), ALL other goroutines that respect the bracket (e.g. DialAndSend goroutines, which
   never touch connection 0 nor sendMutex) and ALL schedules: the stream on the shared connection is
   the concatenation of WHOLE bodies, in the order in which the goroutines obtained the lock,
   followed by at most one prefix (of the goroutine now holding the lock). *)
Theorem C13_serialised :
  forall (sends : list (list lock_ev * list event)) (others : list (list event)) (sched : list nat),
    (forall p b, In (p, b) sends -> In p send_paths /\ quiet send_mutex b = true) ->
    (forall t, In t others -> scan send_mutex 0 Before t = true) ->
    exists (done : list nat) (cur : option nat) (pfx : list bytes),
      NoDup (done ++ match cur with Some i => [i] | None => [] end) /\
      conn_proj 0 (trace (run (init (c13_pool sends others)) sched))
        = concat (map (fun i => body send_mutex 0 (c13_pool sends others i)) done) ++ pfx /\
      match cur with
      | None => pfx = []
      | Some i => exists sfx, body send_mutex 0 (c13_pool sends others i) = pfx ++ sfx
      end.
Proof. exact c13_serialised. Qed.
Print Assumptions C13_serialised.

(* the body of a Send goroutine is exactly what its call puts on the connection *)
Theorem C13_send_body : forall p b, In p send_paths -> quiet send_mutex b = true ->
  body send_mutex 0 (send_goroutine (p, b)) = cmds 0 b.
Proof. exact send_goroutine_body. Qed.
Print Assumptions C13_send_body.

(* once every goroutine has returned, every body is on the stream exactly once (no loss, no duplicate) *)
Theorem C13_exactly_once :
  forall sends others sched,
    (forall p b, In (p, b) sends -> In p send_paths /\ quiet send_mutex b = true) ->
    (forall t, In t others -> scan send_mutex 0 Before t = true) ->
    (forall i, thr (run (init (c13_pool sends others)) sched) i = []) ->
    exists done, NoDup done /\
      conn_proj 0 (trace (run (init (c13_pool sends others)) sched))
        = concat (map (fun i => body send_mutex 0 (c13_pool sends others i)) done) /\
      forall i, ~ In i done -> body send_mutex 0 (c13_pool sends others i) = [].
Proof. exact c13_exactly_once. Qed.
Print Assumptions C13_exactly_once.

(* DialAndSend: the source program takes no lock, never reads c.smtpClient and starts by creating its
   own smtp.Client (DialToSMTPClientWithContext -> smtp.NewClient) ... *)
Theorem C13_private_in_source : ob_dial_and_send_private = true /\ ob_cfg_reads_rlocked = true.
Proof. exact (conj ob_dial_and_send_private_true ob_cfg_reads_rlocked_true). Qed.
Print Assumptions C13_private_in_source.

(* ... and a connection that only one goroutine's program mentions carries exactly that goroutine's
   commands in program order, under every schedule and whatever the other goroutines do. *)
Theorem C13_private : forall (p0 : pool) (j : nat) (kj : N) (sched : list nat),
  (forall i, i <> j -> cmds kj (p0 i) = []) ->
  conn_proj kj (trace (run (init p0) sched)) ++ cmds kj (thr (run (init p0) sched) j) = cmds kj (p0 j).
Proof. exact private_conn. Qed.
Print Assumptions C13_private.

(* Lockset discipline, sound for the semantics: if every goroutine writes a Guarded object only with
   its guard held exclusively, reads it with the guard held, never writes a ReadOnly object, and
   Private objects are touched by one goroutine only, then under every schedule no two goroutines
   are ever about to perform conflicting accesses. *)
Theorem C13_lockset_sound : forall (prot : obj -> protection) (n : nat) (p0 : pool) (sched : list nat),
  (forall i, disc prot h0 (p0 i) = true) -> (forall i, (n <= i)%nat -> p0 i = []) -> private_ok prot p0 ->
  race_free (run (init p0) sched).
Proof. exact lockset_sound. Qed.
Print Assumptions C13_lockset_sound.

(* instance for go-mail: connection 0 and its smtp.Client guarded by sendMutex, Client configuration
   read-only, everything else private; the Send goroutines are the generated paths with ANY accesses
   to those objects in place of the call. *)
Theorem C13_guarded :
  forall sends others sched,
    (forall p b, In (p, b) sends -> In p send_paths /\ hole_ok prot_c13 send_mutex b = true) ->
    (forall t, In t others -> disc prot_c13 h0 t = true) ->
    private_ok prot_c13 (c13_pool sends others) ->
    race_free (run (init (c13_pool sends others)) sched).
Proof. exact c13_guarded. Qed.
Print Assumptions C13_guarded.

(* source facts behind the protection map: the send path never writes a Client field, configuration
   reads in dial/sendSingleMsg are under c.mutex.RLock, the inner functions never take sendMutex, and
   smtp.Client.cmd / dataCloser.Write/Close / UpdateDeadline work on c.Text / c.conn under smtp.Client.mutex *)
Theorem C13_guarded_in_source :
  ob_send_disc = true /\ ob_cfg_read_only = true /\ ob_cfg_reads_rlocked = true /\
  ob_inner_no_sm = true /\ ob_smtp_cmd_locked = true.
Proof.
  exact (conj ob_send_disc_true (conj ob_cfg_read_only_true (conj ob_cfg_reads_rlocked_true
        (conj ob_inner_no_sm_true ob_smtp_cmd_locked_true)))).
Qed.
Print Assumptions C13_guarded_in_source.

(* Concurrent dials do not interfere on Client state.  Source side (T1e write inventory, interprocedural
   over the methods reachable from DialWithContext / DialAndSend / Send / Close / Reset): every write of
   a Client field happens with c.mutex held exclusively — never under RLock, never unlocked; the dial and
   sendSingleMsg paths read the fields under RLock and never take the mutex exclusively. *)
Theorem C13_client_writes_locked_in_source : ob_client_writes_excl = true /\ ob_dial_frame = true.
Proof. exact (conj ob_client_writes_excl_true ob_dial_frame_true). Qed.
Print Assumptions C13_client_writes_locked_in_source.

(* Model side (frame property): goroutines that obey the discipline and never take m exclusively
   (dial programs) execute, under every schedule, no write to any object guarded by m: a dial reads
   only state that no concurrent dial writes. *)
Theorem C13_dial_frame : forall (prot : obj -> protection) (m : N) (p0 : pool) (sched : list nat),
  (forall i, disc prot h0 (p0 i) = true) -> (forall i, no_excl m (p0 i) = true) ->
  forall i e, In (i, e) (trace (run (init p0) sched)) -> writes_guarded prot m e = false.
Proof. exact dial_frame. Qed.
Print Assumptions C13_dial_frame.

(* ---- which state may be read without c.mutex: only fields no method ever assigns (c.connTimeout in checkConn /
   CloseWithSMTPClient) and c.smtpClient, whose only writer is DialWithContext (under c.mutex.Lock) — the
   "established connection" precondition of the property ---- *)
Theorem C13_unlocked_reads_stable_in_source : ob_unlocked_reads_stable = true /\ ob_smtpclient_single_writer = true.
Proof. exact (conj ob_unlocked_reads_stable_true ob_smtpclient_single_writer_true). Qed.
Print Assumptions C13_unlocked_reads_stable_in_source.

(* ---- the smtp.Client level: c.Text only with smtp.Client.mutex held exclusively, c.conn only with it held, in
   every method of smtp.Client; the private smtp.Client of DialAndSend never escapes its goroutine ---- *)
Theorem C13_smtp_client_in_source : ob_smtp_text_conn_locked = true /\ ob_private_client_owned = true /\ ob_send_no_rlock = true.
Proof. exact (conj ob_smtp_text_conn_locked_true (conj ob_private_client_owned_true ob_send_no_rlock_true)). Qed.
Print Assumptions C13_smtp_client_in_source.

(* no method of smtp.Client writes through a pointer parameter (StartTLS leaves the caller's *tls.Config alone), and
   no method of mail.Client writes through a pointer kept in a field without c.mutex held exclusively (such writes
   are part of the write inventory of C13_client_writes_locked_in_source) *)
Theorem C13_no_shared_pointee_writes_in_source : ob_no_shared_pointee_writes = true.
Proof. exact ob_no_shared_pointee_writes_true. Qed.
Print Assumptions C13_no_shared_pointee_writes_in_source.

(* the logger shared by all connections of a Client has no state its log methods write *)
Theorem C13_loggers_stateless_in_source : ob_loggers_stateless = true.
Proof. exact ob_loggers_stateless_true. Qed.
Print Assumptions C13_loggers_stateless_in_source.

(* no unsynchronised package-level state: the translator's list of assignments to package-level variables of
   mail / smtp / log (outside init and initialisers) contains only sync.Once- or mutex-protected ones *)
Theorem C13_no_unsynchronised_package_state : ob_no_unsync_package_state = true.
Proof. exact ob_no_unsync_package_state_true. Qed.
Print Assumptions C13_no_unsynchronised_package_state.

(* ownership, model side: an object only goroutine j's program touches is accessed by j alone, under every schedule *)
Theorem C13_private_object_owner : forall (p0 : pool) (j : nat) (o : obj) (sched : list nat),
  (forall i, i <> j -> touches o (p0 i) = false) ->
  forall i e a, In (i, e) (trace (run (init p0) sched)) -> access e = Some (o, a) -> i = j.
Proof. exact private_object_owner. Qed.
Print Assumptions C13_private_object_owner.

(* shared connection: all access to connection 0 and its smtp.Client goes through sendMutex — two goroutines are
   never both about to touch them (reads included), for every schedule *)
Theorem C13_shared_conn_exclusive : forall sends others sched,
  (forall p b, In (p, b) sends -> In p send_paths /\ hole_ok prot_c13 send_mutex b = true) ->
  (forall t, In t others -> disc prot_c13 h0 t = true /\ no_rlock send_mutex t = true) ->
  forall i j e1 t1 e2 t2, i <> j ->
    thr (run (init (c13_pool sends others)) sched) i = e1 :: t1 ->
    thr (run (init (c13_pool sends others)) sched) j = e2 :: t2 ->
    guarded_by prot_c13 send_mutex e1 = true -> guarded_by prot_c13 send_mutex e2 = true -> False.
Proof. exact c13_shared_conn_exclusive. Qed.
Print Assumptions C13_shared_conn_exclusive.

(* the inner level alone: the generated cmd / dataCloser sections exclude each other even without sendMutex
   (the pool whose transactions interleave in C13_without_lock_refuted) *)
Theorem C13_cmd_sections_exclusive : forall sched, race_free (run (init nolock_pool) sched).
Proof. exact cmd_sections_exclusive. Qed.
Print Assumptions C13_cmd_sections_exclusive.

(* non-vacuity: with the sendMutex operations removed (only cmd's per-command lock left) two goroutines
   interleave NOOP a / NOOP b / MAIL a / MAIL b / RCPT a / RCPT b ... on the shared connection *)
Theorem C13_without_lock_refuted :
  exists sched,
    firstn 6 (conn_proj 0 (trace (run (init nolock_pool) sched)))
      = [item "N" 0; item "N" 0; item "M" 1; item "M" 2; item "R" 1; item "R" 2]
    /\ check_stream two_bodies (conn_proj 0 (trace (run (init nolock_pool) sched))) = false
    /\ all_done (run (init nolock_pool) sched) 2 = true.
Proof. exact without_lock_interleaves. Qed.
Print Assumptions C13_without_lock_refuted.

(* ---- the hypotheses are satisfiable by the generated programs ---- *)
Example C13_ex_send_path : In send_path send_paths /\ quiet send_mutex (txn_events 0 1 2) = true.
Proof. split; [vm_compute; left; reflexivity | vm_compute; reflexivity]. Qed.
Example C13_ex_dial_thread_brackets :
  scan send_mutex 0 Before (dial_thread 1 1 2) = true /\ disc prot_c13 h0 (dial_thread 1 1 2) = true.
Proof. split; vm_compute; reflexivity. Qed.
Example C13_ex_hole :
  hole_ok prot_c13 send_mutex [Acc cfg_obj R; Conn 0 (item "M" 1); Acc (smtp_obj 0) W; Acc (msg_obj 1) W] = true.
Proof. vm_compute. reflexivity. Qed.
Example C13_ex_private_conn : forall i, i <> 1%nat ->
  cmds 1 (pool_of [send_thread 0 1 1; dial_thread 1 2 1; dial_thread 2 3 1] i) = [].
Proof.
  intros i Hi. destruct i as [|[|[|i]]]; [vm_compute; reflexivity | congruence | vm_compute; reflexivity|].
  unfold pool_of. simpl. destruct i; reflexivity.
Qed.
Example C13_ex_with_lock_serial :
  check_stream two_bodies (conn_proj 0 (trace (run (init lock_pool) ([0; 1]%nat ++ alternating 16 14)))) = true
  /\ all_done (run (init lock_pool) ([0; 1]%nat ++ alternating 16 14)) 2 = true.
Proof. exact with_lock_same_schedule_serial. Qed.
Example C13_ex_dial_frame_hyps :
  disc prot_dial h0 (dial_thread 1 1 2) = true /\ no_excl cfg_mutex (dial_thread 1 1 2) = true.
Proof. split; vm_compute; reflexivity. Qed.
(* a dial that caches something in a Client field while holding only the read lock is rejected *)
Example C13_ex_write_under_rlock_rejected :
  disc prot_dial h0 [RLock cfg_mutex; Acc cfg_obj R; Acc cfg_obj W; RUnlock cfg_mutex] = false.
Proof. vm_compute. reflexivity. Qed.
Example C13_ex_guarded_by :
  guarded_by prot_c13 send_mutex (Conn 0 (item "M" 1)) = true /\ guarded_by prot_c13 send_mutex (Acc (smtp_obj 0) R) = true
  /\ guarded_by prot_c13 send_mutex (Conn 1 (item "M" 1)) = false.
Proof. vm_compute. repeat split. Qed.
Example C13_ex_dial_thread_no_rlock_sm : no_rlock send_mutex (dial_thread 1 1 2) = true.
Proof. vm_compute. reflexivity. Qed.
