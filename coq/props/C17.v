(* C17 — Every network operation is bounded by the configured timeout (partial: the theorem is about deadline
   arming; wall-clock behaviour is the Go runtime's and is measured by the harness).
   A read that finds no reply while the server holds the connection open blocks for ever (outcome Hang) unless a
   deadline is set on the connection, in which case it returns a timeout error.  Every public call of client.go /
   quicksend.go that does network I/O is one of the programs below: DialWithContext / DialToSMTPClientWithContext (dial,
   incl. refused dial attempts and the second attempt on the fallback port), DialAndSend(WithContext), QuickSend, Send /
   SendWithSMTPClient, Reset / ResetWithSMTPClient, Close / CloseWithSMTPClient.  The server may stall at any
   position (script decision DStall, muted replies, a stalled TLS handshake), for any script. *)
From Coq Require Import String.
From Verif Require Import Dial.
From VerifGen Require Import Gen.
From VerifProofs Require Import DialProofs DialTime.

(* T1: on the working tree the connection deadline is set before the greeting is read, checkConn extends it before
   the NOOP, CloseWithSMTPClient before the QUIT *)
Theorem C17_source_arms_deadline : src_fx_arm = true.
Proof. exact (eq_refl true). Qed.
Print Assumptions C17_source_arms_deadline.

(* T1: these are the only deadline calls of client.go and smtp/smtp.go, each with "now + configured timeout"
   (Gen.deadline_call_sites, Gen.deadline_args_are_timeout): removing, moving, duplicating with another value or
   clearing a deadline breaks this obligation or the one above *)
Theorem C17_source_deadline_sites : src_deadline_sites_ok = true.
Proof. exact (eq_refl true). Qed.
Print Assumptions C17_source_deadline_sites.

(* T1: the fallback dial gets the same deadline context as the primary dial (Gen.fallback_dial_same_ctx); with the flag
   false the model's fallback handshake is unbounded and C17_no_hang_dial fails *)
Theorem C17_source_fallback_dial_bounded : fb_same_ctx = true.
Proof. exact (eq_refl true). Qed.
Print Assumptions C17_source_fallback_dial_bounded.

Theorem C17_no_hang_dial : forall fuel cfg (s : srv), fx_arm cfg = true ->
  outcome_of (run (dial fuel cfg) (world0 s)) <> Hang.
Proof. exact C17_dial_no_hang_l. Qed.
Print Assumptions C17_no_hang_dial.

Theorem C17_no_hang_dial_and_send : forall fuel cfg msgs (s : srv), fx_arm cfg = true ->
  outcome_of (run (dial_and_send fuel cfg msgs) (world0 s)) <> Hang.
Proof. exact C17_dial_and_send_no_hang_l. Qed.
Print Assumptions C17_no_hang_dial_and_send.

(* QuickSend = NewClient(WithTLSPolicy(TLSOpportunistic)) + DialAndSend of one message *)
Theorem C17_no_hang_quick_send : forall fuel with_auth host fxc fxq fxs nrcpt (s : srv),
  outcome_of (run (quick_send fuel with_auth host fxc fxq true fxs nrcpt) (world0 s)) <> Hang.
Proof. exact C17_quick_send_no_hang_l. Qed.
Print Assumptions C17_no_hang_quick_send.

(* DialWithContext, Send, Reset, Close as separate calls on one client *)
Theorem C17_no_hang_session : forall fuel cfg msgs (s : srv), fx_arm cfg = true ->
  outcome_of (run (session fuel cfg msgs) (world0 s)) <> Hang.
Proof. exact C17_session_no_hang_l. Qed.
Print Assumptions C17_no_hang_session.

Theorem C17_no_hang_session2 : forall fuel cfg msgs (s : srv), fx_arm cfg = true ->
  outcome_of (run (session2 fuel cfg msgs) (world0 s)) <> Hang.
Proof. exact C17_session2_no_hang_l. Qed.
Print Assumptions C17_no_hang_session2.

(* the textproto pipeline of smtp.Client.cmd: T1 — no return between Text.StartResponse(id) and Text.EndResponse(id) —
   and the invariant: whatever program has run from a state satisfying J (deadline set, nothing blocked, pipeline in
   step), no command waits on an unfinished predecessor: every id handed out has had its EndResponse, unless its write
   failed, and then no later write can succeed *)
Theorem C17_source_cmd_ends_response : src_cmd_endresp = true.
Proof. exact (eq_refl true). Qed.
Print Assumptions C17_source_cmd_ends_response.

Theorem C17_pipeline_in_step : forall A (m : prog A) w, Jinv w -> PipeOk (snd (run m w)).
Proof. exact pipeline_in_step. Qed.
Print Assumptions C17_pipeline_in_step.

(* T1: every function of package smtp that locks a mutex (smtp.Client.mutex: cmd, dataCloser.Write / Close, Close, Quit,
   HasConnection, UpdateDeadline, ...) unlocks it on every return path, by defer or explicitly.  In the model a content
   write that fails while this is false leaves the mutex locked, and the next method that takes it (Close, cmd,
   UpdateDeadline) waits for ever; the invariant J says the mutex is never left locked *)
Theorem C17_source_mutex_released : src_mutex_released = true.
Proof. exact (eq_refl true). Qed.
Print Assumptions C17_source_mutex_released.

(* Send / Reset / Close on ANY state of a dialed client in which nothing blocked so far and whose pipeline is in step —
   whether or not a deadline is currently set *)
Theorem C17_no_hang_send : forall cfg msgs w, fx_arm cfg = true ->
  opened (w_conn w) = true -> hung (w_conn w) = false -> PipeOk w ->
  outcome_of (run (send_batch cfg msgs) w) <> Hang.
Proof. exact C17_send_no_hang_l. Qed.
Print Assumptions C17_no_hang_send.

Theorem C17_no_hang_reset : forall cfg w, fx_arm cfg = true ->
  opened (w_conn w) = true -> hung (w_conn w) = false -> PipeOk w ->
  outcome_of (run (reset_client cfg) w) <> Hang.
Proof. exact C17_reset_no_hang_l. Qed.
Print Assumptions C17_no_hang_reset.

Theorem C17_no_hang_close : forall cfg w, fx_arm cfg = true ->
  opened (w_conn w) = true -> hung (w_conn w) = false -> PipeOk w ->
  outcome_of (run (close_client cfg) w) <> Hang.
Proof. exact C17_close_no_hang_l. Qed.
Print Assumptions C17_no_hang_close.

(* before the repair (documentation): a server that never sends the greeting, or stalls at the first NOOP of Send *)
Definition cfg17 (fx : bool) : config :=
  mkCfg NoTLS false Gen.smtp_auth_noauth None (bs "mail.verif.test") false true true fx true false.

Example C17_before_fix_refuted_greeting :
  outcome_of (run (dial 8 (cfg17 false)) (world0 (srv0 [DStall] None [] [] HsOk))) = Hang.
Proof. vm_compute. reflexivity. Qed.

Example C17_before_fix_refuted_noop :
  outcome_of (run (dial_and_send 8 (cfg17 false) [1%nat]) (world0 (srv0 [DOk; DOk; DStall] None [] [] HsOk))) = Hang.
Proof. vm_compute. reflexivity. Qed.

(* what an early return that skips EndResponse does (documentation; [endresp] = false): the server is silent at the
   NOOP of checkConn, the NOOP times out, and the deferred QUIT of DialAndSend waits in StartResponse for ever *)
Example C17_skipped_endresponse_refuted :
  let w0 := mkW (srv0 [DOk; DOk; DStall] None [] [] HsOk) conn0 (cs0f false) [] clk0 in
  outcome_of (run (dial_and_send 8 (cfg17 true) [1%nat]) w0) = Hang.
Proof. vm_compute. reflexivity. Qed.

(* a return path of dataCloser.Write that skips the Unlock (documentation; [mu_ok] = false): the server answers 354 and
   stops reading, the content write times out, and the client.Close() that follows waits on the mutex for ever; with
   the mutex released the same server costs one timeout and the connection is closed *)
Example C17_leaked_mutex_refuted :
  let s := srv0 [DOk; DOk; DOk; DOk; DOk; DWrite false false] None [] [] HsOk in
  outcome_of (run (dial_and_send 8 (cfg17 true) [1%nat]) (mkW s conn0 (cs0g true false) [] clk0)) = Hang /\
  outcome_of (run (dial_and_send 8 (cfg17 true) [1%nat]) (mkW s conn0 (cs0g true true) [] clk0))
    = Returned (Err ESend, Some PhSend).
Proof. vm_compute. auto. Qed.

(* non-vacuity: with the repair the same servers produce a timeout error *)
Example C17_example_timeout :
  outcome_of (run (dial 8 (cfg17 true)) (world0 (srv0 [DStall] None [] [] HsOk))) = Returned (Err ETimeout).
Proof. vm_compute. reflexivity. Qed.

(* ---- the time budget: elapsed time in periods of the configured timeout ([periods] = deadlines waited out, [armings]
   = SetDeadline calls passed; the connect itself runs under the dial context: one further period) ---- *)

(* for EVERY program over the primitives and EVERY server: periods spent <= arming points passed *)
Theorem C17_time_budget : forall A (m : prog A) (s : srv), periods (run m (world0 s)) <= armings (run m (world0 s)).
Proof. exact C17_time_budget_any_l. Qed.
Print Assumptions C17_time_budget.

(* the arming points a public call passes do not depend on the number of recipients: DialWithContext 1;
   DialAndSend and Dial+Send+Reset+Close: one per message + 4 (dial, the connection check before the batch, one check
   after each delivered message, Close; the second, deferred CloseWithSMTPClient passes none once the first succeeded) --
   linear in the number of MESSAGES of a batch (checkConn re-arms after every delivered message), constant in the
   recipients of a message *)
Theorem C17_time_budget_dial : forall fuel cfg (s : srv),
  periods (run (dial fuel cfg) (world0 s)) <= armings (run (dial fuel cfg) (world0 s)) /\
  armings (run (dial fuel cfg) (world0 s)) <= 1.
Proof. exact C17_time_budget_dial_l. Qed.
Print Assumptions C17_time_budget_dial.

Theorem C17_time_budget_dial_and_send : forall fuel cfg msgs (s : srv),
  periods (run (dial_and_send fuel cfg msgs) (world0 s)) <= armings (run (dial_and_send fuel cfg msgs) (world0 s)) /\
  armings (run (dial_and_send fuel cfg msgs) (world0 s)) <= length msgs + 4.
Proof. exact C17_time_budget_dial_and_send_l. Qed.
Print Assumptions C17_time_budget_dial_and_send.

Theorem C17_time_budget_session : forall fuel cfg msgs (s : srv),
  periods (run (session fuel cfg msgs) (world0 s)) <= armings (run (session fuel cfg msgs) (world0 s)) /\
  armings (run (session fuel cfg msgs) (world0 s)) <= length msgs + 4.
Proof. exact C17_time_budget_session_l. Qed.
Print Assumptions C17_time_budget_session.

(* Send / Reset / Close from ANY state: arming points passed by the call: 1 + messages / 1 / 1 *)
Theorem C17_time_budget_send : forall cfg msgs w,
  arms (w_clk (snd (run (send_batch cfg msgs) w))) <= arms (w_clk w) + S (length msgs).
Proof. exact C17_time_budget_send_l. Qed.
Print Assumptions C17_time_budget_send.

Theorem C17_time_budget_reset : forall cfg w, arms (w_clk (snd (run (reset_client cfg) w))) <= arms (w_clk w) + 1.
Proof. exact C17_time_budget_reset_l. Qed.
Print Assumptions C17_time_budget_reset.

Theorem C17_time_budget_close : forall cfg w, arms (w_clk (snd (run (close_client cfg) w))) <= arms (w_clk w) + 1.
Proof. exact C17_time_budget_close_l. Qed.
Print Assumptions C17_time_budget_close.

(* T1: the inventory of deadline-(re)arming points of client.go and smtp/smtp.go -- every function that calls
   Set*Deadline / UpdateDeadline, with the order of that call among the function's protocol calls ("*" = inside a loop) --
   is exactly this list; a new arming point anywhere (e.g. inside the RCPT loop of sendSingleMsg) breaks the obligation *)
Theorem C17_source_deadline_inventory : Gen.deadline_inventory =
  [bs "mail.Client.CloseWithSMTPClient: HasConnection UpdateDeadline Quit HasConnection";
   bs "mail.Client.DialToSMTPClientWithContext: SetDeadline NewClient Hello";
   bs "mail.Client.checkConn: HasConnection UpdateDeadline Noop";
   bs "smtp.Client.UpdateDeadline: SetDeadline"].
Proof. exact (eq_refl _). Qed.
Print Assumptions C17_source_deadline_inventory.

(* a re-arming point inside the recipient loop (NOT what the source does): a server that goes silent at the first RCPT
   costs one period per recipient, against one for the whole loop *)
Example C17_rearming_in_rcpt_loop_refuted :
  let w1 := snd (run (dial 8 (cfg17 true)) (world0 (srv0 [DOk; DOk; DStall] None [] [] HsOk))) in
  spent (w_clk (snd (run (rcpts_rearming 10 false) w1))) = 10%nat /\
  spent (w_clk (snd (run (rcpts 10 false) w1))) = 1%nat.
Proof. vm_compute. auto. Qed.
