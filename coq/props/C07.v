(* C07 — TLS policy and credential confidentiality hold against any server (partial: X.509 validation and the TLS
   handshake are crypto/tls — oracle H-tls: the model only knows "the handshake completed / failed / stalled").
   Model: theories/Dial.v.  [clear_cmds (w_trace w)] = the command lines that left the process outside TLS;
   [world0 s] = a fresh client facing ANY server state s (reply script of any length, any capability lines, any
   handshake oracle). *)
From Coq Require Import String.
From Verif Require Import Dial DialCfg.
From VerifGen Require Import Gen.
From VerifProofs Require Import DialProofs DialPassword DialTable DialCfgProofs.

(* T1: defaults of NewClient re-read from the source: TLSMandatory; tls.Config{ServerName: host}, certificate
   verification not switched off; the 13 SMTPAuthType values *)
Theorem C07_source_defaults :
  Gen.default_tls_policy_mandatory = true /\ Gen.default_tlsconfig_servername_is_host = true /\
  Gen.default_tlsconfig_verifies = true /\ Gen.smtp_auth_type_count = 13%N.
Proof. exact (conj eq_refl (conj eq_refl (conj eq_refl eq_refl))). Qed.
Print Assumptions C07_source_defaults.

(* T1: in DialToSMTPClientWithContext the fallback dial is the primary dial up to network / address: the same function
   value (for implicit TLS the tls.Dialer) and the same context (the one carrying the connTimeout deadline).  The
   model's [connect] dials the fallback without TLS / without a deadline when these flags are false, and the proofs of
   C07_implicit and C17_no_hang_* then fail *)
Theorem C07_source_fallback_dial_same_as_primary : src_fallback_same = true.
Proof. exact (eq_refl true). Qed.
Print Assumptions C07_source_fallback_dial_same_as_primary.

(* mandatory TLS: whatever the server advertises or replies, only EHLO / HELO / STARTTLS / QUIT leave the process
   outside TLS — during the dial and during a complete DialAndSend *)
Theorem C07_mandatory : forall fuel cfg (s : srv) v,
  c_policy cfg = Mandatory -> c_ssl cfg = false ->
  In v (clear_cmds (w_trace (snd (run (dial fuel cfg) (world0 s))))) -> handshake_free_verb v = true.
Proof. exact C07_mandatory_l. Qed.
Print Assumptions C07_mandatory.

Theorem C07_mandatory_dial_and_send : forall fuel cfg msgs (s : srv) v,
  c_policy cfg = Mandatory -> c_ssl cfg = false ->
  In v (clear_cmds (w_trace (snd (run (dial_and_send fuel cfg msgs) (world0 s))))) -> handshake_free_verb v = true.
Proof. exact C07_mandatory_send_l. Qed.
Print Assumptions C07_mandatory_dial_and_send.

(* ... and a successful dial under mandatory TLS ends on a connection whose handshake oracle said "completed" *)
Theorem C07_mandatory_success_is_tls : forall fuel cfg (s : srv) u w',
  c_policy cfg = Mandatory -> c_ssl cfg = false ->
  run (dial fuel cfg) (world0 s) = (Ok u, w') -> ctls (w_conn w') = true.
Proof. exact C07_mandatory_ok_tls_l. Qed.
Print Assumptions C07_mandatory_success_is_tls.

(* implicit TLS: nothing at all in clear *)
Theorem C07_implicit : forall fuel cfg msgs (s : srv), c_ssl cfg = true ->
  clear_cmds (w_trace (snd (run (dial fuel cfg) (world0 s)))) = [] /\
  clear_cmds (w_trace (snd (run (dial_and_send fuel cfg msgs) (world0 s)))) = [].
Proof. exact C07_implicit_l. Qed.
Print Assumptions C07_implicit.

(* auto-discovery on an unencrypted connection never selects PLAIN or LOGIN — for ALL advertised lists; rests on the
   unencrypted preference list re-read from client.go (putting PLAIN or LOGIN into it breaks this proof) *)
Theorem C07_autodiscover : forall supported t,
  auto_discover supported false = Some t ->
  bytes_eqb t Gen.smtp_auth_plain = false /\ bytes_eqb t Gen.smtp_auth_login = false /\
  bytes_eqb t Gen.smtp_auth_plain_noenc = false /\ bytes_eqb t Gen.smtp_auth_login_noenc = false.
Proof. exact C07_autodiscover_l. Qed.
Print Assumptions C07_autodiscover.

(* password confinement, mechanism level: PLAIN and LOGIN (strict variants) refuse to start without TLS on a
   non-localhost server; CRAM-MD5, XOAUTH2 and SCRAM never emit a payload that is the password *)
Theorem C07_password_mechs_refuse : forall a,
  a = plain_impl false \/ a = login_impl false -> a_start a false false = SErr EUnenc.
Proof. exact password_mechs_refuse. Qed.
Print Assumptions C07_password_mechs_refuse.

Theorem C07_other_mechs_never_password : forall a,
  a = cram_impl \/ a = xoauth2_impl \/ (exists n, a = scram_impl n) -> never_pass a.
Proof. exact other_mechs_never_pass. Qed.
Print Assumptions C07_other_mechs_never_password.

(* password confinement, the complete dial: for EVERY configuration without a caller-supplied mechanism (any TLS
   policy, implicit TLS or not, any auth type string incl. the 13 SMTPAuthType values and AUTODISCOVER, any host, any
   state of the three repairs) and EVERY server (reply script of any length, ANY advertised capability / AUTH lists,
   any handshake outcome, muted or not): a command that reveals the password — the PLAIN initial response, the second
   answer of LOGIN ([reveals_password]) — is among the commands sent outside TLS only if the auth type is a *-NOENC type
   or the host is a localhost name.  Invariant: "no password-revealing command emitted while tls = false". *)
Theorem C07_password_confined : forall fuel cfg (s : srv) v,
  c_custom cfg = None ->
  In v (clear_cmds (w_trace (snd (run (dial fuel cfg) (world0 s))))) ->
  reveals_password v = true ->
  noenc_type (c_auth cfg) = true \/ Dial.is_localhost (c_host cfg) = true.
Proof. exact C07_password_confined_l. Qed.
Print Assumptions C07_password_confined.

(* T1: smtp.isLocalhost, translated from the AST of smtp/auth.go (Gen.is_localhost; any shape other than a disjunction
   of equalities with string literals is untranslatable and emitted as "true"), is EXACTLY membership in the three names;
   the model applies that Gen term to the host bytes of the configuration *)
Theorem C07_source_is_localhost : forall n,
  Dial.is_localhost n = existsb (bytes_eqb n) [bs "localhost"; bs "127.0.0.1"; bs "::1"].
Proof. exact source_is_localhost_l. Qed.
Print Assumptions C07_source_is_localhost.

(* ... so the exemption holds only if the host string is literally one of them *)
Theorem C07_password_confined_names : forall fuel cfg (s : srv) v,
  c_custom cfg = None ->
  In v (clear_cmds (w_trace (snd (run (dial fuel cfg) (world0 s))))) ->
  reveals_password v = true ->
  noenc_type (c_auth cfg) = true \/
  c_host cfg = bs "localhost" \/ c_host cfg = bs "127.0.0.1" \/ c_host cfg = bs "::1".
Proof. exact C07_password_confined_names_l. Qed.
Print Assumptions C07_password_confined_names.

Theorem C07_password_confined_dial_and_send : forall fuel cfg msgs (s : srv) v,
  c_custom cfg = None ->
  In v (clear_cmds (w_trace (snd (run (dial_and_send fuel cfg msgs) (world0 s))))) ->
  reveals_password v = true ->
  noenc_type (c_auth cfg) = true \/ Dial.is_localhost (c_host cfg) = true.
Proof. exact C07_password_confined_send_l. Qed.
Print Assumptions C07_password_confined_dial_and_send.

(* cross-check (T2 inside Coq): the model's decision on the complete finite configuration table of the property's
   quantifier satisfies all of the above at once (18 928 rows, vm_compute); the harness dials the same kind of table
   against the real client and compares every row with the extracted model *)
Theorem C07_table_cross_check : forall row, In row tab_rows -> row_ok row = true.
Proof. exact C07_table_l. Qed.
Print Assumptions C07_table_cross_check.

Theorem C07_table_size : N.of_nat (length tab_rows) = 18928%N.
Proof. exact table_rows_count. Qed.
Print Assumptions C07_table_size.

(* non-vacuity *)
Example C07_example_mandatory_plain :
  let s := srv0 [] None [bs "STARTTLS"; bs "AUTH PLAIN LOGIN"] [bs "AUTH PLAIN LOGIN"] HsOk in
  let cfg := mkCfg Mandatory false Gen.smtp_auth_plain None (bs "mail.verif.test") false true true true true false in
  clear_cmds (w_trace (snd (run (dial 8 cfg) (world0 s)))) = [VStartTLS; VEhlo] /\
  last_cmd (w_trace (snd (run (dial 8 cfg) (world0 s)))) = Some (VAuth (bs "PLAIN") (Some TPass)).
Proof. vm_compute. auto. Qed.

Example C07_example_notls_plain_refused :
  let s := srv0 [] None [bs "AUTH PLAIN LOGIN"] [] HsOk in
  let cfg := mkCfg NoTLS false Gen.smtp_auth_plain None (bs "mail.verif.test") false true true true true false in
  fst (run (dial 8 cfg) (world0 s)) = Err EUnenc /\
  clear_cmds (w_trace (snd (run (dial 8 cfg) (world0 s)))) = [VQuit; VEhlo].
Proof. vm_compute. auto. Qed.

(* ---- sequences of dials of one mail.Client (re-dial after Close, DialAndSend twice, a setter in between) ---- *)

(* T1: no function of the dial path (DialToSMTPClientWithContext, tls, auth, authTypeAutoDiscover, checkConn, ...) assigns
   a field of the Client (Gen.client_all_writes, the inventory of all assignments to Client fields by any method): the
   dial remembers nothing, in particular authTypeAutoDiscover is a pure function of (advertised list, isEnc) *)
Theorem C07_source_dial_path_writes_nothing : dial_path_writes_nothing = true.
Proof. exact (eq_refl true). Qed.
Print Assumptions C07_source_dial_path_writes_nothing.

(* T1: DialWithContext reaches DialToSMTPClientWithContext without a return before it: every call dials a NEW connection
   under the configuration in force at that call (what [dial_sequence] assumes) *)
Theorem C07_source_dial_always_dials : Gen.dial_always_dials = true.
Proof. exact (eq_refl true). Qed.
Print Assumptions C07_source_dial_always_dials.

(* memoryless: the outcome of the k-th dial of a sequence is a function of the k-th configuration and server only *)
Theorem C07_autodiscover_memoryless : forall fuel l k cfg s,
  nth_error l k = Some (cfg, s) ->
  nth_error (dial_sequence fuel l) k = Some (run (dial fuel cfg) (world0 s)).
Proof. exact dial_sequence_nth_l. Qed.
Print Assumptions C07_autodiscover_memoryless.

(* so C07_password_confined and C07_mandatory (and with them C07_autodiscover, which is about the pure function
   auto_discover) hold for every dial of every sequence *)
Theorem C07_password_confined_sequence : forall fuel l x v,
  In x (dial_sequence fuel l) ->
  In v (clear_cmds (w_trace (snd x))) -> reveals_password v = true ->
  exists cfg s, In (cfg, s) l /\
    (c_custom cfg = None -> noenc_type (c_auth cfg) = true \/ Dial.is_localhost (c_host cfg) = true).
Proof. exact C07_sequence_password_confined_l. Qed.
Print Assumptions C07_password_confined_sequence.

Theorem C07_mandatory_sequence : forall fuel l x v,
  In x (dial_sequence fuel l) -> In v (clear_cmds (w_trace (snd x))) ->
  exists cfg s, In (cfg, s) l /\ (c_policy cfg = Mandatory -> c_ssl cfg = false -> handshake_free_verb v = true).
Proof. exact C07_sequence_mandatory_l. Qed.
Print Assumptions C07_mandatory_sequence.

(* ---- the configuration path: which policy / ssl flag is in force when the dial starts ---- *)

(* T1: every policy / ssl setter and option of client.go assigns its field as its last statement without an earlier
   return; the port and fallback-port side effects sit under "if c.port == DefaultPort" *)
Theorem C07_source_config_setters : Gen.cfg_setters_unconditional = true.
Proof. exact (eq_refl true). Qed.
Print Assumptions C07_source_config_setters.

(* for EVERY sequence of configuration calls (WithTLSPolicy / SetTLSPolicy, WithTLSPortPolicy / SetTLSPortPolicy,
   WithSSL / SetSSL, WithSSLPort / SetSSLPort, WithPort) the policy in force is the one of the last policy-setting
   call, whatever port / ssl calls precede or follow; likewise the ssl flag *)
Theorem C07_config_policy_last : forall l, cc_policy (apply_cfg l) = last_of policy_of_call default_policy l.
Proof. exact cfg_policy_last_l. Qed.
Print Assumptions C07_config_policy_last.

Theorem C07_config_ssl_last : forall l, cc_ssl (apply_cfg l) = last_of ssl_of_call false l.
Proof. exact cfg_ssl_last_l. Qed.
Print Assumptions C07_config_ssl_last.

Theorem C07_config_policy_port_independent : forall l,
  cc_policy (apply_cfg l) =
  cc_policy (apply_cfg (filter (fun c => match policy_of_call c with Some _ => true | None => false end) l)).
Proof. exact cfg_policy_port_independent_l. Qed.
Print Assumptions C07_config_policy_port_independent.

(* ... and C07_mandatory / C07_implicit hold for the client such a path produces *)
Theorem C07_mandatory_config_path : forall l auth custom host nonoop fxc fxq fxa fxs fuel msgs (s : srv) v,
  last_of policy_of_call default_policy l = Mandatory ->
  last_of ssl_of_call false l = false ->
  In v (clear_cmds (w_trace (snd (run (dial_and_send fuel (cfg_of l auth custom host nonoop fxc fxq fxa fxs) msgs) (world0 s))))) ->
  handshake_free_verb v = true.
Proof. exact C07_mandatory_config_path_l. Qed.
Print Assumptions C07_mandatory_config_path.

Theorem C07_implicit_config_path : forall l auth custom host nonoop fxc fxq fxa fxs fuel msgs (s : srv),
  last_of ssl_of_call false l = true ->
  clear_cmds (w_trace (snd (run (dial_and_send fuel (cfg_of l auth custom host nonoop fxc fxq fxa fxs) msgs) (world0 s)))) = [].
Proof. exact C07_implicit_config_path_l. Qed.
Print Assumptions C07_implicit_config_path.

Example C07_example_config_path :
  let l := [CPort 2525; CTLSPortPolicy NoTLS; CSSLPort false true; CTLSPortPolicy Mandatory] in
  apply_cfg l = mkCC Mandatory 2525 0 false /\
  apply_cfg [CTLSPortPolicy Opportunistic] = mkCC Opportunistic 587 25 false /\
  apply_cfg [CSSLPort true true; CTLSPolicy Mandatory] = mkCC Mandatory 465 25 true.
Proof. vm_compute. auto. Qed.

(* the hypotheses of C07_password_confined are met by non-trivial runs: PLAIN after a completed STARTTLS handshake puts
   the password on the wire — inside TLS; the LOGIN exchange likewise (second answer) *)
Example C07_example_password_inside_tls :
  let s := srv0 [] None [bs "STARTTLS"; bs "AUTH PLAIN LOGIN"] [bs "AUTH PLAIN LOGIN"] HsOk in
  let cfg := mkCfg Opportunistic false Gen.smtp_auth_login None (bs "mail.verif.test") false true true true true false in
  c_custom cfg = None /\ noenc_type (c_auth cfg) = false /\ Dial.is_localhost (c_host cfg) = false /\
  fst (run (dial 10 cfg) (world0 s)) = Ok tt /\
  In (ECmd (VResp TPass) false) (w_trace (snd (run (dial 10 cfg) (world0 s)))) /\
  existsb reveals_password (clear_cmds (w_trace (snd (run (dial 10 cfg) (world0 s))))) = false.
Proof. vm_compute. intuition. Qed.

(* the exemptions are real: with a *-NOENC type, or towards a localhost name, the password does go out in clear *)
Example C07_exemption_noenc_refuted :
  exists cfg s v, c_custom cfg = None /\ Dial.is_localhost (c_host cfg) = false /\
    In v (clear_cmds (w_trace (snd (run (dial 10 cfg) (world0 s))))) /\ reveals_password v = true.
Proof.
  exists (mkCfg NoTLS false Gen.smtp_auth_plain_noenc None (bs "mail.verif.test") false true true true true false).
  exists (srv0 [] None [bs "AUTH PLAIN LOGIN"] [] HsOk).
  exists (VAuth (bs "PLAIN") (Some TPass)). vm_compute. intuition.
Qed.

Example C07_exemption_localhost_refuted :
  exists cfg s v, c_custom cfg = None /\ noenc_type (c_auth cfg) = false /\
    In v (clear_cmds (w_trace (snd (run (dial 10 cfg) (world0 s))))) /\ reveals_password v = true.
Proof.
  exists (mkCfg NoTLS false Gen.smtp_auth_login None (bs "localhost") false true true true true false).
  exists (srv0 [] None [bs "AUTH PLAIN LOGIN"] [] HsOk).
  exists (VResp TPass). vm_compute. intuition.
Qed.
