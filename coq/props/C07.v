(* C07 — TLS policy and credential confidentiality hold against any server (partial: X.509 validation and the TLS
   handshake are crypto/tls — oracle H-tls: the model only knows "the handshake completed / failed / stalled").
   Model: theories/Dial.v.  [clear_cmds (w_trace w)] = the command lines that left the process outside TLS;
   [world0 s] = a fresh client facing ANY server state s (reply script of any length, any capability lines, any
   handshake oracle). *)
From Coq Require Import String.
From Verif Require Import Dial.
From VerifGen Require Import Gen.
From VerifProofs Require Import DialProofs DialTable.

(* T1: defaults of NewClient re-read from the source: TLSMandatory; tls.Config{ServerName: host}, certificate
   verification not switched off; the 13 SMTPAuthType values *)
Theorem C07_source_defaults :
  Gen.default_tls_policy_mandatory = true /\ Gen.default_tlsconfig_servername_is_host = true /\
  Gen.default_tlsconfig_verifies = true /\ Gen.smtp_auth_type_count = 13%N.
Proof. exact (conj eq_refl (conj eq_refl (conj eq_refl eq_refl))). Qed.
Print Assumptions C07_source_defaults.

(* mandatory TLS: whatever the server advertises or replies, only EHLO / HELO / STARTTLS / QUIT leave the process
   outside TLS — during the dial and during a complete DialAndSend *)
Theorem C07_mandatory : forall fuel cfg (s : srv) v,
  c_policy cfg = Mandatory -> c_ssl cfg = false ->
  In v (clear_cmds (w_trace (snd (run (dial fuel cfg) (world0 s))))) -> handshake_free_verb v = true.
Proof. exact C07_mandatory_l. Qed.
Print Assumptions C07_mandatory.

Theorem C07_mandatory_dial_and_send : forall fuel cfg msgs (s : srv) v,
  c_policy cfg = Mandatory -> c_ssl cfg = false ->
  In v (clear_cmds (w_trace (snd (run (dial_and_send fuel cfg msgs) (world0 s))))) -> handshake_free_verb v = true.
Proof. exact C07_mandatory_send_l. Qed.
Print Assumptions C07_mandatory_dial_and_send.

(* ... and a successful dial under mandatory TLS ends on a connection whose handshake oracle said "completed" *)
Theorem C07_mandatory_success_is_tls : forall fuel cfg (s : srv) u w',
  c_policy cfg = Mandatory -> c_ssl cfg = false ->
  run (dial fuel cfg) (world0 s) = (Ok u, w') -> ctls (w_conn w') = true.
Proof. exact C07_mandatory_ok_tls_l. Qed.
Print Assumptions C07_mandatory_success_is_tls.

(* implicit TLS: nothing at all in clear *)
Theorem C07_implicit : forall fuel cfg msgs (s : srv), c_ssl cfg = true ->
  clear_cmds (w_trace (snd (run (dial fuel cfg) (world0 s)))) = [] /\
  clear_cmds (w_trace (snd (run (dial_and_send fuel cfg msgs) (world0 s)))) = [].
Proof. exact C07_implicit_l. Qed.
Print Assumptions C07_implicit.

(* auto-discovery on an unencrypted connection never selects PLAIN or LOGIN — for ALL advertised lists; rests on the
   unencrypted preference list re-read from client.go (putting PLAIN or LOGIN into it breaks this proof) *)
Theorem C07_autodiscover : forall supported t,
  auto_discover supported false = Some t ->
  bytes_eqb t Gen.smtp_auth_plain = false /\ bytes_eqb t Gen.smtp_auth_login = false /\
  bytes_eqb t Gen.smtp_auth_plain_noenc = false /\ bytes_eqb t Gen.smtp_auth_login_noenc = false.
Proof. exact C07_autodiscover_l. Qed.
Print Assumptions C07_autodiscover.

(* password confinement, mechanism level: PLAIN and LOGIN (strict variants) refuse to start without TLS on a
   non-localhost server; CRAM-MD5, XOAUTH2 and SCRAM never emit a payload that is the password *)
Theorem C07_password_mechs_refuse : forall a,
  a = plain_impl false \/ a = login_impl false -> a_start a false false = SErr EUnenc.
Proof. exact password_mechs_refuse. Qed.
Print Assumptions C07_password_mechs_refuse.

Theorem C07_other_mechs_never_password : forall a,
  a = cram_impl \/ a = xoauth2_impl \/ (exists n, a = scram_impl n) -> never_pass a.
Proof. exact other_mechs_never_pass. Qed.
Print Assumptions C07_other_mechs_never_password.

(* password confinement over the COMPLETE finite configuration table of the property's quantifier (T2):
   {mandatory, opportunistic, none, implicit} x 13 auth types x {localhost, other host} x {STARTTLS not advertised,
   advertised with reply 220 + handshake ok / failed / stalled, reply 4yz / 5yz / garbage} x {AUTH accepted, rejected}
   x 13 advertised AUTH lists (18 928 rows): on every row no cleartext command reveals the password unless the type is
   *-NOENC or the host is a localhost name; mandatory rows only show EHLO/HELO/STARTTLS/QUIT in clear; implicit rows
   nothing; auto-discovery rows no AUTH PLAIN / AUTH LOGIN in clear; no row hangs or leaves a connection open after an
   error.  PARTIAL with respect to "any advertised AUTH list": the lists are the 13-element family (the three theorems
   above hold for all lists). *)
Theorem C07_password_confined_partial : forall row, In row tab_rows -> row_ok row = true.
Proof. exact C07_table_l. Qed.
Print Assumptions C07_password_confined_partial.

Theorem C07_table_size : N.of_nat (length tab_rows) = 18928%N.
Proof. exact table_rows_count. Qed.
Print Assumptions C07_table_size.

(* non-vacuity *)
Example C07_example_mandatory_plain :
  let s := srv0 [] None [bs "STARTTLS"; bs "AUTH PLAIN LOGIN"] [bs "AUTH PLAIN LOGIN"] HsOk in
  let cfg := mkCfg Mandatory false Gen.smtp_auth_plain None (bs "mail.verif.test") false true true true true in
  clear_cmds (w_trace (snd (run (dial 8 cfg) (world0 s)))) = [VStartTLS; VEhlo] /\
  last_cmd (w_trace (snd (run (dial 8 cfg) (world0 s)))) = Some (VAuth (bs "PLAIN") (Some TPass)).
Proof. vm_compute. auto. Qed.

Example C07_example_notls_plain_refused :
  let s := srv0 [] None [bs "AUTH PLAIN LOGIN"] [] HsOk in
  let cfg := mkCfg NoTLS false Gen.smtp_auth_plain None (bs "mail.verif.test") false true true true true in
  fst (run (dial 8 cfg) (world0 s)) = Err EUnenc /\
  clear_cmds (w_trace (snd (run (dial 8 cfg) (world0 s)))) = [VQuit; VEhlo].
Proof. vm_compute. auto. Qed.
