(* C06 — Recipients are exactly To+Cc+Bcc, and Bcc stays hidden.
   Property theorems only: each is closed by [exact <lemma>] and followed by Print Assumptions.
   net/mail.ParseAddress, Address.String and Msg.encodeString are arguments (oracles); the hypotheses
   about them (H-addr) are stated in the theorems that need them and validated by the harness. *)
From Coq Require Import String.
From Verif Require Import Bytes HeaderFold MsgAddr.
From VerifGen Require Import Gen.
From VerifProofs Require Import MsgAddrProofs AddrFieldProofs.
Open Scope N_scope.

(* source-derived: GetRecipients ranges over To, Cc, Bcc (in this order); writeMsg renders To, Cc,
   Reply-To — Bcc is in none of the rendered keys; the public setters delegate as modelled *)
Theorem C06_source_recipient_headers : recipient_headers = [hdr_to; hdr_cc; hdr_bcc].
Proof. exact gen_recipient_headers. Qed.
Print Assumptions C06_source_recipient_headers.

Theorem C06_source_bcc_not_rendered :
  existsb (bytes_eqb hdr_bcc) (hdr_from :: hdr_envelope_from :: render_addr_headers) = false.
Proof. exact gen_bcc_not_rendered. Qed.
Print Assumptions C06_source_bcc_not_rendered.

Theorem C06_source_setters : addr_setters = expected_setters.
Proof. exact gen_addr_setters. Qed.
Print Assumptions C06_source_setters.

(* repaired tree (proposed_fixes/C02-format-display-name.diff): all seven ...Format setters escape the display
   name with quotedPairs before interpolating it into the format; quotedPairs' replacement pairs *)
Theorem C06_source_format_escaped :
  forallb (fun x => snd x) addr_format_escaped = true /\ length addr_format_escaped = 7%nat /\
  quoted_pairs_literals = [[92; 34]; [92]; [92; 92]; [34]; [92; 34]].
Proof. exact (conj (f_equal (forallb (fun x => snd x)) gen_format_escaped) (conj (f_equal (@length _) gen_format_escaped) gen_quoted_pairs_literals)). Qed.
Print Assumptions C06_source_format_escaped.

(* For EVERY display name made of bytes an RFC 5322 quoted-string can hold (TAB, SP, printable ASCII incl.
   backslash and DQUOTE, UTF-8 non-ASCII) and every address string: the RFC 5322 quoted-string reader applied
   to what a ...Format setter builds returns exactly the name argument (escape / unescape round trip). *)
Theorem C06_format_name_roundtrip : forall name address, forallb qs_byte name = true ->
  read_display_name (format_addr name address) = Some name.
Proof. exact format_name_roundtrip. Qed.
Print Assumptions C06_format_name_roundtrip.

(* ... and a name with any other byte (CR, LF, NUL, the other C0 controls except TAB, DEL) is no quoted-string:
   the call is refused (net/mail rejects exactly these bytes, too — validated by the harness) *)
Theorem C06_format_name_rejected : forall name address, forallb qs_byte name = false ->
  read_display_name (format_addr name address) = None.
Proof. exact format_name_rejected. Qed.
Print Assumptions C06_format_name_rejected.

(* Hence after ANY call sequence a successful Add...Format(name, address) appends one entry whose stored display
   name is the name argument, and FromFormat / EnvelopeFromFormat / ReplyToFormat leave exactly one entry with it.
   H-addr: Parse(String a) = a;  H-name: on DQUOTE..DQUOTE SP LESS-THAN.. the oracle's Name is what the RFC 5322 reader reads. *)
Theorem C06_format_call_stores_name : forall parse addr_string encode_string,
  (forall s a, parse s = Some a -> q_backslash_name (a_name a) = false -> parse (addr_string a) = Some a) ->
  (forall s a n, parse s = Some a -> read_display_name s = Some n -> a_name a = n) ->
  forall calls name address, Forall (clean_call parse encode_string) calls -> forallb qs_byte name = true ->
  let m := run parse addr_string encode_string calls [] in
  (forall s, slot_hdr s <> hdr_from ->
     snd (apply_call parse addr_string encode_string m (CAddFormat s name address)) = true ->
     exists a, lookup (fst (apply_call parse addr_string encode_string m (CAddFormat s name address))) (slot_hdr s)
                 = lookup m (slot_hdr s) ++ [a] /\ a_name a = name) /\
  (forall c, c = CFromFormat name address \/ c = CEnvFromFormat name address \/ c = CReplyToFormat name address ->
     snd (apply_call parse addr_string encode_string m c) = true ->
     exists a, lookup (fst (apply_call parse addr_string encode_string m c)) (call_key c) = [a] /\ a_name a = name).
Proof. exact format_call_stores_name. Qed.
Print Assumptions C06_format_call_stores_name.

(* the unrepaired tree, kept as documentation: FromFormat(`C:\dir\file`, ..) denotes "C:dirfile", a DQUOTE ends the name *)
Theorem C06_format_name_before_fix_refuted :
  read_display_name (format_addr_old (bs "C:\dir\file") (bs "a@x.test")) = Some (bs "C:dirfile") /\
  read_display_name (format_addr_old (bs "say ""hi""") (bs "a@x.test")) = None.
Proof. exact format_name_before_fix_refuted. Qed.
Print Assumptions C06_format_name_before_fix_refuted.

(* After ANY sequence of address-setter calls: the envelope recipients are the addresses of To, Cc, Bcc
   in that order, one per stored occurrence; the envelope sender is the envelope-from if set, else From. *)
Theorem C06_envelope : forall parse addr_string encode_string (calls : list call) (m0 : amap),
  let m := run parse addr_string encode_string calls m0 in
  get_recipients m =
    map a_addr (lookup m hdr_to) ++ map a_addr (lookup m hdr_cc) ++ map a_addr (lookup m hdr_bcc)
  /\ get_sender m =
    match lookup m hdr_envelope_from with
    | a :: _ => Some (a_addr a)
    | [] => match lookup m hdr_from with a :: _ => Some (a_addr a) | [] => None end
    end.
Proof. exact envelope_all_sequences. Qed.
Print Assumptions C06_envelope.

(* From never holds more than one address *)
Theorem C06_from_single : forall parse addr_string encode_string calls m0,
  (length (lookup m0 hdr_from) <= 1)%nat ->
  (length (lookup (run parse addr_string encode_string calls m0) hdr_from) <= 1)%nat.
Proof. exact from_at_most_one. Qed.
Print Assumptions C06_from_single.

(* H-addr (Parse (String a) = a) is FALSE of net/mail (go1.23.5) for display names of the class q_backslash_name
   (needs RFC 2047 encoding, holds a backslash, none of the characters that select the B encoding): Address.String
   Q-encodes the name with the backslash raw inside the encoded-word, which ParseAddress rejects.  The oracle is not
   Gallina; the witness values of the real functions are reproduced by the harness on every run (corpus case w8,
   known finding dispname-backslash-q-encoded-word: a later AddTo/AddCc/AddBcc on that header fails and the rendered
   field cannot be read back by net/mail).  The theorems below that use H-addr therefore assume it only outside the
   class and quantify over call sequences none of whose arguments denotes such a name ([clean_call]). *)
Theorem C06_haddr_backslash_q_refuted :
  q_backslash_name wit_name = true /\ read_display_name wit_in = Some wit_name /\
  exists a, wit_parse wit_in = Some a /\ a_name a = wit_name /\ wit_parse (wit_string a) <> Some a.
Proof. exact haddr_backslash_q_refuted. Qed.
Print Assumptions C06_haddr_backslash_q_refuted.

(* The stored lists are what the reference semantics says for every call sequence (To replaces, AddTo
   appends exactly one, IgnoreInvalid keeps the parsable ones, a failing setter changes nothing, From
   keeps the first) — although addAddr re-serialises and re-parses everything stored.
   Hypothesis H-addr (validated on every generated address): Parse (String a) = a for parsed a. *)
Theorem C06_setter_semantics : forall parse addr_string encode_string,
  (forall s a, parse s = Some a -> q_backslash_name (a_name a) = false -> parse (addr_string a) = Some a) ->
  forall calls, Forall (clean_call parse encode_string) calls ->
  run parse addr_string encode_string calls [] = spec_run parse addr_string encode_string calls [].
Proof. exact setter_semantics. Qed.
Print Assumptions C06_setter_semantics.

Theorem C06_add_one_per_call : forall parse addr_string encode_string,
  (forall s a, parse s = Some a -> q_backslash_name (a_name a) = false -> parse (addr_string a) = Some a) ->
  forall calls s v a, Forall (clean_call parse encode_string) calls -> parse v = Some a -> slot_hdr s <> hdr_from ->
  let m := run parse addr_string encode_string calls [] in
  lookup (fst (apply_call parse addr_string encode_string m (CAdd s v))) (slot_hdr s) = lookup m (slot_hdr s) ++ [a]
  /\ snd (apply_call parse addr_string encode_string m (CAdd s v)) = true.
Proof. exact add_appends_one. Qed.
Print Assumptions C06_add_one_per_call.

(* ... for AddTo/AddCc/AddBcc and the ...Format variants alike, field by field: display NAMES and addresses
   already stored are unchanged, the new entry carries the parsed name and address, no other header changes *)
Theorem C06_add_keeps_names_and_addresses : forall parse addr_string encode_string,
  (forall s a, parse s = Some a -> q_backslash_name (a_name a) = false -> parse (addr_string a) = Some a) ->
  forall calls s c v a, Forall (clean_call parse encode_string) calls ->
  (c = CAdd s v \/ exists n ad, c = CAddFormat s n ad /\ v = format_addr n ad) ->
  parse v = Some a -> slot_hdr s <> hdr_from ->
  let m := run parse addr_string encode_string calls [] in
  let m' := fst (apply_call parse addr_string encode_string m c) in
  map a_name (lookup m' (slot_hdr s)) = map a_name (lookup m (slot_hdr s)) ++ [a_name a]
  /\ map a_addr (lookup m' (slot_hdr s)) = map a_addr (lookup m (slot_hdr s)) ++ [a_addr a]
  /\ (forall k, k <> slot_hdr s -> lookup m' k = lookup m k)
  /\ snd (apply_call parse addr_string encode_string m c) = true.
Proof. exact add_keeps_names_and_addresses. Qed.
Print Assumptions C06_add_keeps_names_and_addresses.

(* Msg.Reset.  Source-derived: Reset assigns a freshly made map to m.addrHeader (top-level statement of its body). *)
Theorem C06_source_reset_reallocates : reset_reallocates_addr_header = true.
Proof. exact gen_reset_reallocates. Qed.
Print Assumptions C06_source_reset_reallocates.

(* For ALL histories: whatever was called before a Reset — on every header incl. EnvelopeFrom —, the state after the
   history is the state after the calls that follow the last Reset applied to the empty Msg; directly after a Reset all
   six lists are empty, GetSender has no address, GetRecipients none, nothing is rendered. *)
Theorem C06_reset_forgets : forall parse addr_string encode_string pre post m0,
  run parse addr_string encode_string (pre ++ CReset :: post) m0 = run parse addr_string encode_string post [].
Proof. exact reset_forgets. Qed.
Print Assumptions C06_reset_forgets.

Theorem C06_reset_clears : forall parse addr_string encode_string pre m0,
  let m := run parse addr_string encode_string (pre ++ [CReset]) m0 in
  (forall k, lookup m k = []) /\ get_sender m = None /\ get_recipients m = [] /\ render_addr addr_string m = [].
Proof. exact reset_clears. Qed.
Print Assumptions C06_reset_clears.

(* Bcc non-interference: the rendered address fields do not depend on the Bcc list at all ... *)
Theorem C06_bcc_noninterference : forall addr_string (m : amap) (l : list addr),
  render_addr addr_string (set m hdr_bcc l) = render_addr addr_string m.
Proof. exact bcc_noninterference. Qed.
Print Assumptions C06_bcc_noninterference.

(* ... nor on any call that writes Bcc: deleting them all from the program changes no rendered byte *)
Theorem C06_bcc_calls_noninterference : forall parse addr_string encode_string calls m0,
  render_addr addr_string (run parse addr_string encode_string calls m0) =
  render_addr addr_string (run parse addr_string encode_string (filter not_bcc_call calls) m0).
Proof. exact bcc_calls_noninterference. Qed.
Print Assumptions C06_bcc_calls_noninterference.

(* From (or the envelope-from when no From is set), To, Cc, Reply-To: an independent reader of the
   rendered bytes finds each field exactly once when its list is non-empty, never otherwise, in this
   order and nothing else (no Bcc, no EnvelopeFrom field) — for every state, hence after every call
   sequence.  Hypothesis H-addr: Address.String() contains no CR / LF. *)
Theorem C06_once_each : forall addr_string,
  (forall a, forallb no_crlf_byte (addr_string a) = true) ->
  forall m : amap,
  field_names (render_addr addr_string m) =
    present (render_from_list m) hdr_from ++ present (lookup m hdr_to) hdr_to ++
    present (lookup m hdr_cc) hdr_cc ++ present (lookup m hdr_reply_to) hdr_reply_to.
Proof. exact once_each. Qed.
Print Assumptions C06_once_each.

(* non-vacuity: a concrete oracle and call sequence *)
Definition ex_parse (s : bytes) : option addr :=
  match s with [] => None | _ => Some (mkAddr [] s) end.
Definition ex_string (a : addr) : bytes := a_addr a.
Example C06_example :
  let m := run ex_parse ex_string (fun s => s)
             [CFrom [102]; CSet STo [[97]; [98]]; CAdd SBcc [99]; CAdd STo [100]; CIgn SCc [[]; [101]]] [] in
  get_recipients m = [[97]; [98]; [100]; [101]; [99]] /\ get_sender m = Some [102] /\
  field_names (render_addr ex_string m) = [hdr_from; hdr_to; hdr_cc].
Proof. vm_compute. repeat split. Qed.
