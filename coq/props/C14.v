(* C14 — SASL mechanisms interoperate with conforming servers.
   Property theorems only: each is closed by [exact <lemma>] and followed by Print Assumptions.
   Client side: coq/theories/Sasl.v, Scram.v (the go-mail mechanisms); server side: the readers / verifiers written
   from RFC 4616, RFC 2195, the XOAUTH2 format and RFC 5802 in Sasl.v.  H / HMAC are universally quantified. *)
From Coq Require Import String ZArith.
From Verif Require Import Bytes Base64 Scram AuthLoop Sasl Crypto SaslRun.
From VerifGen Require Import Gen.
From VerifProofs Require Import ScramProofs SaslProofs ScramE2EProofs.
Open Scope N_scope.

(* saslname: names containing ',' and '=' survive, and the escaped name cannot split the message *)
Theorem C14_saslname_roundtrip : forall u, unescape_name (escape_name u) = Some u.
Proof. exact escape_unescape. Qed.
Print Assumptions C14_saslname_roundtrip.

Theorem C14_saslname_no_comma : forall u, ~ In 44 (escape_name u).
Proof. exact escape_no_comma. Qed.
Print Assumptions C14_saslname_no_comma.

(* PLAIN: an RFC 4616 server reads back exactly (authzid, authcid, passwd) for all NUL-free strings (empty parts included) *)
Theorem C14_plain : forall a,
  ~ In 0 (pl_identity a) -> ~ In 0 (pl_user a) -> ~ In 0 (pl_pass a) ->
  parse_plain (plain_msg a) = Some (pl_identity a, pl_user a, pl_pass a).
Proof. exact plain_roundtrip. Qed.
Print Assumptions C14_plain.

(* XOAUTH2: user and token are read back for all ^A-free strings *)
Theorem C14_xoauth2 : forall user token,
  ~ In 1 user -> ~ In 1 token -> parse_xoauth2 (xoauth2_msg user token) = Some (user, token).
Proof. exact xoauth2_roundtrip. Qed.
Print Assumptions C14_xoauth2.

(* CRAM-MD5: an RFC 2195 server (digest after the LAST space, so user names may contain spaces) accepts the
   response for every user, secret and challenge, and rejects it when its secret gives another digest *)
Theorem C14_cram_accepted : forall (HMACmd5 : bytes -> bytes -> bytes) secret_of user secret challenge,
  secret_of user = Some secret ->
  cram_server HMACmd5 secret_of challenge (cram_response HMACmd5 user secret challenge) = true.
Proof. exact cram_accepted. Qed.
Print Assumptions C14_cram_accepted.

Theorem C14_cram_rejected : forall (HMACmd5 : bytes -> bytes -> bytes) secret_of user secret secret' challenge,
  secret_of user = Some secret' ->
  Sasl.hex_of (HMACmd5 secret challenge) <> Sasl.hex_of (HMACmd5 secret' challenge) ->
  cram_server HMACmd5 secret_of challenge (cram_response HMACmd5 user secret challenge) = false.
Proof. exact cram_rejected_wrong_secret. Qed.
Print Assumptions C14_cram_rejected.

(* SCRAM: for every H, HMAC (outputs of one length), salted password and AuthMessage the proof the client computes
   passes the server's check H(ClientSignature xor ClientProof) = StoredKey ... *)
Theorem C14_scram_proof_accepted : forall (H : bytes -> bytes) (HMAC : bytes -> bytes -> bytes) (n : nat) salted authmsg,
  (forall k m, length (HMAC k m) = n) ->
  let client_key := HMAC salted (bs "Client Key") in
  let stored_key := H client_key in
  let proof := bxor client_key (HMAC stored_key authmsg) in
  H (bxor (HMAC stored_key authmsg) proof) = stored_key.
Proof. exact scram_proof_accepted. Qed.
Print Assumptions C14_scram_proof_accepted.

(* ... and the signature an RFC 5802 server (ServerKey from Hi) returns is the one the client expects *)
Theorem C14_scram_server_signature_expected : forall (H : bytes -> bytes) (HMAC : bytes -> bytes -> bytes) pw salt iter authmsg,
  b64enc (HMAC (sv_server_key (store H HMAC pw salt iter)) authmsg) = server_sig HMAC (Hi HMAC pw salt iter) authmsg.
Proof. exact scram_server_signature_expected. Qed.
Print Assumptions C14_scram_server_signature_expected.

(* every client-first-message carries the next draw of the randomness oracle; a retry (also on the same
   scramAuth value, in any state) takes the following one *)
Theorem C14_fresh_nonce : forall H HMAC hsize precis cfg id st r rands st' rands' resp,
  scram_next H HMAC hsize precis cfg id (st, r :: rands) [] true = ((st', rands'), Some (Some resp)) ->
  rands' = rands /\ ss_nonce st' = b64enc r /\
  exists gs2 uname, resp = gs2 ++ bs "n=" ++ uname ++ bs ",r=" ++ b64enc r.
Proof. exact scram_fresh_nonce. Qed.
Print Assumptions C14_fresh_nonce.

Theorem C14_retry_fresh_nonce : forall H HMAC hsize precis cfg id st r1 r2 rands s1 resp1 st2 resp2 s2,
  scram_next H HMAC hsize precis cfg id (st, r1 :: r2 :: rands) [] true = (s1, Some (Some resp1)) ->
  scram_next H HMAC hsize precis cfg id (st2, snd s1) [] true = (s2, Some (Some resp2)) ->
  ss_nonce (fst s1) = b64enc r1 /\ ss_nonce (fst s2) = b64enc r2.
Proof. exact scram_two_attempts_two_draws. Qed.
Print Assumptions C14_retry_fresh_nonce.

(* ---- reuse of one Auth value for several exchanges (a second dial, a retry after 454 / 535 / a lost connection) ----
   T1: loginAuth.Start resets its step counter *)
Theorem C14_source_login_start_resets : Gen.login_start_resets_step = true.
Proof. exact gen_login_start_resets. Qed.
Print Assumptions C14_source_login_start_resets.

(* LOGIN: for every history (any step counter [s] the value was left with) and every list of reply scripts, the sequence of
   exchanges on the reused value is the sequence on a fresh value: same result, same lines, same log, exchange by exchange *)
Theorem C14_login_reuse_is_fresh : forall a si lad (s : N) scripts,
  auth_seq (login_mech a si) lad s scripts = auth_seq (login_mech a si) lad 0 scripts.
Proof. exact login_reuse_is_fresh. Qed.
Print Assumptions C14_login_reuse_is_fresh.

(* PLAIN, CRAM-MD5, XOAUTH2 carry no state *)
Theorem C14_stateless_reuse_is_fresh : forall (m : mech unit) lad (s : unit) scripts,
  auth_seq m lad s scripts = auth_seq m lad tt scripts.
Proof. exact stateless_reuse_is_fresh. Qed.
Print Assumptions C14_stateless_reuse_is_fresh.

(* SCRAM: for every history (any state [st] the value was left in, incl. a cached bindData of an earlier exchange) and every
   list of reply scripts, the sequence of exchanges on the reused value is the sequence on a fresh value, exchange by
   exchange (result, lines, log).  bindData is derived data: initialClientMessage re-derives it from the tlsConnState handed to
   the constructor whenever a -PLUS client-first is built, and it is read only after such a client-first of the same exchange. *)
Theorem C14_scram_reuse_is_fresh : forall H HMAC hsize precis cfg id lad st rands scripts,
  start_resets cfg = true ->
  auth_seq (scram_mech H HMAC hsize precis cfg id) lad (st, rands) scripts =
  auth_seq (scram_mech H HMAC hsize precis cfg id) lad (ss_zero, rands) scripts.
Proof. exact scram_reuse_is_fresh. Qed.
Print Assumptions C14_scram_reuse_is_fresh.

(* without the reset in Start the statement is false (LOGIN value left at step 2 by a completed exchange) *)
Theorem C14_login_reuse_without_reset_refuted :
  exists a si script,
    ro_class (obs_of (auth (login_mech_cfg false a si) false false 2 script)) <>
    ro_class (obs_of (auth (login_mech_cfg false a si) false false 0 script)).
Proof. exact login_reuse_without_reset_refuted. Qed.
Print Assumptions C14_login_reuse_without_reset_refuted.

(* ---- mail.Client: 2, 3, ... dials on one Client value ----
   T1: mail.Client.auth does not keep the mechanism it builds (no assignment to c.smtpAuth in auth()), so *)
Theorem C14_source_client_auth_builds_per_dial : Gen.client_auth_keeps_mechanism = false.
Proof. exact gen_client_auth_builds_per_dial. Qed.
Print Assumptions C14_source_client_auth_builds_per_dial.

(* dial k of a Client is the exchange of the mechanism built for dial k (from the user name, password and TLS connection
   state current at that dial: [mk k]) in its fresh state - independent of what the earlier dials did *)
Theorem C14_client_dials_are_fresh : forall S (mk : nat -> mech S) lad s0 scripts k,
  client_dials Gen.client_auth_keeps_mechanism mk lad s0 k scripts =
  map (fun p => obs_of (auth (mk (fst p)) lad false s0 (snd p))) (combine (seq k (length scripts)) scripts).
Proof. exact client_dials_fresh. Qed.
Print Assumptions C14_client_dials_are_fresh.

(* T1: handleServerFirstResponse assembles the AuthMessage from the server-first-message as received *)
Theorem C14_source_authmsg_uses_raw_server_first : Gen.scram_authmsg_uses_raw_server_first = true.
Proof. exact ScramProofs.gen_authmsg_raw. Qed.
Print Assumptions C14_source_authmsg_uses_raw_server_first.

(* ---- challenges reach the mechanism exactly as issued ----
   T1: in smtp.Client.Auth the decoded challenge is handed to a.Next unchanged (no trimming / re-encoding in between) *)
Theorem C14_source_challenge_passed_unchanged : Gen.smtp_auth_challenge_passed_unchanged = true.
Proof. exact gen_challenge_passed_unchanged. Qed.
Print Assumptions C14_source_challenge_passed_unchanged.

(* for any mechanism and any challenge bytes (blanks, tabs, CR, LF anywhere): the response on the wire is the base64 of
   what Next returns for exactly the issued challenge *)
Theorem C14_auth_loop_passes_challenge : forall S (m : mech S) active name (s s' : S) chal resp rest o,
  wf_bytes chal = true ->
  m_next m s chal true = (s', Some (Some resp)) ->
  o_sent (f_out (auth_loop m active name s code_challenge (b64enc chal) rest o)) =
  match rest with
  | Reply c mm :: rest' => o_sent (f_out (auth_loop m active name s' c mm rest' (cmd_out active (b64enc resp) (Reply c mm) o)))
  | _ => o_sent o ++ [b64enc resp]
  end.
Proof. exact auth_loop_passes_challenge. Qed.
Print Assumptions C14_auth_loop_passes_challenge.

(* CRAM-MD5 through Client.Auth: the response is the RFC 2195 response to exactly the issued challenge, and the RFC 2195
   server (HMAC-MD5 over the challenge it issued) accepts it *)
Theorem C14_cram_auth_answers_issued_challenge : forall (HMACmd5 : bytes -> bytes -> bytes) user secret chal lad secret_of,
  wf_bytes chal = true -> secret_of user = Some secret ->
  let f := auth (cram_mech HMACmd5 user secret) lad false tt [Reply code_challenge (b64enc chal)] in
  o_sent (f_out f) = [bs "AUTH CRAM-MD5"; b64enc (cram_response HMACmd5 user secret chal)] /\
  cram_server HMACmd5 secret_of chal (cram_response HMACmd5 user secret chal) = true.
Proof. exact cram_auth_answers_issued_challenge. Qed.
Print Assumptions C14_cram_auth_answers_issued_challenge.

(* internal/pbkdf2.Key (block loop, U/T xor loop, transliterated in Scram.pbkdf2_key) is RFC 5802's Hi when the key
   length is the hash length (one block), for every HMAC with outputs of one length and every iteration count >= 1 *)
Theorem C14_pbkdf2_is_Hi : forall (HMAC : bytes -> bytes -> bytes) (n : nat) pw salt (i : nat),
  (forall key m, length (HMAC key m) = n) -> (0 < n)%nat -> (1 <= i)%nat ->
  pbkdf2_key HMAC pw salt (Z.of_nat i) n n = Hi HMAC pw salt i.
Proof. exact pbkdf2_is_Hi. Qed.
Print Assumptions C14_pbkdf2_is_Hi.

(* ---- the complete exchange against the RFC 5802 / 7677 / 9266 reference server of Sasl.v (scram_server_first /
   scram_server_final: comma splitter Bytes.split_on 44, attribute prefixes, saslname unescaping, base64, StoredKey check),
   through the assembled messages.  For every H / HMAC with outputs of one positive length consisting of bytes, every
   client configuration [cfg], every prior state of the scramAuth value, every user name whose prepared escaped form is
   ','-free and unescapes to the account name, every password, byte salt, iteration count 1 .. 2^63-1, non-empty draw of the
   randomness oracle and ','-free server nonce part; for the -PLUS variants with the channel binding the client selects
   (cb_select: tls-unique below TLS 1.3, else tls-exporter) equal to what the server's end reports:
   the server accepts, the client has verified the ServerSignature, acknowledges and reports success. *)
Theorem C14_scram_exchange_accepted :
  forall (H : bytes -> bytes) (HMAC : bytes -> bytes -> bytes) (hsize : nat) (precis : bytes -> option bytes)
         (cfg : scram_cfg) (id : scram_id) (c : srv_cfg) (db : bytes -> option stored),
    (forall k m : bytes, length (HMAC k m) = hsize) -> (0 < hsize)%nat -> (forall k m : bytes, wf_bytes (HMAC k m) = true) ->
    forall (uname acct pw salt : bytes) (iter : nat),
    precis (escape_name (sid_user id)) = Some uname -> ~ In 44 uname -> unescape_name uname = Some acct ->
    precis (sid_pass id) = Some pw ->
    db acct = Some (store H HMAC pw salt iter) ->
    (1 <= iter)%nat -> N.of_nat iter < 9223372036854775808 -> wf_bytes salt = true ->
    ~ In 44 (sc_snonce c) ->
    (* optional extensions after the iteration count (RFC 5802 section 7): the AuthMessage of both sides contains the
       server-first-message AS SENT, extensions included *)
    (sc_ext c = [] \/ exists e, sc_ext c = 44 :: e) ->
    forall cbname cbdata : bytes,
    (if sid_plus id
     then sc_plus c = true /\ sc_cbname c = cbname /\ sc_cbdata c = cbdata /\ wf_bytes cbdata = true /\
          (exists ti : tls_info, sid_tls id = Some ti /\ cb_select ti = Some (cbname, cbdata))
     else sc_plus c = false /\ cbname = [] /\ cbdata = []) ->
    forall r : bytes, is_nil r = false ->
    forall (st : scram_state) (rest : list bytes),
      scram_dialogue H HMAC hsize precis cfg id c db (st, r :: rest) = true.
Proof. exact e2e_accepted. Qed.
Print Assumptions C14_scram_exchange_accepted.

(* with PRECIS the identity on the two strings (H-precis: printable ASCII), names containing ',' and '=' included *)
Theorem C14_scram_exchange_accepted_ascii :
  forall (H : bytes -> bytes) (HMAC : bytes -> bytes -> bytes) (hsize : nat) (precis : bytes -> option bytes)
         (cfg : scram_cfg) (id : scram_id) (c : srv_cfg) (db : bytes -> option stored),
    (forall k m : bytes, length (HMAC k m) = hsize) -> (0 < hsize)%nat -> (forall k m : bytes, wf_bytes (HMAC k m) = true) ->
    forall (salt : bytes) (iter : nat),
    precis (escape_name (sid_user id)) = Some (escape_name (sid_user id)) -> precis (sid_pass id) = Some (sid_pass id) ->
    db (sid_user id) = Some (store H HMAC (sid_pass id) salt iter) ->
    (1 <= iter)%nat -> N.of_nat iter < 9223372036854775808 -> wf_bytes salt = true ->
    ~ In 44 (sc_snonce c) -> (sc_ext c = [] \/ exists e, sc_ext c = 44 :: e) -> sid_plus id = false -> sc_plus c = false ->
    forall r : bytes, is_nil r = false ->
    forall (st : scram_state) (rest : list bytes),
      scram_dialogue H HMAC hsize precis cfg id c db (st, r :: rest) = true.
Proof. exact e2e_accepted_ascii. Qed.
Print Assumptions C14_scram_exchange_accepted_ascii.

(* wrong credentials: whatever proof the client-final carries, the server rejects it when it does not open the StoredKey.
   (That a client holding another password cannot produce an opening proof is the cryptographic assumption - not a theorem.) *)
Theorem C14_scram_server_rejects_wrong_proof :
  forall (H : bytes -> bytes) (HMAC : bytes -> bytes -> bytes) a gs2 cbdata cbare sfirst combined c64 nonce p64 cb proof,
    b64dec c64 = Some cb -> b64dec p64 = Some proof -> ~ In 44 c64 -> ~ In 44 nonce -> ~ In 44 p64 ->
    H (bxor (HMAC (sv_stored_key a) (cbare ++ bs "," ++ sfirst ++ bs "," ++ (bs "c=" ++ c64) ++ bs "," ++ (bs "r=" ++ nonce))) proof)
      <> sv_stored_key a ->
    server_final H HMAC a gs2 cbdata cbare sfirst combined ((bs "c=" ++ c64) ++ bs "," ++ (bs "r=" ++ nonce) ++ bs "," ++ (bs "p=" ++ p64)) = None.
Proof. exact server_rejects_wrong_proof. Qed.
Print Assumptions C14_scram_server_rejects_wrong_proof.

(* Concrete instances of pbkdf2.Key = Hi by computation: *)
Example C14_pbkdf2_is_Hi_instances :
  pbkdf2_key hmac_sha1 (bs "password") (bs "salt") 2 20 20 = Hi hmac_sha1 (bs "password") (bs "salt") 2 /\
  pbkdf2_key hmac_sha256 (bs "pencil") (bs "saltSALT") 3 32 32 = Hi hmac_sha256 (bs "pencil") (bs "saltSALT") 3 /\
  Crypto.hex_of (pbkdf2_key hmac_sha1 (bs "password") (bs "salt") 2 20 20) = bs "ea6c014dc72d6f8ccd1ed92ace1d41f0d8de8957".
Proof. vm_compute. repeat split; reflexivity. Qed.
