(* C10 — Render -> parse -> render preserves the message.
   What is proved here is the part of the property that lives in eml.go and in the header-emitting
   part of the writer: (A) the re-render of a parsed message has no header field twice, (B) file names
   survive the trip through Content-Disposition exactly when they contain no ';' and the word
   encoder leaves them alone.  The body / parts / address content of the round trip is established by
   the correspondence and the direct oracle of harness/c10 (see lib/checks/C10.py), not by a theorem.
   Property theorems only: each is closed by [exact <lemma>] and followed by Print Assumptions. *)
From Coq Require Import String.
From Verif Require Import Bytes Base64 LineBreaker QP HeaderFold WordEnc Writer MimeTree MimeRead Render.
From Verif Require Import HeaderScan.
From Verif Require Import Eml EmlRender EmlWriter EmlFront EmlRoundtrip EmlWord EmlRerender.
From VerifGen Require Import Gen.
From VerifProofs Require Import RenderProofs MimeReadProofs C01Proofs.
From VerifProofs Require Import EmlProofs EmlRenderProofs EmlWriterProofs EmlCodecProofs EmlRoundtripMain EmlStructureProofs EmlRoundtripExample EmlWordProofs EmlSubjectProofs EmlWordValueProofs EmlRerenderProofs EmlRerenderFieldsProofs.

(* (A) For every parsed message (any header content, any part tree) and whichever of From/To/Cc are
   present, the top-level header block written by the next render names no field twice.
   The list of generic headers the parser copies is the one in the source (Gen.eml_common_headers). *)
Theorem C10_rerender_no_duplicate_field : forall (t : top) (st : mstate) (has_from has_to has_cc : bool),
  parse_eml_fixed t = Ok st -> NoDup (rerender_fields st has_from has_to has_cc).
Proof. exact rerender_no_dup. Qed.
Print Assumptions C10_rerender_no_duplicate_field.

(* T1 obligation behind (A): the fields the writer emits itself are not copied by the parser *)
Theorem C10_writer_fields_not_copied :
  forallb (fun k => negb (memb k (extra_keys ++ allowed_keys))) writer_fields = true.
Proof. exact writer_fields_not_generic. Qed.
Print Assumptions C10_writer_fields_not_copied.

(* Before the repair (Content-Type copied into the generic headers): two Content-Type fields *)
Theorem C10_dup_content_type_before_fix_refuted :
  exists st, parse_eml filename_of true single_part_msg = Ok st /\
             nodupb (rerender_fields st true true false) = false /\
             Nat.ltb 1 (count_occ (list_eq_dec N.eq_dec) (rerender_fields st true true false) hdr_content_type) = true.
Proof. exact rerender_dup_content_type_old. Qed.
Print Assumptions C10_dup_content_type_before_fix_refuted.

(* Before the repair: a nested multipart/alternative container is added as a body part *)
Theorem C10_phantom_alternative_before_fix_refuted :
  exists st, parse_eml filename_of true nested_example = Ok st /\ length (m_parts st) = 3%nat /\
             exists st', parse_eml_fixed nested_example = Ok st' /\ length (m_parts st') = 2%nat.
Proof. exact phantom_alternative_old. Qed.
Print Assumptions C10_phantom_alternative_before_fix_refuted.

(* (B) The parser returns verbatim what the writer put between the quotes of filename="…", for every
   disposition and every encoded name without ';' (so '=' and blanks survive) … *)
Theorem C10_filename_roundtrip_partial : forall disp encoded : bytes,
  has 59 disp = false -> has 59 encoded = false ->
  parse_cd_filename filename_of (render_cd disp encoded) = Ok encoded.
Proof. exact parse_cd_render. Qed.
Print Assumptions C10_filename_roundtrip_partial.

(* … hence a name without ';' comes back as its sanitized form, and unchanged if sanitizeFilename
   (byte predicate taken from the source) does not touch it *)
Theorem C10_filename_roundtrip_ascii : forall name : bytes,
  has 59 name = false -> roundtrip_filename name = Ok (sanitize name).
Proof. exact roundtrip_filename_ok. Qed.
Print Assumptions C10_filename_roundtrip_ascii.

Theorem C10_sanitize_identity : forall name : bytes,
  forallb (fun b => negb (sanitize_bad b)) name = true -> sanitize name = name.
Proof. exact sanitize_id. Qed.
Print Assumptions C10_sanitize_identity.

(* file names with ';' are not recovered (known finding filename-semicolon) *)
Theorem C10_filename_semicolon_refuted :
  roundtrip_filename (bs "a;b.txt") = Ok (bs """a") /\ has 59 (bs "a;b.txt") = true.
Proof. exact roundtrip_semicolon_refuted. Qed.
Print Assumptions C10_filename_semicolon_refuted.

(* RFC 2047 encoded names are not decoded: by C10_filename_roundtrip_partial the parser returns the
   encoded word itself, e.g. for the Q-encoding of "ä.txt" (known finding filename-encoded-word) *)
Example C10_filename_encoded_word_refuted :
  parse_cd_filename filename_of (render_cd lit_attachment (bs "=?UTF-8?q?=C3=A4.txt?="))
  = Ok (bs "=?UTF-8?q?=C3=A4.txt?=").
Proof. vm_compute. reflexivity. Qed.

(* ---------- tier B: the same path with the REAL writer model in front (Writer.file_hdrs) ----------
   For every file whose header cache holds no Content-Disposition yet (any cached Content-Type, encoding,
   description), attachment or embed, Q or B word encoder: what addFiles stores as Content-Disposition
   is parsed back to exactly the word-encoded sanitized name, provided that has no ';'. *)
Theorem C10_filename_via_writer_partial : forall (wenc : N) (is_att : bool) (f : Writer.file),
  Writer.get_h Writer.h_cdisp (Writer.f_hdr f) = None ->
  has 59 (word_encode wenc (EmlRender.sanitize (Writer.f_name f))) = false ->
  filename_via_writer wenc is_att f = Ok (word_encode wenc (EmlRender.sanitize (Writer.f_name f))).
Proof. exact filename_via_writer_ok. Qed.
Print Assumptions C10_filename_via_writer_partial.

(* … so a name without ';' that the word encoder leaves alone comes back as its sanitized form … *)
Theorem C10_filename_via_writer_plain : forall (wenc : N) (is_att : bool) (f : Writer.file),
  Writer.get_h Writer.h_cdisp (Writer.f_hdr f) = None ->
  WordEnc.needs_encoding (EmlRender.sanitize (Writer.f_name f)) = false ->
  has 59 (Writer.f_name f) = false ->
  filename_via_writer wenc is_att f = Ok (EmlRender.sanitize (Writer.f_name f)).
Proof. exact filename_via_writer_plain. Qed.
Print Assumptions C10_filename_via_writer_plain.

(* … and a name that needs RFC 2047 encoding is NEVER recovered (known finding filename-encoded-word):
   the parser returns the encoded word, which differs from the name for every such name *)
Theorem C10_filename_via_writer_encoded_refuted : forall (wenc : N) (is_att : bool) (f : Writer.file),
  (wenc = 113%N \/ wenc = 98%N) ->
  Writer.get_h Writer.h_cdisp (Writer.f_hdr f) = None ->
  wf_bytes (EmlRender.sanitize (Writer.f_name f)) = true ->
  WordEnc.needs_encoding (EmlRender.sanitize (Writer.f_name f)) = true ->
  has 59 (word_encode wenc (EmlRender.sanitize (Writer.f_name f))) = false ->
  exists r, filename_via_writer wenc is_att f = Ok r /\ r <> EmlRender.sanitize (Writer.f_name f).
Proof. exact filename_via_writer_encoded. Qed.
Print Assumptions C10_filename_via_writer_encoded_refuted.

(* witnesses through the real writer model (fresh files, Q encoder): '=' and blank survive, ';' cuts,
   non-ASCII comes back encoded *)
Example C10_via_writer_plain_example :
  filename_via_writer 113 true (fresh_file (bs "a=b c.txt") (bs "text/plain")) = Ok (bs "a=b c.txt").
Proof. exact via_writer_plain_example. Qed.
Example C10_via_writer_semicolon_refuted :
  filename_via_writer 113 true (fresh_file (bs "a;b.txt") (bs "text/plain")) = Ok (bs """a").
Proof. exact via_writer_semicolon_refuted. Qed.
Example C10_via_writer_encoded_word_refuted :
  filename_via_writer 113 false (fresh_file [195%N; 164%N; 46%N; 116%N; 120%N; 116%N] (bs "text/plain"))
  = Ok (bs "=?UTF-8?q?=C3=A4.txt?=").
Proof. exact via_writer_encoded_refuted. Qed.

(* ---------- the transfer encoding of a parsed body part is local to the part ----------
   Whatever was parsed before (any two predecessor states, drained or not), a body part that is appended
   gets the encoding [part_enc_of_hdr] computes from the part's OWN header: its Content-Transfer-Encoding,
   or quoted-printable when the stdlib multipart reader has stripped that header. *)
Theorem C10_part_encoding_local : forall fnof legacy p d1 d2 s1 s2 s1' s2' x1 x2,
  hvals (e_hdr p) hdr_content_disposition = [] ->
  body_phase fnof legacy p d1 s1 = Ok s1' -> body_phase fnof legacy p d2 s2 = Ok s2' ->
  m_parts s1' = m_parts s1 ++ [x1] -> m_parts s2' = m_parts s2 ++ [x2] ->
  p_enc x1 = p_enc x2 /\ part_enc_of_hdr (e_hdr p) = Some (p_enc x1).
Proof. exact part_enc_independent. Qed.
Print Assumptions C10_part_encoding_local.

Theorem C10_part_encoding_default_qp : forall h : hdr,
  hvals h hdr_content_transfer_enc = [] -> part_enc_of_hdr h = Some enc_qp.
Proof. exact part_enc_default_qp. Qed.
Print Assumptions C10_part_encoding_default_qp.

(* non-vacuity of (A) *)
Example C10_example :
  exists st, parse_eml_fixed nested_example = Ok st /\
             rerender_fields st true true false =
             [hdr_date; hdr_mime_version; hdr_message_id; hdr_user_agent; hdr_x_mailer; hdr_from; hdr_to; hdr_content_type].
Proof. eexists. split; vm_compute; reflexivity. Qed.


(* =====================================================================================================
   THE CENTRAL CLAIM: parsing the rendering yields a Msg with the same subject, From/To/Cc, date, body
   parts (type, charset, content) and files (name, bytes, kind), with nothing added.
   Models: Writer.v/Render.v (writer), MimeRead.v (RFC reader), EmlFront.v (the Go stdlib in front of the
   parser: textproto header reading, mime.ParseMediaType, multipart.Part's transparent quoted-printable
   decoding, the base64 / quoted-printable decoders), Eml.v (the parser).  eml_parse = parser o front end
   o read_tree is ONE Gallina function on bytes; the correspondence kind "front" compares it with the real
   EMLToMsgFromString on every rendering the harness generates.
   ===================================================================================================== *)

(* ---------- layer 1: body content, for ALL content bytes ---------- *)
(* what the parser's decoders make of what the writer's encoders put on the wire, per transfer encoding *)
Theorem C10_body_roundtrip : forall (e : Writer.enc) (p : producer),
  (e = EncQP \/ e = EncB64 \/ e = Enc8bit) ->
  wf_bytes (content_of p) = true -> (e = EncQP -> no_bare_cr (content_of p) = true) ->
  eml_decode_body e (encode_body e p) = Some (expected_content e (content_of p)).
Proof. exact body_roundtrip. Qed.
Print Assumptions C10_body_roundtrip.

(* quoted-printable is exact on text whose line breaks are all CRLF (a lone LF comes back as CRLF) *)
Theorem C10_body_qp_crlf_exact : forall s : bytes, crlf_only s = true -> canon_crlf s = s.
Proof. exact canon_crlf_id. Qed.
Print Assumptions C10_body_qp_crlf_exact.

(* the refuted classes stay visible: a bare CR in quoted-printable text (stdlib writer quirk) … *)
Theorem C10_body_qp_bare_cr_refuted : exists p, wf_bytes (content_of p) = true /\
  eml_decode_body EncQP (encode_body EncQP p) <> Some (canon_crlf (content_of p)).
Proof. exact body_qp_bare_cr_refuted. Qed.
Print Assumptions C10_body_qp_bare_cr_refuted.

(* … and 7bit (known finding 7bit-requoted): the wire text itself becomes the content … *)
Theorem C10_body_7bit_refuted : exists p, wf_bytes (content_of p) = true /\ crlf_only (content_of p) = true /\
  eml_decode_body (EncOther enc_7bit) (encode_body (EncOther enc_7bit) p) <> Some (content_of p).
Proof. exact body_7bit_refuted. Qed.
Print Assumptions C10_body_7bit_refuted.

(* … so exactly the texts quoted-printable encoding leaves alone survive under the 7bit label *)
Theorem C10_body_7bit_partial : forall (n : bytes) (p : producer), qp_run (pchunks p) = content_of p ->
  eml_decode_body (EncOther n) (encode_body (EncOther n) p) = Some (content_of p).
Proof. exact body_7bit_partial. Qed.
Print Assumptions C10_body_7bit_partial.

(* ---------- layer 2: headers ---------- *)
(* mime.WordDecoder.DecodeHeader inverts mime.WordEncoder.Encode: for the Q and the B encoder, every
   value of well-formed bytes — any length, i.e. including the splitting into several encoded-words at
   rune boundaries — provided the value needs encoding or contains no "=?" *)
Theorem C10_header_decode_encode : forall (e : N) (s : bytes),
  (e = 113%N \/ e = 98%N) -> wf_bytes s = true ->
  (WordEnc.needs_encoding s = true \/ no_eq_q s = true) ->
  decode_header (word_encode e s) = Some s.
Proof. exact decode_word_encode. Qed.
Print Assumptions C10_header_decode_encode.

(* the hypothesis is needed: a plain-ASCII value that already looks like an encoded-word is written
   as it is and decoded by every reader (low-severity finding noted in DESIGN section 6 for C02) *)
Theorem C10_header_literal_word_refuted :
  WordEnc.needs_encoding (bs "=?UTF-8?q?a?=") = false /\
  decode_header (word_encode 113 (bs "=?UTF-8?q?a?=")) = Some (bs "a").
Proof. exact decode_literal_word_refuted. Qed.
Print Assumptions C10_header_literal_word_refuted.

(* ---------- layer 3: structure ---------- *)
(* S2: the header blocks the writer produces (folded fields, part header lines, the multipart
   announcement) are read by textproto into exactly the canonical field tree of the message *)
Theorem C10_field_tree : forall (d i : bytes) (rb : list bytes) (m : Writer.msg),
  let z := resolve d i rb m in
  in_feature_set m = true -> good_value d = true -> good_value i = true -> boundaries_ok z = true ->
  fnode_of_node (expected_tree z) = Some (ctree z).
Proof. exact fnode_expected. Qed.
Print Assumptions C10_field_tree.

(* S3: on that field tree the parser model yields a Msg whose observables are those of the message *)
Theorem C10_parse_canonical : forall (pa pl : bytes -> ares) (pd : bytes -> dres) (d i : bytes) (rb : list bytes) (m : Writer.msg),
  let z := resolve d i rb m in
  in_feature_set m = true -> good_value d = true -> good_value i = true ->
  oracles_ok pa pl pd d m -> boundaries_ok z = true ->
  exists st, parse_eml_fixed (top_of_fnode pa pl pd (ctree z)) = Ok st /\
             project_parsed st = project_built d m /\ parsed_as d i m st.
Proof. exact parse_ctree. Qed.
Print Assumptions C10_parse_canonical.

(* END TO END.  For every message m in the feature set ([in_feature_set]: UTF-8; Subject and addresses
   made of single-blank-separated printable words; >= 1 text/plain|text/html part in quoted-printable,
   base64 or 8bit with any well-formed content (CRLF/LF text for quoted-printable); any number of
   alternatives, embeds and attachments whose names the writer leaves unchanged; no cached boundaries),
   rendered on date d with message id i and random boundaries rb, under
     H-addr/H-date ([oracles_ok]: net/mail parses a formatted address (list) / the written date back),
     H-rand' ([boundaries_ok]: the boundaries are RFC 2045 tokens) and
     H-rand  ([fresh_expected], from C01: no body shows a delimiter of an enclosing boundary),
   parsing the bytes WriteTo produced yields a Msg whose subject, From, To, Cc, date, body parts (type,
   charset, content) and files (name, bytes, kind) are those of m — the part and file lists are EQUAL,
   so nothing is added. *)
Theorem C10_parse_render : forall (pa pl : bytes -> ares) (pd : bytes -> dres) (d i : bytes) (rb : list bytes) (m : Writer.msg),
  let z := resolve d i rb m in
  in_feature_set m = true -> good_value d = true -> good_value i = true ->
  oracles_ok pa pl pd d m -> boundaries_ok z = true -> fresh_expected z = true ->
  exists st, eml_parse pa pl pd (r_out (write_to d i rb m unlimited)) = Ok st /\
             project_parsed st = project_built d m /\ parsed_as d i m st.
Proof. exact parse_render. Qed.
Print Assumptions C10_parse_render.

(* the hypotheses are satisfiable on a message with two alternatives, an embed and an attachment … *)
Example C10_parse_render_hypotheses_satisfiable :
  in_feature_set ex10 = true /\ good_value ex10_date = true /\ good_value ex10_msgid = true /\
  oracles_ok ex_pa ex_pl ex_pd ex10_date ex10 /\ boundaries_ok ex10_z = true /\ fresh_expected ex10_z = true.
Proof. exact ex10_hypotheses. Qed.

(* … and the statement is not vacuous on it (computed directly from the rendered bytes) *)
Example C10_parse_render_example :
  exists st, eml_parse ex_pa ex_pl ex_pd (r_out (write_to ex10_date ex10_msgid ex10_rb ex10 unlimited)) = Ok st /\
             project_parsed st = project_built ex10_date ex10 /\
             length (pj_parts (project_parsed st)) = 2%nat /\ length (pj_atts (project_parsed st)) = 1%nat /\
             length (pj_embs (project_parsed st)) = 1%nat.
Proof. exact ex10_direct. Qed.

(* 7bit end to end (known finding 7bit-requoted): outside the feature set, and refuted on the bytes *)
Example C10_parse_render_7bit_refuted :
  exists st, eml_parse ex_pa ex_pl ex_pd (r_out (write_to ex10_date ex10_msgid ex10_rb ex7 unlimited)) = Ok st /\
             pj_parts (project_parsed st) = [(type_text_plain, charset_utf8, bs "a=3Db")] /\
             pj_parts (project_built ex10_date ex7) = [(type_text_plain, charset_utf8, bs "a=b")].
Proof. exact ex7_refuted. Qed.


(* layers 2 and 3 composed: the subject TEXT s the caller set (Subject = word_encode e s) is what an
   RFC 2047 decode of the parsed message's Subject gives; From/To/Cc and the date survive by
   C10_parse_render under the net/mail oracle assumptions H-addr / H-date *)
Theorem C10_subject_survives : forall (pa pl : bytes -> ares) (pd : bytes -> dres) (d i : bytes) (rb : list bytes)
    (m : Writer.msg) (e : N) (s : bytes),
  let z := resolve d i rb m in
  in_feature_set m = true -> good_value d = true -> good_value i = true ->
  oracles_ok pa pl pd d m -> boundaries_ok z = true -> fresh_expected z = true ->
  Writer.m_gen m = [(hdr_subject, [word_encode e s])] ->
  (e = 113%N \/ e = 98%N) -> wf_bytes s = true -> (WordEnc.needs_encoding s = true \/ no_eq_q s = true) ->
  exists st v, eml_parse pa pl pd (r_out (write_to d i rb m unlimited)) = Ok st /\
               pj_subject (project_parsed st) = Some v /\ decode_header v = Some s.
Proof. exact subject_survives. Qed.
Print Assumptions C10_subject_survives.

(* the value class of the feature set ([good_value]: non-empty printable words, single blanks) contains
   every RFC 2047-encoded value: subjects that need encoding are never excluded by it *)
Theorem C10_encoded_value_in_feature_set : forall (e : N) (s : bytes),
  (e = 113%N \/ e = 98%N) -> wf_bytes s = true -> WordEnc.needs_encoding s = true ->
  good_value (word_encode e s) = true.
Proof. exact encoded_value_good. Qed.
Print Assumptions C10_encoded_value_in_feature_set.


(* =====================================================================================================
   SECOND HALF: rendering the parsed Msg again gives a well-formed message that an independent reader
   maps to the same content.
   EmlRerender.msg_of_parsed = the Writer.msg the parsed Msg denotes (generic headers re-encoded by
   SetGenHeader, parts with explicit charset/encoding and the decoded content, files as AttachReader /
   EmbedReader + WithFileContentID create them); tied to the real code by the correspondence kind "rr":
   the writer model applied to it reproduces the bytes of the real second WriteTo.
   ===================================================================================================== *)

(* what EMLToMsg makes of the rendering of a feature-set message is [reparsed]: the closure statement.
   It differs from m in: Date / Message-ID / MIME-Version / User-Agent / X-Mailer now stored as generic
   headers, explicit part charsets, decoded contents as producers (quoted-printable: canonical CRLF),
   the Content-ID of embeds preset in the header cache - so it is NOT in in_feature_set (which demands a
   Subject-only generic header list and empty header caches); the theorems below treat that shape directly *)
Theorem C10_msg_of_parsed : forall (mime_of : bytes -> bytes) (d i : bytes) (m : Writer.msg) (st : mstate),
  in_feature_set m = true -> good_value d = true -> good_value i = true ->
  parsed_as d i m st -> msg_of_parsed mime_of st = reparsed mime_of d i m.
Proof. exact msg_of_parsed_reparsed. Qed.
Print Assumptions C10_msg_of_parsed.

(* the header texts of the second rendering are those of the first (top-level block shown here; the
   part and file header blocks: part2_hdr_same, file2_hdr_same), so the trees differ in boundaries and
   re-encoded bodies only *)
Theorem C10_rerender_same_top_headers : forall (mime_of : bytes -> bytes) (d i : bytes) (rb : list bytes) (m : Writer.msg)
    (d2 i2 : bytes) (rb2 : list bytes),
  in_feature_set m = true ->
  top_headers (z_msg (resolve d2 i2 rb2 (reparsed mime_of d i m))) = top_headers (z_msg (resolve d i rb m)).
Proof. exact top_headers_same. Qed.
Print Assumptions C10_rerender_same_top_headers.

(* C10_rerender.  Hypotheses of C10_parse_render, plus: the media type of every file is the one
   derived from its name (mime_of = mime.TypeByExtension, oracle), and H-rand for the boundaries rb2 of
   the second render.  Then: the parse succeeds, the parsed Msg denotes [reparsed], the independent
   reader (MimeRead.read_tree) reads the second rendering as expected_tree z2, the content it finds
   there - per leaf: type, charset, DECODED content, file name, kind ([tree_content]) - is the content
   of the first rendering, and the decoded contents are those of the message that was built. *)
Theorem C10_rerender : forall (pa pl : bytes -> ares) (pd : bytes -> dres) (mime_of : bytes -> bytes)
    (d i : bytes) (rb : list bytes) (m : Writer.msg) (d2 i2 : bytes) (rb2 : list bytes),
  let z := resolve d i rb m in
  let m2 := reparsed mime_of d i m in
  let z2 := resolve d2 i2 rb2 m2 in
  in_feature_set m = true -> good_value d = true -> good_value i = true ->
  oracles_ok pa pl pd d m -> boundaries_ok z = true -> fresh_expected z = true ->
  (forall f, In f (m_embeds m ++ m_attach m) -> f_mime f = mime_of (f_name f)) ->
  fresh_expected z2 = true ->
  exists st, eml_parse pa pl pd (r_out (write_to d i rb m unlimited)) = Ok st /\
    msg_of_parsed mime_of st = m2 /\
    read_tree (r_out (write_to d2 i2 rb2 (msg_of_parsed mime_of st) unlimited)) = Some (expected_tree z2) /\
    tree_content (expected_tree z2) = tree_content (expected_tree z) /\
    map (option_map lc_content) (tree_content (expected_tree z2))
    = map Some (map (fun p => expected_content (Writer.p_enc p) (content_of (p_prod p))) (Writer.m_parts m)
                ++ map (fun f => content_of (f_prod f)) (m_embeds m)
                ++ map (fun f => content_of (f_prod f)) (m_attach m)).
Proof. exact rerender_reads. Qed.
Print Assumptions C10_rerender.

(* well-formed: the strict RFC 5322 scanner (HeaderScan.field_names, composed with
   C02's message_header_fields) accepts the header section of the second rendering and finds no field
   name twice *)
Theorem C10_rerender_field_names : forall (mime_of : bytes -> bytes) (d i : bytes) (m : Writer.msg) (d2 i2 : bytes) (rb2 : list bytes),
  let m2 := reparsed mime_of d i m in
  let z2 := resolve d2 i2 rb2 m2 in
  in_feature_set m = true -> good_value d = true -> good_value i = true ->
  (forall f, In f (m_embeds m ++ m_attach m) -> f_mime f = mime_of (f_name f)) ->
  boundaries_ok z2 = true ->
  exists ns, field_names (r_out (write_to d2 i2 rb2 m2 unlimited)) = Some ns /\ NoDup ns.
Proof. exact rerender_field_names. Qed.
Print Assumptions C10_rerender_field_names.

(* satisfiable and not vacuous: the example message, second boundaries, computed directly *)
Example C10_rerender_hypotheses_satisfiable :
  (forall f, In f (m_embeds ex10 ++ m_attach ex10) -> f_mime f = ex_mime_of (f_name f)) /\
  fresh_expected ex10_z2 = true /\ boundaries_ok ex10_z2 = true.
Proof. exact ex10_rerender_hypotheses. Qed.

Example C10_rerender_example :
  exists st t2, eml_parse ex_pa ex_pl ex_pd (r_out (write_to ex10_date ex10_msgid ex10_rb ex10 unlimited)) = Ok st /\
    read_tree (EmlRerender.rerender ex_mime_of ex10_rb2 st) = Some t2 /\
    tree_content t2 = tree_content (expected_tree ex10_z) /\ length (tree_content t2) = 4%nat.
Proof. exact ex10_rerender_direct. Qed.

(* refuted complement (known finding 7bit-requoted): each trip quotes a 7bit body once more *)
Example C10_rerender_7bit_refuted :
  exists st t2, eml_parse ex_pa ex_pl ex_pd (r_out (write_to ex10_date ex10_msgid ex10_rb ex7 unlimited)) = Ok st /\
    read_tree (EmlRerender.rerender ex_mime_of ex10_rb2 st) = Some t2 /\
    map (option_map lc_content) (tree_content t2) = [Some (bs "a=3D3Db")].
Proof. exact ex7_rerender_refuted. Qed.


(* ---------- the address lists of the parsed Msg ---------- *)
(* T1: in parseEMLHeaders To/Cc/Bcc are set (msg.To / msg.Cc / msg.Bcc) from the String() forms of the
   ELEMENTS of the netmail.ParseAddressList result - recognised in the source on every run; the model's
   parse_headers takes exactly that list from the oracle (alist) *)
Theorem C10_addr_lists_from_parse_result : eml_addr_lists_from_parser = true.
Proof. reflexivity. Qed.
Print Assumptions C10_addr_lists_from_parse_result.

(* ---------- base64 body parts of ANY length ---------- *)
(* T1: every transfer decoding in eml.go consumes its WHOLE input - the part data is io.ReadAll(multiPart), a
   base64 body part is base64.StdEncoding.DecodeString of all of it, plain bodies are drained with ReadFrom,
   and no function of eml.go calls a Read method itself (one Read of a streaming decoder returns one chunk);
   recognised in the source on every run.  The model decodes the whole body (dec_b64 / eml_decode_body). *)
Theorem C10_decoders_read_whole_input : eml_decode_whole_input = true.
Proof. reflexivity. Qed.
Print Assumptions C10_decoders_read_whole_input.

(* C10_body_roundtrip quantifies over ALL content bytes; spelled out for base64 and the length: whatever the
   length of the content, the decoded body of a base64 part is the content, all of it *)
Theorem C10_base64_part_any_length : forall p : producer, wf_bytes (content_of p) = true ->
  exists d, eml_decode_body EncB64 (encode_body EncB64 p) = Some d /\ d = content_of p /\
            length d = length (content_of p).
Proof.
  intros p Hw. exists (content_of p). split; [| split; reflexivity].
  pose proof (C10_body_roundtrip EncB64 p (or_intror (or_introl eq_refl)) Hw) as H.
  cbn [expected_content] in H. apply H. intro E; discriminate E.
Qed.
Print Assumptions C10_base64_part_any_length.

(* display names with a comma, semicolon, colon, angle brackets, parentheses, dots, at-sign (everything
   that makes net/mail quote the phrase) are inside the feature set, and C10_parse_render gives back the
   lists as net/mail parsed them *)
Example C10_quoted_display_names_in_feature_set :
  in_feature_set exq = true /\ oracles_ok ex_pa exq_pl ex_pd ex10_date exq.
Proof. exact exq_in_feature_set. Qed.

Example C10_quoted_display_names_example :
  exists st, eml_parse ex_pa exq_pl ex_pd (r_out (write_to ex10_date ex10_msgid ex10_rb exq unlimited)) = Ok st /\
             pj_to (project_parsed st) = exq_to /\ pj_cc (project_parsed st) = exq_cc /\
             project_parsed st = project_built ex10_date exq.
Proof. exact exq_direct. Qed.
