(* C10 — Render -> parse -> render preserves the message.
   What is proved here is the part of the property that lives in eml.go and in the header-emitting
   part of the writer: (A) the re-render of a parsed message has no header field twice, (B) file names
   survive the trip through Content-Disposition exactly when they contain no ';' and the word
   encoder leaves them alone.  The body / parts / address content of the round trip is established by
   the correspondence and the direct oracle of harness/c10 (see lib/checks/C10.py), not by a theorem.
   Property theorems only: each is closed by [exact <lemma>] and followed by Print Assumptions. *)
From Coq Require Import String.
From Verif Require Import Bytes WordEnc Writer.
From Verif Require Import Eml EmlRender EmlWriter.
From VerifGen Require Import Gen.
From VerifProofs Require Import EmlProofs EmlRenderProofs EmlWriterProofs.

(* (A) For every parsed message (any header content, any part tree) and whichever of From/To/Cc are
   present, the top-level header block written by the next render names no field twice.
   The list of generic headers the parser copies is the one in the source (Gen.eml_common_headers). *)
Theorem C10_rerender_no_duplicate_field : forall (t : top) (st : mstate) (has_from has_to has_cc : bool),
  parse_eml_fixed t = Ok st -> NoDup (rerender_fields st has_from has_to has_cc).
Proof. exact rerender_no_dup. Qed.
Print Assumptions C10_rerender_no_duplicate_field.

(* T1 obligation behind (A): the fields the writer emits itself are not copied by the parser *)
Theorem C10_writer_fields_not_copied :
  forallb (fun k => negb (memb k (extra_keys ++ allowed_keys))) writer_fields = true.
Proof. exact writer_fields_not_generic. Qed.
Print Assumptions C10_writer_fields_not_copied.

(* Before the repair (Content-Type copied into the generic headers): two Content-Type fields *)
Theorem C10_dup_content_type_before_fix_refuted :
  exists st, parse_eml filename_of true single_part_msg = Ok st /\
             nodupb (rerender_fields st true true false) = false /\
             Nat.ltb 1 (count_occ (list_eq_dec N.eq_dec) (rerender_fields st true true false) hdr_content_type) = true.
Proof. exact rerender_dup_content_type_old. Qed.
Print Assumptions C10_dup_content_type_before_fix_refuted.

(* Before the repair: a nested multipart/alternative container is added as a body part *)
Theorem C10_phantom_alternative_before_fix_refuted :
  exists st, parse_eml filename_of true nested_example = Ok st /\ length (m_parts st) = 3%nat /\
             exists st', parse_eml_fixed nested_example = Ok st' /\ length (m_parts st') = 2%nat.
Proof. exact phantom_alternative_old. Qed.
Print Assumptions C10_phantom_alternative_before_fix_refuted.

(* (B) The parser returns verbatim what the writer put between the quotes of filename="…", for every
   disposition and every encoded name without ';' (so '=' and blanks survive) … *)
Theorem C10_filename_roundtrip_partial : forall disp encoded : bytes,
  has 59 disp = false -> has 59 encoded = false ->
  parse_cd_filename filename_of (render_cd disp encoded) = Ok encoded.
Proof. exact parse_cd_render. Qed.
Print Assumptions C10_filename_roundtrip_partial.

(* … hence a name without ';' comes back as its sanitized form, and unchanged if sanitizeFilename
   (byte predicate taken from the source) does not touch it *)
Theorem C10_filename_roundtrip_ascii : forall name : bytes,
  has 59 name = false -> roundtrip_filename name = Ok (sanitize name).
Proof. exact roundtrip_filename_ok. Qed.
Print Assumptions C10_filename_roundtrip_ascii.

Theorem C10_sanitize_identity : forall name : bytes,
  forallb (fun b => negb (sanitize_bad b)) name = true -> sanitize name = name.
Proof. exact sanitize_id. Qed.
Print Assumptions C10_sanitize_identity.

(* file names with ';' are not recovered (known finding filename-semicolon) *)
Theorem C10_filename_semicolon_refuted :
  roundtrip_filename (bs "a;b.txt") = Ok (bs """a") /\ has 59 (bs "a;b.txt") = true.
Proof. exact roundtrip_semicolon_refuted. Qed.
Print Assumptions C10_filename_semicolon_refuted.

(* RFC 2047 encoded names are not decoded: by C10_filename_roundtrip_partial the parser returns the
   encoded word itself, e.g. for the Q-encoding of "ä.txt" (known finding filename-encoded-word) *)
Example C10_filename_encoded_word_refuted :
  parse_cd_filename filename_of (render_cd lit_attachment (bs "=?UTF-8?q?=C3=A4.txt?="))
  = Ok (bs "=?UTF-8?q?=C3=A4.txt?=").
Proof. vm_compute. reflexivity. Qed.

(* ---------- tier B: the same path with the REAL writer model in front (Writer.file_hdrs) ----------
   For every file whose header cache holds no Content-Disposition yet (any cached Content-Type, encoding,
   description), attachment or embed, Q or B word encoder: what addFiles stores as Content-Disposition
   is parsed back to exactly the word-encoded sanitized name, provided that has no ';'. *)
Theorem C10_filename_via_writer_partial : forall (wenc : N) (is_att : bool) (f : Writer.file),
  Writer.get_h Writer.h_cdisp (Writer.f_hdr f) = None ->
  has 59 (word_encode wenc (EmlRender.sanitize (Writer.f_name f))) = false ->
  filename_via_writer wenc is_att f = Ok (word_encode wenc (EmlRender.sanitize (Writer.f_name f))).
Proof. exact filename_via_writer_ok. Qed.
Print Assumptions C10_filename_via_writer_partial.

(* … so a name without ';' that the word encoder leaves alone comes back as its sanitized form … *)
Theorem C10_filename_via_writer_plain : forall (wenc : N) (is_att : bool) (f : Writer.file),
  Writer.get_h Writer.h_cdisp (Writer.f_hdr f) = None ->
  WordEnc.needs_encoding (EmlRender.sanitize (Writer.f_name f)) = false ->
  has 59 (Writer.f_name f) = false ->
  filename_via_writer wenc is_att f = Ok (EmlRender.sanitize (Writer.f_name f)).
Proof. exact filename_via_writer_plain. Qed.
Print Assumptions C10_filename_via_writer_plain.

(* … and a name that needs RFC 2047 encoding is NEVER recovered (known finding filename-encoded-word):
   the parser returns the encoded word, which differs from the name for every such name *)
Theorem C10_filename_via_writer_encoded_refuted : forall (wenc : N) (is_att : bool) (f : Writer.file),
  (wenc = 113%N \/ wenc = 98%N) ->
  Writer.get_h Writer.h_cdisp (Writer.f_hdr f) = None ->
  wf_bytes (EmlRender.sanitize (Writer.f_name f)) = true ->
  WordEnc.needs_encoding (EmlRender.sanitize (Writer.f_name f)) = true ->
  has 59 (word_encode wenc (EmlRender.sanitize (Writer.f_name f))) = false ->
  exists r, filename_via_writer wenc is_att f = Ok r /\ r <> EmlRender.sanitize (Writer.f_name f).
Proof. exact filename_via_writer_encoded. Qed.
Print Assumptions C10_filename_via_writer_encoded_refuted.

(* witnesses through the real writer model (fresh files, Q encoder): '=' and blank survive, ';' cuts,
   non-ASCII comes back encoded *)
Example C10_via_writer_plain_example :
  filename_via_writer 113 true (fresh_file (bs "a=b c.txt") (bs "text/plain")) = Ok (bs "a=b c.txt").
Proof. exact via_writer_plain_example. Qed.
Example C10_via_writer_semicolon_refuted :
  filename_via_writer 113 true (fresh_file (bs "a;b.txt") (bs "text/plain")) = Ok (bs """a").
Proof. exact via_writer_semicolon_refuted. Qed.
Example C10_via_writer_encoded_word_refuted :
  filename_via_writer 113 false (fresh_file [195%N; 164%N; 46%N; 116%N; 120%N; 116%N] (bs "text/plain"))
  = Ok (bs "=?UTF-8?q?=C3=A4.txt?=").
Proof. exact via_writer_encoded_refuted. Qed.

(* ---------- the transfer encoding of a parsed body part is local to the part ----------
   Whatever was parsed before (any two predecessor states, drained or not), a body part that is appended
   gets the encoding [part_enc_of_hdr] computes from the part's OWN header: its Content-Transfer-Encoding,
   or quoted-printable when the stdlib multipart reader has stripped that header. *)
Theorem C10_part_encoding_local : forall fnof legacy p d1 d2 s1 s2 s1' s2' x1 x2,
  hvals (e_hdr p) hdr_content_disposition = [] ->
  body_phase fnof legacy p d1 s1 = Ok s1' -> body_phase fnof legacy p d2 s2 = Ok s2' ->
  m_parts s1' = m_parts s1 ++ [x1] -> m_parts s2' = m_parts s2 ++ [x2] ->
  p_enc x1 = p_enc x2 /\ part_enc_of_hdr (e_hdr p) = Some (p_enc x1).
Proof. exact part_enc_independent. Qed.
Print Assumptions C10_part_encoding_local.

Theorem C10_part_encoding_default_qp : forall h : hdr,
  hvals h hdr_content_transfer_enc = [] -> part_enc_of_hdr h = Some enc_qp.
Proof. exact part_enc_default_qp. Qed.
Print Assumptions C10_part_encoding_default_qp.

(* non-vacuity of (A) *)
Example C10_example :
  exists st, parse_eml_fixed nested_example = Ok st /\
             rerender_fields st true true false =
             [hdr_date; hdr_mime_version; hdr_message_id; hdr_user_agent; hdr_x_mailer; hdr_from; hdr_to; hdr_content_type].
Proof. eexists. split; vm_compute; reflexivity. Qed.
