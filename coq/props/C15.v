(* C15 — SCRAM authenticates the server.
   Property theorems only: each is closed by [exact <lemma>] and followed by Print Assumptions.
   Model: coq/theories/Scram.v (scramAuth), AuthLoop.v (smtp.Client.Auth), Sasl.v (scram_mech);
   proofs: coq/proofs/ScramProofs.v.  H, HMAC, hsize, the PRECIS oracle, the credentials, the prior state of
   the scramAuth value, the randomness oracle and the reply script are universally quantified. *)
From Coq Require Import String ZArith.
From Verif Require Import Bytes Base64 Scram AuthLoop Sasl Crypto SaslRun.
From VerifGen Require Import Gen.
From VerifProofs Require Import ScramProofs.
Open Scope N_scope.

(* T1: the working tree contains the three repairs (Start resets the state; a server-final needs a processed
   server-first; a success reply for a running exchange needs the verified signature) and Next answers an empty
   challenge by reset() + initialClientMessage() *)
Theorem C15_source_has_repairs : gen_scram_cfg = cfg_fixed.
Proof. exact gen_scram_cfg_fixed. Qed.
Print Assumptions C15_source_has_repairs.

Theorem C15_source_literals :
  Gen.scram_lits_client_proof = [bs "Client Key"] /\ Gen.scram_lits_server_sig = [bs "Server Key"] /\
  Gen.scram_nonce_bytes = 24 /\
  existsb (bytes_eqb (bs "n,,")) Gen.scram_lits_initial = true /\
  existsb (bytes_eqb (bs "tls-unique")) Gen.scram_lits_initial = true /\
  existsb (bytes_eqb (bs "tls-exporter")) Gen.scram_lits_initial = true /\
  existsb (bytes_eqb (bs "EXPORTER-Channel-Binding")) Gen.scram_lits_initial = true /\
  existsb (bytes_eqb (bs "c=biws,r=")) Gen.scram_lits_server_first = true /\
  Gen.smtp_auth_code_more = Gen.smtp_auth_code_challenge.
Proof. exact gen_scram_literals. Qed.
Print Assumptions C15_source_literals.

(* T1: the nonce test of handleServerFirstResponse is the source's  len(a.nonce) == 0 || !bytes.HasPrefix(combinedNonce, a.nonce)
   over combinedNonce := parts[0][2:] (any other shape is untranslatable and breaks this obligation); the model uses it, so
   the server-first the theorems speak of has a nonce that EXTENDS (has as prefix) the client nonce: is_prefix cn combined *)
Theorem C15_source_nonce_check : forall nonce_nil has_prefix,
  Gen.scram_nonce_check nonce_nil has_prefix = nonce_nil || negb has_prefix.
Proof. exact gen_nonce_check. Qed.
Print Assumptions C15_source_nonce_check.

(* smtp.Client.Auth ends its loop with the result nil whenever Next returns (nil, nil) - also on a 334 (inherited from
   net/smtp; modelled in AuthLoop.auth_loop).  For scramAuth this cannot happen on a challenge: *)
Theorem C15_source_error_returns_constructed : Gen.scram_error_returns_constructed = true.
Proof. exact gen_error_returns_constructed. Qed.
Print Assumptions C15_source_error_returns_constructed.

Theorem C15_challenge_never_ends_exchange : forall H HMAC hsize precis id s msg s',
  m_next (scram_mech H HMAC hsize precis gen_scram_cfg id) s msg true <> (s', Some None).
Proof. exact scram_challenge_never_nil. Qed.
Print Assumptions C15_challenge_never_ends_exchange.

(* ---- several dialogues in one process ----
   T1: nothing outside the scramAuth value carries over (no package-level variable in internal/pbkdf2, none of package smtp
   assigned by a scramAuth method, reset() only assigns fields and does not write through the old slices), so a dialogue
   is a function of its scramAuth value, the oracle and the replies - as in the model, where derivations are pure *)
Theorem C15_source_no_cross_dialogue_state :
  Gen.pbkdf2_package_vars = [] /\ Gen.scram_package_var_writes = [] /\ Gen.scram_reset_only_assigns_fields = true.
Proof. exact gen_no_cross_dialogue_state. Qed.
Print Assumptions C15_source_no_cross_dialogue_state.

(* and every dialogue of every sequence of dialogues - fresh or reused values in any state, any remainder of the randomness
   oracle - satisfies the single-dialogue statement below *)
Theorem C15_every_dialogue_of_a_sequence :
  forall (H : bytes -> bytes) (HMAC : bytes -> bytes -> bytes) (hsize : nat) (precis : bytes -> option bytes)
         (id : scram_id) (lad a0 : bool) (ds : list (scram_state * list bytes * list reply)),
    Forall (fun d => Forall (fun r => is_nil r = false) (snd (fst d))) ds ->
    Forall (fun d =>
      let f := auth (scram_mech H HMAC hsize precis gen_scram_cfg id) lad a0 (fst (fst d), snd (fst d)) (snd d) in
      f_res f = ASuccess ->
      (exists l0 e tail t3 m rest,
          snd d = l0 ++ Reply code_challenge e :: tail ++ Reply code_success m :: rest /\
          RunningExchange HMAC hsize precis id (snd (fst d)) (o_sent (f_out f)) l0 e tail t3)
      \/ (exists m rest, snd d = Reply code_success m :: rest)) ds.
Proof. exact scram_every_dialogue_authenticated. Qed.
Print Assumptions C15_every_dialogue_of_a_sequence.

(* For every reply script: success implies that the script has the shape
     l0 ++ [empty challenge e] ++ tail ++ [success reply] ++ rest
   where [tail] contains NO further empty challenge (the exchange started by [e] is the one RUNNING when the success reply
   arrives: a restart would be an empty challenge in [tail]), the client-first written in answer to [e] (line S |l0| on the
   wire) carries a fresh nonce from the oracle, and [tail] contains a well-formed server-first whose nonce extends that
   nonce and, later, the ServerSignature over this exchange's AuthMessage under the salted password — RunningExchange in
   ScramProofs.v — unless the very first reply is the success code (recorded known finding success-reply-without-exchange).
   (Strengthened 2026-10-01: the earlier statement only demanded SOME valid exchange in a prefix of the script and was
   satisfied by a client that keeps the verified flag across a restart inside one AUTH dialogue.) *)
Theorem C15_success_implies_authenticated :
  forall (H : bytes -> bytes) (HMAC : bytes -> bytes -> bytes) (hsize : nat) (precis : bytes -> option bytes)
         (id : scram_id) (rands : list bytes) (st : scram_state) (lad a0 : bool) (script : list reply),
    Forall (fun r => is_nil r = false) rands ->
    let f := auth (scram_mech H HMAC hsize precis gen_scram_cfg id) lad a0 (st, rands) script in
    f_res f = ASuccess ->
    (exists l0 e tail t3 m rest,
        script = l0 ++ Reply code_challenge e :: tail ++ Reply code_success m :: rest /\
        RunningExchange HMAC hsize precis id rands (o_sent (f_out f)) l0 e tail t3)
    \/ (exists m rest, script = Reply code_success m :: rest).
Proof. exact scram_success_authenticated. Qed.
Print Assumptions C15_success_implies_authenticated.

(* The client acknowledges (empty line) only a server-final that is valid for the exchange running at that point: the
   replies up to the acknowledgement are l0 ++ [empty challenge] ++ tail, no restart in tail, tail ends with that
   server-final (t3 = []).  No exception. *)
Theorem C15_ack_only_for_valid_final :
  forall (H : bytes -> bytes) (HMAC : bytes -> bytes -> bytes) (hsize : nat) (precis : bytes -> option bytes)
         (id : scram_id) (rands : list bytes) (st : scram_state) (lad a0 : bool) (script : list reply),
    Forall (fun r => is_nil r = false) rands ->
    let f := auth (scram_mech H HMAC hsize precis gen_scram_cfg id) lad a0 (st, rands) script in
    forall s1 s2 : list bytes, o_sent (f_out f) = s1 ++ ([] : bytes) :: s2 ->
      exists l0 e tail,
        firstn (length s1) script = l0 ++ Reply code_challenge e :: tail /\
        RunningExchange HMAC hsize precis id rands s1 l0 e tail [].
Proof. exact scram_ack_only_valid_final. Qed.
Print Assumptions C15_ack_only_for_valid_final.

(* the conclusion really excludes a restarted exchange: [empty, server-first, server-final, empty, 235] does not have
   the required shape, whatever the messages are *)
Theorem C15_restart_invalidates_earlier_exchange :
  forall HMAC hsize precis id rands sent mf mv m,
    go_b64dec mf <> Some [] -> go_b64dec mv <> Some [] ->
    ~ (exists l0 e tail t3 m' rest,
        [Reply code_challenge []; Reply code_challenge mf; Reply code_challenge mv; Reply code_challenge []; Reply code_success m]
          = l0 ++ Reply code_challenge e :: tail ++ Reply code_success m' :: rest /\
        RunningExchange HMAC hsize precis id rands sent l0 e tail t3).
Proof. exact restart_invalidates_earlier_exchange. Qed.
Print Assumptions C15_restart_invalidates_earlier_exchange.

(* The full statement (without the exception) is false of the code: a 235 answering the AUTH command. *)
Theorem C15_bare_success_refuted :
  forall (H : bytes -> bytes) (HMAC : bytes -> bytes -> bytes) (hsize : nat) (precis : bytes -> option bytes)
         (id : scram_id) (rands : list bytes) (st : scram_state),
  exists script,
    let f := auth (scram_mech H HMAC hsize precis gen_scram_cfg id) false false (st, rands) script in
    f_res f = ASuccess /\
    ~ (exists l0 e tail t3 m rest,
        script = l0 ++ Reply code_challenge e :: tail ++ Reply code_success m :: rest /\
        RunningExchange HMAC hsize precis id rands (o_sent (f_out f)) l0 e tail t3).
Proof. exact scram_bare_success_refuted. Qed.
Print Assumptions C15_bare_success_refuted.

(* ---- concrete instances (SCRAM-SHA-256, executable crypto): the honest exchange succeeds; the behaviour of
   the code before the repairs (cfg_old) is refuted on the three inputs of DESIGN.md section 6 row 14 ---- *)
Definition ex_id : scram_id :=
  {| sid_user := bs "user"; sid_pass := bs "pencil"; sid_algo := bs "SCRAM-SHA-256"; sid_plus := false; sid_tls := None |}.
Definition ex_precis : bytes -> option bytes := fun s => Some s.
Definition ex_key (pass : bytes) : bytes := hmac_sha256 (Hi hmac_sha256 pass (bs "saltSALTsalt") 2) (bs "Server Key").
Definition ex_params : srv_params :=
  {| sp_salt := bs "saltSALTsalt"; sp_iter := 2; sp_server_key := ex_key (bs "pencil");
     sp_other_key := ex_key (bs "wrong-password"); sp_empty_key := hmac_sha256 [] (bs "Server Key");
     sp_zero_key := hmac_sha256 (repeat 0 32) (bs "Server Key");
     sp_nonce := bs "srvNONCE" |}.
Definition ex_rands : list bytes := [repeat 7 24; repeat 9 24].

Example C15_honest_exchange_succeeds :
  fst (c15_run true cfg_fixed ex_precis ex_id ex_params ex_rands [6; 0; 3; 8]) = bs "OK".
Proof. vm_compute. reflexivity. Qed.

Example C15_before_fix_refuted_empty_state :    (* v= computed over empty state, then 235 *)
  fst (c15_run true cfg_old ex_precis ex_id ex_params ex_rands [5; 8]) = bs "OK" /\
  fst (c15_run true cfg_fixed ex_precis ex_id ex_params ex_rands [5; 8]) = bs "EMECH".
Proof. vm_compute. split; reflexivity. Qed.

Example C15_before_fix_refuted_skipped_proof :  (* client-first, server-first, then 235 without server-final *)
  fst (c15_run true cfg_old ex_precis ex_id ex_params ex_rands [6; 0; 8]) = bs "OK" /\
  fst (c15_run true cfg_fixed ex_precis ex_id ex_params ex_rands [6; 0; 8]) = bs "EMECH".
Proof. vm_compute. split; reflexivity. Qed.

Example C15_before_fix_refuted_replay :         (* honest call, then a second call on the same value: replayed server-final *)
  fst (snd (c15_retry true cfg_old ex_precis ex_id ex_params ex_rands [6; 0; 3; 8] [10; 8])) = bs "OK" /\
  nth 1 (snd (snd (c15_retry true cfg_old ex_precis ex_id ex_params ex_rands [6; 0; 3; 8] [10; 8]))) [1] = [] /\
  fst (snd (c15_retry true cfg_fixed ex_precis ex_id ex_params ex_rands [6; 0; 3; 8] [10; 8])) = bs "EMECH".
Proof. vm_compute. repeat split; reflexivity. Qed.

(* a client that does NOT reset on the empty challenge (restart_resets = false) is refuted: the verified flag of the
   first exchange survives the restart; symbol 11 = the earlier server-final resent after the restart *)
Definition cfg_no_restart_reset : scram_cfg :=
  {| start_resets := true; final_requires_first := true; done_requires_verified := true; restart_resets := false |}.

Example C15_restart_without_reset_refuted :
  fst (c15_run true cfg_no_restart_reset ex_precis ex_id ex_params ex_rands [6; 0; 3; 6; 8]) = bs "OK" /\
  fst (c15_run true cfg_fixed ex_precis ex_id ex_params ex_rands [6; 0; 3; 6; 8]) = bs "EMECH" /\
  nth 5 (snd (c15_run true cfg_no_restart_reset ex_precis ex_id ex_params ex_rands [6; 0; 3; 6; 11])) [1] = [] /\
  nth 5 (snd (c15_run true cfg_fixed ex_precis ex_id ex_params ex_rands [6; 0; 3; 6; 11])) [1] = bs "*".
Proof. vm_compute. repeat split; reflexivity. Qed.
