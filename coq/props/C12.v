(* C12 — Render failures are reported: never a panic, never silent success; the returned count
   equals the number of bytes the destination accepted.
   Model: coq/theories/Writer.v (msgWriter, multipart.Writer, fault-injecting sinks and producers). *)
From Coq Require Import String.
From Verif Require Import Bytes Writer.
From VerifProofs Require Import WriterProofs.

(* For every message (any parts / embeds / attachments / encodings / headers / cached state),
   every destination behaviour of the modelled family (accepts k bytes then fails, for every k,
   recovering afterwards or not) and every producer behaviour: WriteTo does not panic. *)
Theorem C12_no_panic : forall (date msgid : bytes) (rb : list bytes) (m : msg) (k : sink),
  fresh_sink k -> r_panic (write_to date msgid rb m k) = false.
Proof. exact write_to_no_panic. Qed.
Print Assumptions C12_no_panic.

(* The returned byte count equals the number of bytes the destination accepted — on failure and
   on success alike (on success: the length of the output). *)
Theorem C12_count : forall (date msgid : bytes) (rb : list bytes) (m : msg) (k : sink),
  fresh_sink k -> r_n (write_to date msgid rb m k) = length (r_out (write_to date msgid rb m k)).
Proof. exact write_to_count. Qed.
Print Assumptions C12_count.

(* If the destination rejected any Write (at whatever offset, also when it recovers later),
   WriteTo returns a non-nil error. *)
Theorem C12_sink_failure_reported : forall (date msgid : bytes) (rb : list bytes) (m : msg) (k : sink),
  fresh_sink k ->
  failed (snk (fst (write_msg date msgid rb m (mw_init k)))) = true ->
  r_err (write_to date msgid rb m k) = true.
Proof. exact write_to_sink_failure_reported. Qed.
Print Assumptions C12_sink_failure_reported.

(* If any body / embed / attachment producer of the message fails (before or after emitting
   data), WriteTo returns a non-nil error — whatever the destination does. *)
Theorem C12_producer_failure_reported : forall (date msgid : bytes) (rb : list bytes) (m : msg) (k : sink),
  fresh_sink k -> msg_has_failing_producer m = true ->
  r_err (write_to date msgid rb m k) = true.
Proof. exact write_to_producer_failure_reported. Qed.
Print Assumptions C12_producer_failure_reported.

(* non-vacuity: a two-part message with an attachment against a destination failing at byte 300 *)
Definition ex_part (ct : bytes) : part := mkpart ct [] EncQP [] (mkprod [bs "Hello"; bs " world"] false).
Definition ex_file : file := mkfile (bs "a.bin") (bs "application/octet-stream") None [] [] (mkprod [bs "data"] false).
Definition ex_msg : msg :=
  mkmsg (bs "UTF-8") 113 [(bs "Subject", [bs "s"])] [] (Some (bs "<a@x.test>")) [(bs "To", [bs "<b@y.test>"])]
        [ex_part (bs "text/plain"); ex_part (bs "text/html")] [] [ex_file] [] [] [].
Example C12_example :
  let r := write_to (bs "d") (bs "i") [bs "B1"; bs "B2"; bs "B3"] ex_msg (fail_at 300 false) in
  r_err r = true /\ r_panic r = false /\ r_n r = 300 /\ fresh_sink (fail_at 300 false) /\
  r_err (write_to (bs "d") (bs "i") [bs "B1"; bs "B2"; bs "B3"] ex_msg unlimited) = false.
Proof. vm_compute. repeat split; reflexivity. Qed.

(* ---------------- never silent success, the strong form ----------------
   On EVERY destination of the modelled family (any capacity, recovering or not): if WriteTo
   reports no error, the destination never rejected a Write and holds the COMPLETE rendering —
   byte for byte what a destination without limit receives — and the returned count is its
   length.  (proofs/CompleteOutputProofs.v: every writer operation commutes with forgetting the
   destination's capacity as long as no Write was rejected, and a rejection is never forgotten.) *)
From VerifProofs Require Import CompleteOutputProofs.

Theorem C12_success_means_complete : forall (date msgid : bytes) (rb : list bytes) (m : msg) (k : sink),
  fresh_sink k ->
  r_err (write_to date msgid rb m k) = false ->
  failed (snk (fst (write_msg date msgid rb m (mw_init k)))) = false /\
  r_out (write_to date msgid rb m k) = r_out (write_to date msgid rb m unlimited) /\
  r_n (write_to date msgid rb m k) = length (r_out (write_to date msgid rb m unlimited)) /\
  r_err (write_to date msgid rb m unlimited) = false.
Proof. exact success_means_complete. Qed.
Print Assumptions C12_success_means_complete.

(* … which is the pure rendering of the message (coq/theories/Render.v) *)
Theorem C12_success_means_pure : forall (date msgid : bytes) (rb : list bytes) (m : msg) (k : sink),
  fresh_sink k -> RenderProofs.no_bad_boundary (resolve date msgid rb m) ->
  r_err (write_to date msgid rb m k) = false ->
  r_out (write_to date msgid rb m k) = Render.render_pure (resolve date msgid rb m) /\
  r_n (write_to date msgid rb m k) = length (Render.render_pure (resolve date msgid rb m)).
Proof. exact success_means_pure. Qed.
Print Assumptions C12_success_means_pure.

(* the same for the S/MIME (multipart/signed) render *)
Theorem C12_signed_success_means_complete :
  forall (signer : bytes -> bytes) (date msgid : bytes) (rb : list bytes) (sb : bytes) (m : msg) (k : sink),
  fresh_sink k ->
  Smime.s_err (Smime.write_to_signed signer date msgid rb sb m k) = false ->
  Smime.s_out (Smime.write_to_signed signer date msgid rb sb m k) = Smime.s_out (Smime.write_to_signed signer date msgid rb sb m unlimited) /\
  Smime.s_n (Smime.write_to_signed signer date msgid rb sb m k) = length (Smime.s_out (Smime.write_to_signed signer date msgid rb sb m unlimited)) /\
  Smime.s_err (Smime.write_to_signed signer date msgid rb sb m unlimited) = false.
Proof. exact signed_success_means_complete. Qed.
Print Assumptions C12_signed_success_means_complete.

(* a RECOVERING destination: it rejects the Write that crosses byte 20 and would accept every later
   one (the destination as the render leaves it accepts a further Write) — the render still reports
   the error, and what the destination holds is NOT the complete rendering.  A destination that
   is just large enough gets everything, without error. *)
Example C12_recovering_sink_example :
  let big := write_to (bs "d") (bs "i") [bs "B1"; bs "B2"; bs "B3"] ex_msg unlimited in
  let r := write_to (bs "d") (bs "i") [bs "B1"; bs "B2"; bs "B3"] ex_msg (fail_at 20 true) in
  let k' := snk (fst (write_msg (bs "d") (bs "i") [bs "B1"; bs "B2"; bs "B3"] ex_msg (mw_init (fail_at 20 true)))) in
  let ok := write_to (bs "d") (bs "i") [bs "B1"; bs "B2"; bs "B3"] ex_msg (fail_at (length (r_out big)) false) in
  r_err r = true /\ r_n r = 20 /\ Nat.ltb (r_n r) (length (r_out big)) = true /\
  snd (sink_write k' (bs "a later write")) = false /\
  r_err ok = false /\ r_out ok = r_out big.
Proof. vm_compute. repeat split; reflexivity. Qed.
