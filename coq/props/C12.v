(* C12 — Render failures are reported: never a panic, never silent success; the returned count
   equals the number of bytes the destination accepted.
   Model: coq/theories/Writer.v (msgWriter, multipart.Writer, fault-injecting sinks and producers). *)
From Coq Require Import String.
From Verif Require Import Bytes Writer.
From VerifProofs Require Import WriterProofs.

(* For every message (any parts / embeds / attachments / encodings / headers / cached state),
   every destination behaviour of the modelled family (accepts k bytes then fails, for every k,
   recovering afterwards or not) and every producer behaviour: WriteTo does not panic. *)
Theorem C12_no_panic : forall (date msgid : bytes) (rb : list bytes) (m : msg) (k : sink),
  fresh_sink k -> r_panic (write_to date msgid rb m k) = false.
Proof. exact write_to_no_panic. Qed.
Print Assumptions C12_no_panic.

(* The returned byte count equals the number of bytes the destination accepted — on failure and
   on success alike (on success: the length of the output). *)
Theorem C12_count : forall (date msgid : bytes) (rb : list bytes) (m : msg) (k : sink),
  fresh_sink k -> r_n (write_to date msgid rb m k) = length (r_out (write_to date msgid rb m k)).
Proof. exact write_to_count. Qed.
Print Assumptions C12_count.

(* If the destination rejected any Write (at whatever offset, also when it recovers later),
   WriteTo returns a non-nil error. *)
Theorem C12_sink_failure_reported : forall (date msgid : bytes) (rb : list bytes) (m : msg) (k : sink),
  fresh_sink k ->
  failed (snk (fst (write_msg date msgid rb m (mw_init k)))) = true ->
  r_err (write_to date msgid rb m k) = true.
Proof. exact write_to_sink_failure_reported. Qed.
Print Assumptions C12_sink_failure_reported.

(* If any body / embed / attachment producer of the message fails (before or after emitting
   data), WriteTo returns a non-nil error — whatever the destination does. *)
Theorem C12_producer_failure_reported : forall (date msgid : bytes) (rb : list bytes) (m : msg) (k : sink),
  fresh_sink k -> msg_has_failing_producer m = true ->
  r_err (write_to date msgid rb m k) = true.
Proof. exact write_to_producer_failure_reported. Qed.
Print Assumptions C12_producer_failure_reported.

(* non-vacuity: a two-part message with an attachment against a destination failing at byte 300 *)
Definition ex_part (ct : bytes) : part := mkpart ct [] EncQP [] (mkprod [bs "Hello"; bs " world"] false).
Definition ex_file : file := mkfile (bs "a.bin") (bs "application/octet-stream") None [] [] (mkprod [bs "data"] false).
Definition ex_msg : msg :=
  mkmsg (bs "UTF-8") 113 [(bs "Subject", [bs "s"])] [] (Some (bs "<a@x.test>")) [(bs "To", [bs "<b@y.test>"])]
        [ex_part (bs "text/plain"); ex_part (bs "text/html")] [] [ex_file] [] [] [].
Example C12_example :
  let r := write_to (bs "d") (bs "i") [bs "B1"; bs "B2"; bs "B3"] ex_msg (fail_at 300 false) in
  r_err r = true /\ r_panic r = false /\ r_n r = 300 /\ fresh_sink (fail_at 300 false) /\
  r_err (write_to (bs "d") (bs "i") [bs "B1"; bs "B2"; bs "B3"] ex_msg unlimited) = false.
Proof. vm_compute. repeat split; reflexivity. Qed.
