(* C09 — EML parsing is total: the parser returns a message or an error, it never panics, and it
   terminates (the model is a structurally recursive Gallina function over the finite part tree
   the stdlib multipart reader yields).
   Property theorems only: each is closed by [exact <lemma>] and followed by Print Assumptions. *)
From Coq Require Import String.
From Verif Require Import Bytes Eml.
From VerifGen Require Import Gen.
From Coq Require Import ZArith.
From VerifProofs Require Import EmlProofs EmlSites.

(* For every header content, every result of the stdlib readers (address / date / media-type parsers,
   the part tree of every nesting depth, failing decoders and readers), the repaired parser does not
   panic at any index or slice expression of eml.go. *)
Theorem C09_no_panic : forall t : top, parse_eml_fixed t <> Panic.
Proof. exact eml_no_panic. Qed.
Print Assumptions C09_no_panic.

(* … and it is total: a message or an error *)
Theorem C09_total : forall t : top, (exists st, parse_eml_fixed t = Ok st) \/ parse_eml_fixed t = Err.
Proof. exact eml_total. Qed.
Print Assumptions C09_total.

(* parseMultiPartHeader returns on every string *)
Theorem C09_parse_multipart_header_total : forall s : bytes, exists r, parse_multipart_header s = Ok r.
Proof. exact pmh_ok. Qed.
Print Assumptions C09_parse_multipart_header_total.

(* the file-name rule of the repaired tree returns on every parameter value *)
Theorem C09_filename_total : forall name : bytes, exists f, filename_of name = Ok f.
Proof. exact filename_of_ok. Qed.
Print Assumptions C09_filename_total.

(* T1: every index / slice / type assertion / panic call in eml.go (inventory regenerated from the
   working tree) is a site discharged by the lemmas above, under the guards they rely on *)
Theorem C09_panic_sites_discharged : sites_ok eml_panic_sites = true.
Proof. exact eml_sites_discharged. Qed.
Print Assumptions C09_panic_sites_discharged.

(* Before the repair (filename = name[1 : len(name)-1]): the slice panics exactly on parameter values
   shorter than two characters, and the whole parser panics on
   `Content-Disposition: attachment; filename=` (replayed on the real code by corpus/C09.txt). *)
Theorem C09_filename_before_fix_refuted : forall name : bytes,
  filename_of_old name = Panic <-> Z.lt (ilen name) 2%Z.
Proof. exact filename_of_old_panics_iff. Qed.
Print Assumptions C09_filename_before_fix_refuted.

Theorem C09_no_panic_before_fix_refuted : exists t : top, parse_eml_old t = Panic.
Proof. exact (ex_intro _ (witness_cd (bs "attachment; filename=")) eml_old_panics_empty). Qed.
Print Assumptions C09_no_panic_before_fix_refuted.

(* the repair leaves quoted values (what go-mail itself writes) untouched *)
Theorem C09_fix_conservative : forall body : bytes,
  filename_of (dquote :: body ++ [dquote]) = filename_of_old (dquote :: body ++ [dquote]).
Proof. exact filename_of_quoted_same. Qed.
Print Assumptions C09_fix_conservative.

(* non-vacuity: a nested multipart with an attachment and an embed parses to a message *)
Example C09_example :
  exists st, parse_eml_fixed nested_example = Ok st /\
             length (m_parts st) = 2%nat /\ length (m_atts st) = 1%nat /\ length (m_embs st) = 1%nat.
Proof. eexists. split; [vm_compute; reflexivity|]. vm_compute. auto. Qed.
