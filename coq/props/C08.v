(* C08 — S/MIME signatures verify for every message shape.
   Model: coq/theories/Smime.v (Msg.signMessage pre-render + header-line skip, multipart/signed
   render) on top of Writer.v; the CMS signer is an oracle function. *)
From Coq Require Import String.
From Verif Require Import Bytes Writer Smime.
From VerifGen Require Import Gen.
From VerifProofs Require Import WriterProofs SmimeProofs.

(* the multipart/signed wrapper announces protocol / micalg as required (constants regenerated
   from the source on every run) *)
Theorem C08_wrapper_constants :
  Gen.mime_smime_signed = bs "signed; protocol=""application/pkcs7-signature""; micalg=sha-256" /\
  Gen.smime_sig_type = bs "application/pkcs7-signature; name=""smime.p7s""".
Proof. exact gen_smime_wrapper. Qed.
Print Assumptions C08_wrapper_constants.

(* rendering a signed message, for every message, signer and destination: no panic, and the count
   equals the bytes the destination accepted *)
Theorem C08_signed_render_sound : forall (signer : bytes -> bytes) date msgid rb sb (m : msg) (k : sink),
  fresh_sink k ->
  let r := write_to_signed signer date msgid rb sb m k in
  s_panic r = false /\ s_n r = length (s_out r).
Proof. exact signed_render_sound. Qed.
Print Assumptions C08_signed_render_sound.

Theorem C08_signed_render_failure_reported : forall (signer : bytes -> bytes) date msgid rb sb (m : msg) (k : sink),
  fresh_sink k -> msg_has_failing_producer m = true ->
  s_err (write_to_signed signer date msgid rb sb m k) = true.
Proof. exact signed_render_failure_reported. Qed.
Print Assumptions C08_signed_render_failure_reported.

(* The central statement — the bytes handed to the signer are exactly the first body part of the
   emitted multipart/signed message, for every message shape:

     forall signer d i rb sb m, clean boundaries -> no failing producer ->
       sign_input (resolve d i rb m) = Some inp ->
       s_out (write_to_signed signer d i rb sb m unlimited)
         = top_headers ++ "Content-Type: multipart/signed; ...; boundary=" sb ++ CRLF CRLF
           ++ "--" sb CRLF ++ inp ++ CRLF "--" sb CRLF ++ signature_part(signer inp) ++ CRLF "--" sb "--" CRLF

   is proved in coq/props/C08.v once the pure-render refinement (coq/proofs/RenderProofs.v) is
   complete; until then it is established per run by the correspondence (model = implementation on
   every rendered byte AND SHA-256(model's signer input) = the CMS messageDigest of the real
   signature) and by the independent CMS verifier.  Instances, by computation: *)
Definition ex_part (ct : bytes) (d : bytes) : part := mkpart ct [] EncQP d (mkprod [bs "Hello"; bs " world"] false).
Definition ex_file (n : bytes) : file := mkfile n (bs "application/octet-stream") None [] [] (mkprod [bs "data"] false).
Definition ex_single : msg :=
  mkmsg (bs "UTF-8") 113 [(bs "Subject", [bs "s"])] [] (Some (bs "<a@x.test>")) [(bs "To", [bs "<b@y.test>"])]
        [ex_part (bs "text/plain") (bs "a description")] [] [] [] [] [].
Definition ex_full : msg :=
  mkmsg (bs "UTF-8") 113 [(bs "Subject", [bs "s"])] [(bs "X-P", bs "v")] (Some (bs "<a@x.test>")) [(bs "Cc", [])]
        [ex_part (bs "text/plain") []; ex_part (bs "text/html") (bs "d")] [ex_file (bs "logo.png")] [ex_file (bs "a long attachment name that is longer than the header folding limit of go-mail.bin")] [] [] [].
Definition ex_fileonly : msg :=
  mkmsg (bs "UTF-8") 113 [] [] None [] [] [] [ex_file (bs "only.bin")] [] [] [].
Definition ex_rb := [bs "b1b1"; bs "b2b2"; bs "b3b3"].

(* the emitted text right after the first delimiter starts with the signed bytes *)
Definition signed_is_first_part (m : msg) : bool :=
  let r := write_to_signed (fun _ => bs "SIG") (bs "d") (bs "i") ex_rb (bs "SB") m unlimited in
  match s_input r with
  | Some inp => occurs (bs "--SB" ++ crlf ++ inp ++ crlf ++ bs "--SB" ++ crlf) (s_out r) && negb (s_err r)
  | None => false
  end.
Example C08_examples :
  signed_is_first_part ex_single = true /\ signed_is_first_part ex_full = true /\ signed_is_first_part ex_fileonly = true.
Proof. vm_compute. repeat split; reflexivity. Qed.
