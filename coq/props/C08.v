(* C08 — S/MIME signatures verify for every message shape.
   Model: coq/theories/Smime.v (Msg.signMessage pre-render + header-line skip, multipart/signed
   render) on top of Writer.v; the CMS signer is an oracle function. *)
From Coq Require Import String.
From Verif Require Import Bytes HeaderFold Writer MimeTree MimeRead Render Smime.
From VerifGen Require Import Gen.
From VerifProofs Require Import WriterProofs SmimeProofs RenderIdemProofs RenderProofs MimeReadProofs SkipProofs SmimeMainProofs.

(* the multipart/signed wrapper announces protocol / micalg as required (constants regenerated
   from the source on every run) *)
Theorem C08_wrapper_constants :
  Gen.mime_smime_signed = bs "signed; protocol=""application/pkcs7-signature""; micalg=sha-256" /\
  Gen.smime_sig_type = bs "application/pkcs7-signature; name=""smime.p7s""".
Proof. exact gen_smime_wrapper. Qed.
Print Assumptions C08_wrapper_constants.

(* rendering a signed message, for every message, signer and destination: no panic, and the count
   equals the bytes the destination accepted *)
Theorem C08_signed_render_sound : forall (signer : bytes -> bytes) date msgid rb sb (m : msg) (k : sink),
  fresh_sink k ->
  let r := write_to_signed signer date msgid rb sb m k in
  s_panic r = false /\ s_n r = length (s_out r).
Proof. exact signed_render_sound. Qed.
Print Assumptions C08_signed_render_sound.

Theorem C08_signed_render_failure_reported : forall (signer : bytes -> bytes) date msgid rb sb (m : msg) (k : sink),
  fresh_sink k -> msg_has_failing_producer m = true ->
  s_err (write_to_signed signer date msgid rb sb m k) = true.
Proof. exact signed_render_failure_reported. Qed.
Print Assumptions C08_signed_render_failure_reported.

(* ---------------- the central statement ----------------
   Pure view of the rendering: coq/theories/Render.v (forest_gen true z = the body entity in the
   enclosed form of the S/MIME pre-render, ser_node = its bytes); refinement: proofs/RenderProofs.v;
   this section: proofs/SmimeMainProofs.v. *)

(* the header-line counter signMessage skips by: for EVERY message (any header content, also
   preformatted, empty or multi-line fields) it equals the number of line ends of the top-level
   header block, which consists of complete lines; the body entity never touches it *)
Theorem C08_header_count : forall (z : rmsg) (st : mw),
  hcount (write_top_headers z st) = (hcount st + count_crlf (top_headers (z_msg z)))%nat /\
  complete (top_headers (z_msg z)).
Proof. exact hc_write_top_headers. Qed.
Print Assumptions C08_header_count.

Theorem C08_entity_keeps_count : forall (encl : bool) (z : rmsg) (st : mw),
  hcount (write_entity encl z st) = hcount st.
Proof. exact hc_write_entity. Qed.
Print Assumptions C08_entity_keeps_count.

(* what the signer is given: exactly the body entity (for every shape with any content) *)
Theorem C08_sign_input_is_entity : forall (z : rmsg) (t : node),
  no_bad_boundary z -> rmsg_has_failing_producer z = false ->
  forest_gen true z = [t] ->
  sign_input z = Some (ser_node t).
Proof. exact sign_input_is_entity. Qed.
Print Assumptions C08_sign_input_is_entity.

(* "one entity" holds as soon as the message has a body part, an embed or an attachment *)
Theorem C08_one_entity : forall (d i : bytes) (rb : list bytes) (m : msg),
  (1 <= length (m_parts m) + length (m_embeds m) + length (m_attach m))%nat ->
  exists t, forest_gen true (resolve d i rb m) = [t].
Proof. exact resolved_forest_single. Qed.
Print Assumptions C08_one_entity.

(* THE EMITTED MESSAGE is the multipart/signed frame whose FIRST child is byte for byte the
   signer's input and whose second child is the signature part — for every signer, wrapper
   boundary and message shape; no error, no panic *)
Theorem C08_signed_eq_emitted : forall (signer : bytes -> bytes) (d i : bytes) (rb : list bytes) (sb : bytes) (m : msg) (t : node),
  let z := resolve d i rb m in
  no_bad_boundary z -> msg_has_failing_producer m = false ->
  forest_gen true z = [t] ->
  let r := write_to_signed signer d i rb sb m unlimited in
  s_err r = false /\ s_panic r = false /\ s_input r = Some (ser_node t) /\
  s_out r = top_headers (z_msg z) ++ signed_ctype_field sb ++ Gen.double_newline ++
            mp_frame sb [ser_node t; sig_leaf_text (signer (ser_node t))].
Proof. exact signed_output_form. Qed.
Print Assumptions C08_signed_eq_emitted.

(* an independent reader (MimeRead.v, RFC 2046) splitting the body of the emitted message at the
   wrapper boundary finds two parts, the first of which is the signed bytes.  Hypothesis H-rand on
   the wrapper boundary only for the first part: the signature part never shows a delimiter. *)
Theorem C08_first_part_read : forall (signer : bytes -> bytes) (d i : bytes) (rb : list bytes) (sb : bytes) (m : msg) (t : node),
  let z := resolve d i rb m in
  no_bad_boundary z -> msg_has_failing_producer m = false ->
  forest_gen true z = [t] ->
  ~ In 13%N sb -> fresh_for sb (ser_node t) ->
  let r := write_to_signed signer d i rb sb m unlimited in
  exists body,
    s_out r = top_headers (z_msg z) ++ signed_ctype_field sb ++ Gen.double_newline ++ body /\
    split_parts sb body = Some [ser_node t; sig_leaf_text (signer (ser_node t))] /\
    s_input r = Some (ser_node t).
Proof. exact signed_first_part_read. Qed.
Print Assumptions C08_first_part_read.

(* rendering again: after any signed render (successful or not, any destination) a later signed
   render signs and emits exactly what the first one would *)
Theorem C08_signed_again : forall (signer : bytes -> bytes) d1 i1 rb1 sb1 (k1 : sink) d2 i2 rb2 sb (m : msg) (k : sink),
  files_ok m -> clean (resolve d1 i1 rb1 m) ->
  write_to_signed signer d2 i2 rb2 sb (s_msg (write_to_signed signer d1 i1 rb1 sb1 m k1)) k =
  write_to_signed signer d1 i1 rb1 sb m k.
Proof. exact signed_again. Qed.
Print Assumptions C08_signed_again.

(* Instances, by computation: *)
Definition ex_part (ct : bytes) (d : bytes) : part := mkpart ct [] EncQP d (mkprod [bs "Hello"; bs " world"] false).
Definition ex_file (n : bytes) : file := mkfile n (bs "application/octet-stream") None [] [] (mkprod [bs "data"] false).
Definition ex_single : msg :=
  mkmsg (bs "UTF-8") 113 [(bs "Subject", [bs "s"])] [] (Some (bs "<a@x.test>")) [(bs "To", [bs "<b@y.test>"])]
        [ex_part (bs "text/plain") (bs "a description")] [] [] [] [] [].
Definition ex_full : msg :=
  mkmsg (bs "UTF-8") 113 [(bs "Subject", [bs "s"])] [(bs "X-P", bs "v")] (Some (bs "<a@x.test>")) [(bs "Cc", [])]
        [ex_part (bs "text/plain") []; ex_part (bs "text/html") (bs "d")] [ex_file (bs "logo.png")] [ex_file (bs "a long attachment name that is longer than the header folding limit of go-mail.bin")] [] [] [].
Definition ex_fileonly : msg :=
  mkmsg (bs "UTF-8") 113 [] [] None [] [] [] [ex_file (bs "only.bin")] [] [] [].
Definition ex_rb := [bs "b1b1"; bs "b2b2"; bs "b3b3"].

(* the emitted text right after the first delimiter starts with the signed bytes *)
Definition signed_is_first_part (m : msg) : bool :=
  let r := write_to_signed (fun _ => bs "SIG") (bs "d") (bs "i") ex_rb (bs "SB") m unlimited in
  match s_input r with
  | Some inp => occurs (bs "--SB" ++ crlf ++ inp ++ crlf ++ bs "--SB" ++ crlf) (s_out r) && negb (s_err r)
  | None => false
  end.
Example C08_examples :
  signed_is_first_part ex_single = true /\ signed_is_first_part ex_full = true /\ signed_is_first_part ex_fileonly = true.
Proof. vm_compute. repeat split; reflexivity. Qed.

(* the hypotheses of the central theorems hold on these instances *)
Example C08_hypotheses_satisfiable :
  let z := resolve (bs "d") (bs "i") ex_rb ex_full in
  no_bad_boundary z /\ msg_has_failing_producer ex_full = false /\
  (exists t, forest_gen true z = [t] /\ fresh_for (bs "SB") (ser_node t)) /\ ~ In 13%N (bs "SB").
Proof.
  cbv zeta. split; [repeat split; vm_compute; reflexivity|]. split; [vm_compute; reflexivity|].
  split; [|vm_compute; intuition discriminate].
  eexists. split; [vm_compute; reflexivity|]. vm_compute. reflexivity.
Qed.

(* ---------------- a message that cannot be rendered is not signed ----------------
   T1: signMessage checks the pre-render's error directly after mw.writeMsg(m) (flag regenerated from
   the source on every run; false on a tree without the repair "S/MIME signing fails when the message
   cannot be rendered for signing") *)
Theorem C08_t1_sign_checks_prerender_error : Gen.sign_checks_prerender_error = true.
Proof. exact (eq_refl true). Qed.
Print Assumptions C08_t1_sign_checks_prerender_error.

(* with a failing part / embed / attachment producer WriteTo signs nothing and writes nothing: error,
   count 0, no output — on every destination *)
Theorem C08_failing_producer_signed : forall (signer : bytes -> bytes) date msgid rb sb (m : msg) (k : sink),
  msg_has_failing_producer m = true ->
  let r := write_to_signed signer date msgid rb sb m k in
  s_err r = true /\ s_n r = 0%nat /\ s_out r = [] /\ s_input r = None /\ s_panic r = false.
Proof. exact failing_producer_signed. Qed.
Print Assumptions C08_failing_producer_signed.

(* the code before the repair ignored the pre-render's error: in this (static producer) model it then
   wrote the multipart/signed message up to the failing producer; with a source that fails on its
   first call only (outside the static model; harness variant "flaky") the real code signed the
   truncated pre-render, emitted the complete part and returned nil — a message that does not verify *)
Theorem C08_prerender_error_before_fix_refuted : exists m : msg,
  msg_has_failing_producer m = true /\
  let r := write_to_signed_before_fix (fun _ => bs "SIG") (bs "d") (bs "i") [] (bs "SB") m unlimited in
  s_input r <> None /\ s_out r <> [] /\ Nat.ltb 0 (s_n r) = true.
Proof. exact prerender_error_before_fix_refuted. Qed.
Print Assumptions C08_prerender_error_before_fix_refuted.
