(* C01 — Rendered MIME carries exactly the content the caller supplied.
   Models: coq/theories/{Base64,LineBreaker,QP,Writer}.v.  This file holds property theorems only. *)
From Verif Require Import Bytes Base64 LineBreaker QP Writer.
From VerifProofs Require Import LineBreakerProofs CodecProofs.

(* base64 parts and files: a reader that removes the line breaks and decodes gets back exactly
   the bytes the producer supplied — all contents, arbitrary binary *)
Theorem C01_b64_body_roundtrip : forall (content out : bytes),
  wf_bytes content = true -> b64_body content = Some out ->
  b64dec (strip_crlf out) = Some content.
Proof. exact b64_body_roundtrip. Qed.
Print Assumptions C01_b64_body_roundtrip.

Theorem C01_b64_body_total : forall content : bytes, exists out, b64_body content = Some out.
Proof. exact b64_body_total. Qed.
Print Assumptions C01_b64_body_total.

(* the encoder's output is independent of how the producer chunks its writes *)
Theorem C01_b64_chunk_independent : forall chunks : list bytes,
  lb_run chunks = Some (wrap (concat chunks)).
Proof. exact lb_chunk_independent. Qed.
Print Assumptions C01_b64_chunk_independent.

(* nesting decisions: for a message with a body, the mixed / related / alternative layers exist
   exactly when attachments / embeds / alternatives are present *)
Theorem C01_nesting_decisions : forall m : msg,
  (1 <= length (m_parts m))%nat ->
  (has_mixed m = true <-> (1 <= length (m_attach m))%nat) /\
  (has_related m = true <-> (1 <= length (m_embeds m))%nat) /\
  (has_alt m = true <-> (2 <= length (m_parts m))%nat).
Proof. exact nesting_decisions. Qed.
Print Assumptions C01_nesting_decisions.
