(* C01 — Rendered MIME carries exactly the content the caller supplied.
   Models: coq/theories/{Base64,LineBreaker,QP,Writer}.v.  This file holds property theorems only. *)
From Verif Require Import Bytes Base64 LineBreaker QP Writer.
From VerifProofs Require Import LineBreakerProofs CodecProofs.

(* base64 parts and files: a reader that removes the line breaks and decodes gets back exactly
   the bytes the producer supplied — all contents, arbitrary binary *)
Theorem C01_b64_body_roundtrip : forall (content out : bytes),
  wf_bytes content = true -> b64_body content = Some out ->
  b64dec (strip_crlf out) = Some content.
Proof. exact b64_body_roundtrip. Qed.
Print Assumptions C01_b64_body_roundtrip.

Theorem C01_b64_body_total : forall content : bytes, exists out, b64_body content = Some out.
Proof. exact b64_body_total. Qed.
Print Assumptions C01_b64_body_total.

(* the encoder's output is independent of how the producer chunks its writes *)
Theorem C01_b64_chunk_independent : forall chunks : list bytes,
  lb_run chunks = Some (wrap (concat chunks)).
Proof. exact lb_chunk_independent. Qed.
Print Assumptions C01_b64_chunk_independent.

(* nesting decisions: for a message with a body, the mixed / related / alternative layers exist
   exactly when attachments / embeds / alternatives are present *)
Theorem C01_nesting_decisions : forall m : msg,
  (1 <= length (m_parts m))%nat ->
  (has_mixed m = true <-> (1 <= length (m_attach m))%nat) /\
  (has_related m = true <-> (1 <= length (m_embeds m))%nat) /\
  (has_alt m = true <-> (2 <= length (m_parts m))%nat).
Proof. exact nesting_decisions. Qed.
Print Assumptions C01_nesting_decisions.

(* quoted-printable parts: text whose line breaks are CRLF or LF (every CR directly followed by
   LF) decodes, per RFC 2045 6.7, to exactly the supplied text with its line breaks in canonical
   CRLF form (the writer leaves a final unterminated line unterminated; the decoder adds no line
   break after the last piece, so no tail is involved) *)
From VerifProofs Require Import QPRoundtripProofs.

Theorem C01_qp_body_roundtrip : forall content : bytes,
  wf_bytes content = true -> no_bare_cr content = true ->
  qp_decode (qp_body content) = Some (canon_crlf content).
Proof. exact qp_body_roundtrip. Qed.
Print Assumptions C01_qp_body_roundtrip.

(* the same for any chunking of the producer's writes *)
Theorem C01_qp_roundtrip_chunked : forall chunks : list bytes,
  wf_bytes (concat chunks) = true -> no_bare_cr (concat chunks) = true ->
  qp_decode (qp_run chunks) = Some (canon_crlf (concat chunks)).
Proof. exact qp_roundtrip_chunked. Qed.
Print Assumptions C01_qp_roundtrip_chunked.

(* the hypothesis no_bare_cr is needed: Go's quotedprintable.Writer keeps its pending-CR flag
   across an encoded byte, so CR <byte >= 128> LF loses the LF (witness [13; 195; 10]) — a stdlib
   quirk on input that is not CRLF/LF text, outside the property's quantifier *)
Theorem C01_qp_bare_cr_refuted : exists c : bytes,
  wf_bytes c = true /\ qp_decode (qp_body c) <> Some (canon_crlf c).
Proof. exact qp_bare_cr_refuted. Qed.
Print Assumptions C01_qp_bare_cr_refuted.

(* ======================= tier B: the rendered bytes as a pure function, the independent
   reader, and the end-to-end statement =======================
   Models: coq/theories/Render.v (pure serialisation of a resolved message), MimeTree.v,
   MimeRead.v (reader written from RFC 5322 / 2045 / 2046 only). *)
From Coq Require Import String.
From Verif Require Import HeaderFold WordEnc MimeTree MimeRead Render.
From VerifProofs Require Import WriterProofs RenderIdemProofs RenderProofs MimeReadProofs C01Proofs.

(* the state-passing writer model (validated byte-for-byte against go-mail on every run) writes,
   on a destination that never fails, exactly the pure serialisation — for every message without
   a failing producer and without a rejected cached boundary; no error, no panic *)
Theorem C01_render_pure : forall (d i : bytes) (rb : list bytes) (m : msg),
  no_bad_boundary (resolve d i rb m) -> msg_has_failing_producer m = false ->
  r_out (write_to d i rb m unlimited) = render_pure (resolve d i rb m) /\
  r_err (write_to d i rb m unlimited) = false /\
  r_panic (write_to d i rb m unlimited) = false.
Proof. exact write_to_pure. Qed.
Print Assumptions C01_render_pure.

Theorem C01_write_resolved_pure : forall z : rmsg,
  no_bad_boundary z -> rmsg_has_failing_producer z = false ->
  let st := write_resolved z (mw_init unlimited) in
  err st = false /\ panicked st = false /\ accepted (snk st) = render_pure z.
Proof. exact write_resolved_unlimited. Qed.
Print Assumptions C01_write_resolved_pure.

(* every boundary delimits what it announces (RFC 2046 5.1.1): if no child text contains
   CRLF "--" b and no child starts with "--" b, the reader splits the framed children exactly *)
Theorem C01_frame_split : forall (b : bytes) (kids : list bytes),
  ~ In 13%N b ->
  (forall k, In k kids -> occurs (crlf ++ dashdash ++ b) k = false /\ is_prefix (dashdash ++ b) k = false) ->
  split_parts b (mp_frame b kids) = Some kids.
Proof. exact frame_split_spelled. Qed.
Print Assumptions C01_frame_split.

(* the reader inverts the serialisation of every readable tree (any depth, any width) *)
Theorem C01_read_tree : forall t : node, wf_tree t = true -> read_tree (ser_node t) = Some t.
Proof. exact read_tree_ser. Qed.
Print Assumptions C01_read_tree.

(* the reader finds the boundary startMP announces (unquoted, after a folded line), below any
   header lines that are not a Content-Type field *)
Theorem C01_reader_finds_boundary : forall top mime b : bytes,
  crun top CLine = CLine -> mime_plain mime = true -> btoken b = true ->
  mp_boundary (top ++ mp_hdr mime b) = Some b.
Proof. exact mp_boundary_mp_hdr. Qed.
Print Assumptions C01_reader_finds_boundary.

(* END TO END.  For every message with at least one body part, no failing producer, no rejected
   cached boundary, under H-leaf / H-rand (fresh_expected: leaf header blocks are complete lines
   not declaring a multipart; boundaries are plain tokens; no child of a multipart node shows a
   delimiter of that node's boundary): the independent reader applied to the bytes WriteTo
   produced finds exactly the expected tree — one leaf per body part, embed and attachment, in
   this order, with its header text and encoded body, nested mixed > related > alternative
   exactly when attachments / embeds / alternatives are present (expected_forest). *)
Theorem C01_leaves : forall (d i : bytes) (rb : list bytes) (m : msg),
  let z := resolve d i rb m in
  (1 <= length (m_parts m))%nat ->
  msg_has_failing_producer m = false ->
  no_bad_boundary z ->
  fresh_expected z = true ->
  read_tree (r_out (write_to d i rb m unlimited)) = Some (expected_tree z).
Proof. exact leaves_thm. Qed.
Print Assumptions C01_leaves.

(* the leaves of the expected tree, in document order *)
Theorem C01_expected_leaves : forall (z : rmsg) (t : node),
  expected_forest z = [t] ->
  let m := z_msg z in
  let folded := (Nat.eqb (length (m_parts m)) 1 && Nat.eqb (length (z_embeds z)) 0 && Nat.eqb (length (z_attach z)) 0)%bool in
  leaves t =
  map (fun p => (part_hdr folded (m_wenc m) (m_charset m) p, encode_body (p_enc p) (p_prod p))) (m_parts m) ++
  map (fun fe => (file_hdr false (fst fe), encode_body (snd fe) (f_prod (fst fe)))) (z_embeds z) ++
  map (fun fe => (file_hdr false (fst fe), encode_body (snd fe) (f_prod (fst fe)))) (z_attach z).
Proof. exact expected_leaves. Qed.
Print Assumptions C01_expected_leaves.

(* base64 leaves: the encoded body contains no '-' at all, so H-rand is a hypothesis on the
   leaf's HEADER block only; and decoding the leaf yields exactly the supplied content *)
Theorem C01_b64_leaf_fresh : forall (b h : bytes) (p : producer),
  ~ In 13%N b ->
  occurs (delimiter b) (crlf ++ h ++ crlf) = false ->
  occurs (delimiter b) (crlf ++ ser_node (Leaf h (encode_body EncB64 p))) = false.
Proof. exact b64_leaf_fresh. Qed.
Print Assumptions C01_b64_leaf_fresh.

Theorem C01_b64_leaf_decodes : forall p : producer,
  wf_bytes (concat (pchunks p)) = true ->
  b64dec (strip_crlf (encode_body EncB64 p)) = Some (concat (pchunks p)).
Proof. exact b64_leaf_decodes. Qed.
Print Assumptions C01_b64_leaf_decodes.

(* ---- the hypotheses are satisfiable: two alternatives + one embed + one attachment ---- *)
Definition ex_msg : msg :=
  mkmsg (bs "UTF-8") 113%N
        [(bs "Subject", [bs "C01 example"])] []
        (Some (bs "<alice@example.com>")) [(bs "To", [bs "<bob@example.com>"])]
        [mkpart (bs "text/plain") [] EncQP [] (mkprod [bs "Hello = world"; crlf; bs "--not a boundary"; crlf] false);
         mkpart (bs "text/html") (bs "ISO-8859-1") EncB64 (bs "the html part") (mkprod [bs "<p>Hello</p>"] false)]
        [mkfile (bs "logo.png") (bs "image/png") None [] [] (mkprod [[137; 80; 78; 71; 13; 10; 26; 10]%N] false)]
        [mkfile (bs "notes.txt") (bs "text/plain; charset=utf-8") (Some Enc8bit) (bs "notes") [] (mkprod [bs "line one"; crlf] false)]
        [] [] [].
Definition ex_date : bytes := bs "Wed, 30 Sep 2026 12:00:00 +0000".
Definition ex_msgid : bytes := bs "<1.2.3@example.com>".
Definition ex_rb : list bytes := [bs "b0b0b0b0b0b0b0b0b0b0"; bs "c1c1c1c1c1c1c1c1c1c1"; bs "d2d2d2d2d2d2d2d2d2d2"].
Definition ex_z : rmsg := resolve ex_date ex_msgid ex_rb ex_msg.

Example C01_leaves_hypotheses_satisfiable :
  (1 <= length (m_parts ex_msg))%nat /\ msg_has_failing_producer ex_msg = false /\
  no_bad_boundary ex_z /\ fresh_expected ex_z = true.
Proof. repeat split; try (vm_compute; reflexivity). cbn. auto. Qed.

(* … and the statement is not vacuous on it: three layers, four leaves *)
Example C01_leaves_example_shape :
  match expected_tree ex_z with
  | Multi _ b0 [Multi _ b1 [Multi _ b2 [Leaf _ _; Leaf _ _]; Leaf _ _]; Leaf _ _] =>
      b0 = nth 0 ex_rb [] /\ b1 = nth 1 ex_rb [] /\ b2 = nth 2 ex_rb []
  | _ => False
  end.
Proof. vm_compute. auto. Qed.

Example C01_leaves_example_direct :
  read_tree (r_out (write_to ex_date ex_msgid ex_rb ex_msg unlimited)) = Some (expected_tree ex_z).
Proof. vm_compute. reflexivity. Qed.

Example C01_frame_split_hypotheses_satisfiable :
  let b := bs "XyZ" in let kids := [bs "first" ++ crlf ++ bs "--Xy"; []; bs "--XY-- third"] in
  ~ In 13%N b /\
  (forall k, In k kids -> occurs (crlf ++ dashdash ++ b) k = false /\ is_prefix (dashdash ++ b) k = false).
Proof.
  cbv zeta. split; [vm_compute; intuition discriminate|].
  intros k [H|[H|[H|[]]]]; subst; vm_compute; auto.
Qed.

(* a single text part (no layer at all: the leaf's header is the folded depth-0 form, joined
   with the top-level header block) *)
Definition ex_single : msg :=
  mkmsg (bs "UTF-8") 113%N [(bs "Subject", [bs "single"])] [] (Some (bs "<alice@example.com>"))
        [(bs "To", [bs "<bob@example.com>"])]
        [mkpart (bs "text/plain") [] Enc8bit [] (mkprod [bs "just text"; crlf] false)] [] [] [] [] [].

Example C01_leaves_single_part :
  fresh_expected (resolve ex_date ex_msgid ex_rb ex_single) = true /\
  match expected_tree (resolve ex_date ex_msgid ex_rb ex_single) with
  | Leaf _ body => body = bs "just text" ++ crlf
  | _ => False
  end.
Proof. split; vm_compute; reflexivity. Qed.

(* ---- the builder calls (theories/Builder.v): SetBody*/AddAlternative*/Attach*/Embed*/SetAttachments/SetEmbeds/
   UnsetAll*/Reset as operations on the message.  For EVERY sequence of calls each list of the message is what
   the calls concerning that list asked for (the other calls do not interfere), and the independent reader finds
   exactly the expected tree of those lists in the rendering. *)
From Verif Require Import Builder.
From VerifProofs Require Import BuilderProofs.

Theorem C01_builder_lists : forall (ops : list bop) (st : bstate),
  let m := b_msg (build st ops) in
  m_parts m = parts_asked st ops /\ m_embeds m = embeds_asked st ops /\ m_attach m = attach_asked st ops.
Proof. intros ops st. split; [apply build_parts|split; [apply build_embeds|apply build_attach]]. Qed.
Print Assumptions C01_builder_lists.

Theorem C01_builder_frame : forall (ops : list bop) (st : bstate),
  let m := b_msg st in let m' := b_msg (build st ops) in
  m_charset m' = m_charset m /\ m_wenc m' = m_wenc m /\ m_preform m' = m_preform m /\
  m_bmixed m' = m_bmixed m /\ m_brelated m' = m_brelated m /\ m_balt m' = m_balt m /\ b_enc (build st ops) = b_enc st.
Proof. exact build_fixed_fields. Qed.
Print Assumptions C01_builder_frame.

Theorem C01_builder_leaves : forall (d i : bytes) (rb : list bytes) (st : bstate) (ops : list bop),
  let m := b_msg (build st ops) in
  let z := resolve d i rb m in
  (1 <= length (parts_asked st ops))%nat ->
  msg_has_failing_producer m = false ->
  no_bad_boundary z ->
  fresh_expected z = true ->
  read_tree (r_out (write_to d i rb m unlimited)) = Some (expected_tree z) /\
  m_parts m = parts_asked st ops /\ m_embeds m = embeds_asked st ops /\ m_attach m = attach_asked st ops.
Proof. exact build_leaves. Qed.
Print Assumptions C01_builder_leaves.

(* UnsetAllParts drops the files and keeps the body parts (as documented); SetBody after alternatives starts over *)
Example C01_builder_example :
  let p := mkprod [bs "x"] false in
  let f := mkfile (bs "a.bin") (bs "application/octet-stream") None [] [] p in
  let st := empty_state EncQP ex_single in
  let m := b_msg (build st [BSetBody (bs "text/plain") None None [] p; BAddAlt (bs "text/html") (Some EncB64) None [] p;
                            BAttach f; BEmbed f; BUnsetParts; BAttach f; BSetBody (bs "text/plain") None None [] p;
                            BAddAlt (bs "text/x") None None [] p]) in
  map p_ctype (m_parts m) = [bs "text/plain"; bs "text/x"] /\ map p_enc (m_parts m) = [EncQP; EncQP] /\
  length (m_embeds m) = 0%nat /\ length (m_attach m) = 1%nat.
Proof. vm_compute. auto. Qed.

(* ---------------- a file's body is encoded as its emitted header says ----------------
   T1: addFiles takes the body encoding from the Content-Transfer-Encoding header the File carries
   (flag regenerated from the source; false if that data flow is removed) *)
Theorem C01_t1_file_body_encoding_from_header : Gen.addfiles_body_enc_from_header = true.
Proof. exact (eq_refl true). Qed.
Print Assumptions C01_t1_file_body_encoding_from_header.

(* for ANY header cache on the File (a Content-Transfer-Encoding pre-set by the caller, one cached by an
   earlier render, or none) and ANY File.Enc (canonical name): the leaf's header cache names an encoding
   v and the leaf's body is the content encoded with exactly that encoding — so every file leaf of
   C01_leaves / C01_expected_leaves decodes according to the header that is actually emitted *)
Theorem C01_file_leaf_body_as_announced : forall (w : N) (a : bool) (f : file) (fo : bool),
  (match f_enc f with Some e => RenderIdemProofs.enc_canon e | None => True end) ->
  exists v, get_h h_cte (f_hdr (fst (file_headers w a f))) = Some v /\
            file_leaf fo (file_headers w a f) =
            Leaf (file_hdr fo (fst (file_headers w a f))) (encode_body (enc_of_name v) (f_prod f)).
Proof. exact file_leaf_body_as_announced. Qed.
Print Assumptions C01_file_leaf_body_as_announced.

(* instances: a header pre-set to 8bit on a file whose Enc says base64, and the reverse *)
Example C01_preset_cte_example :
  let f1 := mkfile (bs "a.bin") (bs "application/octet-stream") (Some EncB64) [] [(h_cte, bs "8bit")] (mkprod [bs "raw = text"] false) in
  let f2 := mkfile (bs "a.bin") (bs "application/octet-stream") (Some Enc8bit) [] [(h_cte, bs "base64")] (mkprod [bs "raw = text"] false) in
  snd (file_headers 113 true f1) = Enc8bit /\ snd (file_headers 113 true f2) = EncB64 /\
  get_h h_cte (f_hdr (fst (file_headers 113 true f1))) = Some (bs "8bit").
Proof. vm_compute. repeat split; reflexivity. Qed.
