(* C01 — Rendered MIME carries exactly the content the caller supplied.
   Models: coq/theories/{Base64,LineBreaker,QP,Writer}.v.  This file holds property theorems only. *)
From Verif Require Import Bytes Base64 LineBreaker QP Writer.
From VerifProofs Require Import LineBreakerProofs CodecProofs.

(* base64 parts and files: a reader that removes the line breaks and decodes gets back exactly
   the bytes the producer supplied — all contents, arbitrary binary *)
Theorem C01_b64_body_roundtrip : forall (content out : bytes),
  wf_bytes content = true -> b64_body content = Some out ->
  b64dec (strip_crlf out) = Some content.
Proof. exact b64_body_roundtrip. Qed.
Print Assumptions C01_b64_body_roundtrip.

Theorem C01_b64_body_total : forall content : bytes, exists out, b64_body content = Some out.
Proof. exact b64_body_total. Qed.
Print Assumptions C01_b64_body_total.

(* the encoder's output is independent of how the producer chunks its writes *)
Theorem C01_b64_chunk_independent : forall chunks : list bytes,
  lb_run chunks = Some (wrap (concat chunks)).
Proof. exact lb_chunk_independent. Qed.
Print Assumptions C01_b64_chunk_independent.

(* nesting decisions: for a message with a body, the mixed / related / alternative layers exist
   exactly when attachments / embeds / alternatives are present *)
Theorem C01_nesting_decisions : forall m : msg,
  (1 <= length (m_parts m))%nat ->
  (has_mixed m = true <-> (1 <= length (m_attach m))%nat) /\
  (has_related m = true <-> (1 <= length (m_embeds m))%nat) /\
  (has_alt m = true <-> (2 <= length (m_parts m))%nat).
Proof. exact nesting_decisions. Qed.
Print Assumptions C01_nesting_decisions.

(* quoted-printable parts: text whose line breaks are CRLF or LF (every CR directly followed by
   LF) decodes, per RFC 2045 6.7, to exactly the supplied text with its line breaks in canonical
   CRLF form (the writer leaves a final unterminated line unterminated; the decoder adds no line
   break after the last piece, so no tail is involved) *)
From VerifProofs Require Import QPRoundtripProofs.

Theorem C01_qp_body_roundtrip : forall content : bytes,
  wf_bytes content = true -> no_bare_cr content = true ->
  qp_decode (qp_body content) = Some (canon_crlf content).
Proof. exact qp_body_roundtrip. Qed.
Print Assumptions C01_qp_body_roundtrip.

(* the same for any chunking of the producer's writes *)
Theorem C01_qp_roundtrip_chunked : forall chunks : list bytes,
  wf_bytes (concat chunks) = true -> no_bare_cr (concat chunks) = true ->
  qp_decode (qp_run chunks) = Some (canon_crlf (concat chunks)).
Proof. exact qp_roundtrip_chunked. Qed.
Print Assumptions C01_qp_roundtrip_chunked.

(* the hypothesis no_bare_cr is needed: Go's quotedprintable.Writer keeps its pending-CR flag
   across an encoded byte, so CR <byte >= 128> LF loses the LF (witness [13; 195; 10]) — a stdlib
   quirk on input that is not CRLF/LF text, outside the property's quantifier *)
Theorem C01_qp_bare_cr_refuted : exists c : bytes,
  wf_bytes c = true /\ qp_decode (qp_body c) <> Some (canon_crlf c).
Proof. exact qp_bare_cr_refuted. Qed.
Print Assumptions C01_qp_bare_cr_refuted.
