(* C20 — SendError reflects the server's verdict.
   Property theorems only: each is closed by [exact <lemma>] and followed by Print Assumptions.
   The text of a reply error is textproto.Error.Error() = "%03d %s"; Go's regexp engine is not modelled:
   the pattern is read from the source (Gen.esc_regex) and the hand-written matcher for it is validated
   against the real regexp on every run by the correspondence. *)
From Coq Require Import String.
From Verif Require Import Bytes Textproto SendErr RefServer SmtpSend SmtpSendGen.
From VerifProofs Require Import SendErrProofs SendStepProofs SmtpSendProofs SmtpSendGenProofs SmtpSendRefuted.
Open Scope N_scope.

(* T1: the source under test *)
Theorem C20_source_regex_anchored : fx_regex gen_fixes = re_anchored.
Proof. exact gen_regex_anchored. Qed.
Print Assumptions C20_source_regex_anchored.

Theorem C20_source_is_temp_unwraps : fx_temp_unwrap gen_fixes = true.
Proof. exact gen_temp_unwraps. Qed.
Print Assumptions C20_source_is_temp_unwraps.

Theorem C20_source_reason_order : gen_reasons = std_reasons.
Proof. exact gen_reasons_std. Qed.
Print Assumptions C20_source_reason_order.

Theorem C20_source_len_guards : gen_len_guards = true.
Proof. exact gen_len_guards_present. Qed.
Print Assumptions C20_source_len_guards.

(* errors that are no replies (a failing producer): any text, also the empty one and texts shorter than a reply
   code, is classified without indexing past its end: code 0 below three bytes, temporary iff the first byte
   is '4', no enhanced status code for the empty text or a text that does not start like a reply *)
Theorem C20_short_error_text : forall e, (length (err_string (unwrap1 e)) < 3)%nat -> error_code e = 0.
Proof. exact error_code_short. Qed.
Print Assumptions C20_short_error_text.

Theorem C20_temp_first_byte : forall e,
  is_temp_error true e = match err_string (unwrap1 e) with c :: _ => c =? 52 | [] => false end.
Proof. exact is_temp_by_first_byte. Qed.
Print Assumptions C20_temp_first_byte.

Theorem C20_esc_empty_text : forall re e sup, err_string (unwrap1 e) = [] -> enhanced_status_code re e sup = [].
Proof. exact enhanced_empty. Qed.
Print Assumptions C20_esc_empty_text.

(* every three-digit reply code: errorCode is the code for 4yz/5yz (0 otherwise), and the error is temporary
   exactly for 4yz — also for the wrapped error of the RSET after a delivered message *)
Theorem C20_code : forall c t, 100 <= c <= 999 ->
  error_code (EReply c t) = if (400 <=? c) && (c <=? 599) then c else 0.
Proof. exact error_code_reply. Qed.
Print Assumptions C20_code.

Theorem C20_temp : forall u c t, 100 <= c <= 999 -> is_temp_error u (EReply c t) = (c / 100 =? 4).
Proof. exact is_temp_reply. Qed.
Print Assumptions C20_temp.

Theorem C20_temp_wrapped : forall p c t, 100 <= c <= 999 ->
  is_temp_error true (EWrap p (EReply c t)) = (c / 100 =? 4) /\
  error_code (EWrap p (EReply c t)) = error_code (EReply c t).
Proof. exact wrapped_classified. Qed.
Print Assumptions C20_temp_wrapped.

(* the enhanced status code: only if supported, only for 2yz/4yz/5yz replies, and only what stands at the very
   beginning of the reply text *)
Theorem C20_esc : forall c t sup, 100 <= c <= 999 ->
  enhanced_status_code re_anchored (EReply c t) sup =
    if sup && ((c / 100 =? 2) || (c / 100 =? 4) || (c / 100 =? 5)) then opt_bytes (esc_here t) else [].
Proof. exact enhanced_reply. Qed.
Print Assumptions C20_esc.

(* esc_here recognises exactly: class digit 2/4/5, ".", 1-3 digits, ".", 1-3 digits, then a non-word byte or
   the end of the text *)
Theorem C20_esc_sound : forall s e, esc_here s = Some e ->
  exists rest, s = e ++ rest /\ esc_shape e /\ boundary rest.
Proof. exact esc_here_sound. Qed.
Print Assumptions C20_esc_sound.

Theorem C20_esc_complete : forall e rest, esc_shape e -> boundary rest -> esc_here (e ++ rest) = Some e.
Proof. exact esc_here_complete. Qed.
Print Assumptions C20_esc_complete.

(* the recipient list of the SendError is exactly the refused recipients (in order); code, temporariness and
   enhanced status code are those of the last refusal; nothing if none was refused *)
Theorem C20_rcpt_list : forall X F esc rcpts st,
  let fl := failed_of (rcpt_trace X rcpts st) in
  match snd (rcpt_loop X F esc rcpts st None) with
  | None => fl = []
  | Some a =>
      se_rcpts a = map fst fl /\ se_nerr a = length fl /\ fl <> [] /\
      forall r e, last fl (r, e) = (r, e) ->
        se_reason a = reason_rcpt_to /\ se_code a = error_code e /\
        se_temp a = is_temp_error (fx_temp_unwrap F) e /\
        se_esc a = enhanced_status_code (fx_regex F) e esc
  end.
Proof. exact rcpt_loop_list. Qed.
Print Assumptions C20_rcpt_list.

(* sendSingleMsg leaves through the exit of its first failing step: the SendError names that step and is
   classified from that step's error (which, by C04_result_is_verdict, is the server's reply to that command) *)
Theorem C20_step : forall X F cfg render m st, ssm_exit X F cfg render m st (snd (send_single X F cfg render m st)).
Proof. exact send_single_exit. Qed.
Print Assumptions C20_step.

(* the k-th message's result is computed by sendSingleMsg for that message alone: errors of other messages do
   not leak into it; a message without error was delivered *)
Theorem C20_unaffected : forall X F cfg render ms st k m, nth_error ms k = Some m ->
  exists stk, nth_error (snd (send_msgs X F cfg render ms st)) k = Some (snd (send_single X F cfg render m stk)).
Proof. exact send_msgs_nth. Qed.
Print Assumptions C20_unaffected.

(* errors.Join: one entry per failed message; nil if none failed; if the connection check fails no message
   is touched *)
Theorem C20_join_count : forall X F cfg render ms st,
  let r := fst (snd (send_batch X F cfg render ms st)) in
  let rs := snd (snd (send_batch X F cfg render ms st)) in
  length rs = length ms /\
  match r with
  | RetConnCheck => rs = untouched ms
  | RetNil => count_errors rs = O
  | RetJoined n => n = count_errors rs /\ n <> O
  | _ => False
  end.
Proof. exact send_batch_join. Qed.
Print Assumptions C20_join_count.

(* the original code: the pattern matched anywhere in the text, and the wrapped RSET error was never temporary *)
Theorem C20_esc_before_fix_refuted :
  exists c t, enhanced_status_code re_anywhere (EReply c t) true <> [] /\ esc_here t = None.
Proof.
  exists 554, (bs "relay to 10.2.3.4 denied"). split; [rewrite esc_anywhere_matches_ip; discriminate|reflexivity].
Qed.
Print Assumptions C20_esc_before_fix_refuted.

Theorem C20_temp_before_fix_refuted :
  exists e, is_temp_error false e = false /\ error_code e = 451.
Proof. eexists. exact old_is_temp_misses_wrapped_rset. Qed.
Print Assumptions C20_temp_before_fix_refuted.

Example C20_examples :
  enhanced_status_code re_anchored (EReply 550 (bs "5.7.1 relay denied")) true = bs "5.7.1" /\
  enhanced_status_code re_anchored (EReply 554 (bs "relay to 10.2.3.4 denied")) true = [].
Proof. exact (conj esc_anchored_example esc_anchored_ignores_ip). Qed.
