(* C04 — The SMTP dialogue stays legal and in step under every reply script.
   Property theorems only: each is closed by [exact <lemma>] and followed by Print Assumptions.
   Model: theories/SmtpSend.v (client) against theories/RefServer.v (RFC 5321 reference automaton).
   A script is the list of the server's deviations; [] = every decision OK; "for all scripts" is
   literally [forall script : list decision] (any length, any reply codes and texts, drops anywhere). *)
From Coq Require Import String.
From Verif Require Import Bytes Textproto SendErr RefServer SmtpSend SmtpSendGen.
From VerifProofs Require Import SmtpSendProofs SmtpSendGenProofs SmtpSendCorollaries SmtpSendDialProofs SmtpSendProgramsProofs SmtpSendInertProofs SmtpSendRefuted.

(* T1: the source under test has the expectCode literals and the recovery actions the theorems assume *)
Theorem C04_source_expect_codes : gen_expects = std_expects.
Proof. exact gen_expects_std. Qed.
Print Assumptions C04_source_expect_codes.

Theorem C04_source_recovery_actions : dialogue_repaired gen_fixes.
Proof. exact gen_dialogue_repaired. Qed.
Print Assumptions C04_source_recovery_actions.

(* For ALL configurations, capability sets, reply scripts, batches and renderers: every command the client
   emits during dial + send + quit is legal for the reference server in the state it arrives in, and every
   reply the client reads is the reply to the command it believes it answers; the commit log is exactly the
   acknowledged messages (shared with C03). *)
Theorem C04_legal : forall (F : fixes), dialogue_repaired F ->
  forall (cfg : config) (render : msg -> list bytes * option err) (caps caps_tls : list ext) (script : list decision) (ms : list msg),
  let o := run_case std_expects F cfg caps caps_tls script ms render in
  all_legal (o_world o) = true /\ all_attributed (o_world o) = true.
Proof. exact run_legal. Qed.
Print Assumptions C04_legal.

(* the instance that follows the source *)
Theorem C04_legal_source : forall cfg render caps caps_tls script ms,
  let o := run_gen cfg caps caps_tls script ms render in
  all_legal (o_world o) = true /\ all_attributed (o_world o) = true.
Proof. exact run_legal_source. Qed.
Print Assumptions C04_legal_source.

(* The dial prefix.  The first event of every run is the greeting (the server speaks first, the client reads);
   unless the greeting was answered 220 the client never sends anything (the run ends with the dial error) —
   for every script, i.e. for 4yz / 5yz / any other code / a dropped connection at the greeting. *)
Theorem C04_nothing_before_greeting : forall F cfg render caps caps_tls script ms,
  let o := run_case std_expects F cfg caps caps_tls script ms render in
  exists ev0 rest, w_trace (o_world o) = ev0 :: rest /\ ev_cmd ev0 = CGreet /\
                   (ev_code ev0 <> 220%N -> rest = [] /\ o_ret o = RetDial).
Proof. exact greeting_first. Qed.
Print Assumptions C04_nothing_before_greeting.

(* The extension map.  EVERY accepted EHLO replaces the client's map by the set that reply advertises — also by
   the empty set, whatever the map was before (C04_every_ehlo_replaces; sessions with any number of EHLOs are
   compositions of this step).  After a successful dial — EHLO, or EHLO refused and HELO accepted, then per
   TLS policy STARTTLS + the TLS handshake (an oracle: it succeeds) + a second EHLO inside TLS — the client's map
   is exactly the set of the EHLO the server accepted LAST (inside TLS: what it advertises inside TLS), or nil
   after the HELO fallback, and then MAIL and RCPT carry no parameter at all.  That every parameter actually
   sent, and the local refusal of 8bit messages, follow the server's latest EHLO set at that moment is
   C04_legal / C04_8bit_refused_locally, which hold for all TLS policies and all pairs of capability sets. *)
Theorem C04_every_ehlo_replaces : forall name c w st' code text,
  Dialing (c, w) -> do_ehlo std_expects true name (c, w) = (st', ROk code text) ->
  c_ext (fst st') = Some (s_ext (srvof st')) /\
  s_ext (srvof st') = (if s_tls (w_srv w) then s_caps_tls (w_srv w) else s_caps (w_srv w)).
Proof. exact every_ehlo_replaces. Qed.
Print Assumptions C04_every_ehlo_replaces.

Theorem C04_ext_map_replaced : forall (F : fixes), dialogue_repaired F ->
  forall cfg caps caps_tls script w1 c,
  dial std_expects F cfg (world_init caps caps_tls script) = (w1, Some c) ->
  s_open (w_srv w1) = true /\ s_helo (w_srv w1) = true /\
  match c_ext c with
  | Some l => l = s_ext (w_srv w1) /\ l = (if s_tls (w_srv w1) then s_caps_tls (w_srv w1) else s_caps (w_srv w1))
  | None => s_ext (w_srv w1) = [] /\ mail_params c = [] /\ rcpt_params c = []
  end.
Proof. exact dial_ext. Qed.
Print Assumptions C04_ext_map_replaced.

(* The ESMTP parameters.  In the model the parameter lists of MAIL and RCPT (mail_params, rcpt_params) are functions of
   the client's extension map and the configured DSN options - the address text is no argument of theirs - and for
   ALL addresses and ALL advertised sets every parameter sent is covered by the set the map was taken from; with a
   nil map (HELO fallback) there is none.  T1: in the source the guard of every parameter is exactly the lookup of its
   extension (plus "DSN option configured" for RET= / NOTIFY=). *)
Theorem C04_source_param_guards :
  VerifGen.Gen.param_guards =
    [(bs " BODY=8BITMIME", bs "_, ok := c.ext[""8BITMIME""]; ok");
     (bs " SMTPUTF8", bs "_, ok := c.ext[""SMTPUTF8""]; ok");
     (bs " RET=%s", bs "_, ok := c.ext[""DSN""]; ok && c.dsnmrtype != """"");
     (bs "RCPT TO:<%s> NOTIFY=%s", bs "_, ok := c.ext[""DSN""]; ok && c.dsnrntype != """"")].
Proof. exact gen_param_guards. Qed.
Print Assumptions C04_source_param_guards.

Theorem C04_params_from_advertised : forall X (c : cli) (w : world) (e : list ext) (from to : bytes),
  (forall l, c_ext c = Some l -> l = e) ->
  do_mail X from (c, w) = do_cmd (x_mail X) (CMail from (mail_params c)) (c, w) /\
  do_rcpt X to (c, w) = do_cmd (x_rcpt X) (CRcpt to (rcpt_params c)) (c, w) /\
  forallb (mail_param_ok e) (mail_params c) = true /\ forallb (rcpt_param_ok e) (rcpt_params c) = true /\
  (c_ext c = None -> mail_params c = [] /\ rcpt_params c = []).
Proof. exact params_from_advertised. Qed.
Print Assumptions C04_params_from_advertised.

(* Capabilities the code never consults are inert.  T1: the list of EHLO keywords the code looks up; theorem: for every
   capability set (before and inside TLS), removing every keyword outside that list - PIPELINING, SIZE, CHUNKING,
   unknown ones ... - changes nothing a run shows: returned error, per-message results, trace (commands, parameters,
   verdicts, reply codes), attribution log, commit log.  By induction over the program: every function of the model
   commutes with normalising the capability lists of the state. *)
Theorem C04_source_consulted_extensions :
  VerifGen.Gen.consulted_extensions = [bs "8BITMIME"; bs "AUTH"; bs "DSN"; bs "ENHANCEDSTATUSCODES"; bs "SMTPUTF8"; bs "STARTTLS"].
Proof. exact gen_consulted_extensions. Qed.
Print Assumptions C04_source_consulted_extensions.

Theorem C04_inert_capabilities : forall X F, fx_ehlo_replace F = true ->
  forall cfg render caps caps_tls script ms,
  visible (run_case X F cfg (norm caps) (norm caps_tls) script ms render) =
  visible (run_case X F cfg caps caps_tls script ms render).
Proof. exact inert_capabilities. Qed.
Print Assumptions C04_inert_capabilities.

(* Entry points.  run_case is the dialogue of DialAndSendWithContext, DialAndSend, DialWithContext + Send + Close and,
   per connection, DialToSMTPClientWithContext + SendWithSMTPClient + CloseWithSMTPClient.  SendWithSMTPClient is a
   step that preserves the invariant, so any number of batches may follow each other on one connection; the
   program Dial; Send(ms1); Reset; Send(ms2); Close is legal and in step for all scripts as well. *)
Theorem C04_send_preserves_invariant : forall (F : fixes), dialogue_repaired F ->
  forall cfg render ms st st' r rs,
  Inv st -> send_batch std_expects F cfg render ms st = (st', (r, rs)) ->
  Inv st' /\ w_commits (snd st') = w_commits (snd st) ++ batch_commits render ms rs /\
  (if attempted r then Forall2 (msg_post render) ms rs else rs = untouched ms).
Proof. exact send_batch_inv. Qed.
Print Assumptions C04_send_preserves_invariant.

Theorem C04_legal_reset_program : forall (F : fixes), dialogue_repaired F ->
  forall cfg render caps caps_tls script ms1 ms2,
  let o := run_reset std_expects F cfg caps caps_tls script ms1 ms2 render in
  all_legal (p_world o) = true /\ all_attributed (p_world o) = true /\
  w_commits (p_world o) = batch_commits render ms1 (p_results1 o) ++ batch_commits render ms2 (p_results2 o) /\
  (if attempted (p_ret1 o) then Forall2 (msg_post render) ms1 (p_results1 o) else p_results1 o = untouched ms1) /\
  (if attempted (p_ret2 o) then Forall2 (msg_post render) ms2 (p_results2 o) else p_results2 o = untouched ms2).
Proof. exact run_reset_spec. Qed.
Print Assumptions C04_legal_reset_program.

(* After every message of every batch (failed or not), the next one starts from a clean transaction —
   server idle, not in data mode, no unread reply, no open dot-writer — or the connection is closed. *)
Theorem C04_clean_or_closed : forall (F : fixes), dialogue_repaired F ->
  forall cfg render caps caps_tls script ms w1 c st1 e st2 rs,
  dial std_expects F cfg (world_init caps caps_tls script) = (w1, Some c) ->
  check_conn std_expects cfg (c, w1) = (st1, e) ->
  send_msgs std_expects F cfg render ms st1 = (st2, rs) ->
  clean_or_closed st2.
Proof. exact clean_between_messages. Qed.
Print Assumptions C04_clean_or_closed.

(* One command, one reply: on a live in-step connection the result of a command is the server's verdict on
   exactly that command (the event appended to the trace), or an I/O error if the server dropped the
   connection / the connection is gone. *)
Theorem C04_result_is_verdict : forall expect line st st' r,
  Base st -> Ready st -> keeps_session line ->
  (live st = true -> legal (srvof st) line = true) ->
  do_cmd expect line st = (st', r) ->
  fst st' = set_dot (fst st) false /\ Base st' /\
  ((live st = false /\ snd st' = snd st /\ r = RErr EIO) \/
   (live st = true /\ cmd_outcome expect line (snd st) (snd st') r)).
Proof. exact do_cmd_spec. Qed.
Print Assumptions C04_result_is_verdict.

(* 8bit messages never reach MAIL without 8BITMIME: they leave sendSingleMsg before any command *)
Theorem C04_8bit_refused_locally : forall X F cfg render m st,
  m_8bit m = true -> extension (fst st) E8BITMIME = false ->
  send_single X F cfg render m st =
    (st, mkRes (Some (mkSE reason_no_unencoded 0 false [] [] O)) false None).
Proof. exact ssm_8bit_refused. Qed.
Print Assumptions C04_8bit_refused_locally.

(* [run F script ms render] = run_case std_expects F cfg0 [E8BITMIME; EENHANCED] script ms render (SmtpSendRefuted.v) *)
(* the original code (no RSET after a rejected DATA, a failed RSET ignored, the dot-writer left open by a
   failed render) violates the property: witnesses, replayed on the real code in corpus/C04.txt *)
Theorem C04_data_reject_before_fix_refuted :
  exists script ms render, all_legal (o_world (run fixes_none script ms render)) = false.
Proof. exists script_data_reject, [m0; m1], render_ok. exact data_reject_before_fix. Qed.
Print Assumptions C04_data_reject_before_fix_refuted.

Theorem C04_failed_rset_before_fix_refuted :
  exists script ms render, all_legal (o_world (run fixes_none script ms render)) = false.
Proof. exists script_rset_fails, [m0; m1], render_ok. exact failed_rset_before_fix. Qed.
Print Assumptions C04_failed_rset_before_fix_refuted.

(* a variant of ehlo() that does not replace the map when the reply has no extension line is refuted by a
   STARTTLS session (8BITMIME before TLS, nothing inside): witness replayed on the real code in corpus/C04.txt *)
Theorem C04_ext_not_replaced_refuted : all_legal (o_world (run_tls fixes_keep_ext)) = false.
Proof. exact ext_not_replaced_refuted. Qed.
Print Assumptions C04_ext_not_replaced_refuted.

(* T1: the end-of-data reply is read with ReadResponse (all lines), as every cmd() does: in the model a reply
   - one line or many - is ONE element of the reply queue (C04_legal's all_attributed) *)
Theorem C04_source_eod_reads_full_response : VerifGen.Gen.eod_reads_full_response = true.
Proof. exact gen_eod_reads_full_response. Qed.
Print Assumptions C04_source_eod_reads_full_response.

Theorem C04_source_starttls_says_ehlo : VerifGen.Gen.starttls_says_ehlo = true.
Proof. exact gen_starttls_says_ehlo. Qed.
Print Assumptions C04_source_starttls_says_ehlo.

Theorem C04_misattribution_before_fix_refuted :
  exists script ms render, all_attributed (o_world (run fixes_none script ms render)) = false.
Proof. exists [], [m0; m1], render_fail0. exact (proj2 (proj2 partial_commit_before_fix)). Qed.
Print Assumptions C04_misattribution_before_fix_refuted.

(* non-vacuity: the same histories on the repaired code *)
Example C04_repaired_examples :
  all_legal (o_world (run fixes_all script_data_reject [m0; m1] render_ok)) = true /\
  all_legal (o_world (run fixes_all script_rset_fails [m0; m1] render_ok)) = true /\
  dialogue_repaired fixes_all.
Proof.
  split; [exact (proj1 data_reject_repaired)|]. split; [exact (proj1 failed_rset_repaired)|].
  repeat split; reflexivity.
Qed.
