(* AuthLoop.v — smtp.Client.Auth (smtp/smtp.go) with the part of smtp.Client.cmd / Quit / debugLog it uses,
   over an abstract SASL mechanism (the smtp.Auth interface).

   The server is a reply script: the list of replies it will give, one per command line the client
   writes (go-mail never pipelines).  A reply is a parsed response (code, text; for multi-line responses
   the lines joined by "\n" as textproto does) or RBad = the read fails (malformed line); an exhausted
   script is a disconnect (io.EOF).  Writes on the in-memory connection do not fail.

   Precondition modelled: the EHLO/HELO exchange has taken place (didHello, helloError = nil), so the
   c.hello() calls inside Auth and Quit are no-ops.

   The debug log is the list of log.Log records handed to the logger (direction, rendered text). *)
From Coq Require Import String.
From Verif Require Export Bytes Base64.
From VerifGen Require Import Gen.
Open Scope N_scope.

(* the smtp.Auth interface.  Start: None = error, Some (mechanism name, initial response (None = nil)).
   Next: None = error, Some None = (nil, nil), Some (Some r) = response r. *)
Record mech (S : Type) := {
  m_start : S -> S * option (bytes * option bytes);
  m_next : S -> bytes -> bool -> S * option (option bytes) }.
Arguments m_start {S}.
Arguments m_next {S}.

Inductive reply := Reply (code : N) (msg : bytes) | RBad.

Record logrec := { lr_c2s : bool; lr_text : bytes }.

Record outp := { o_sent : list bytes; o_log : list logrec }.

Inductive auth_result :=
| ASuccess
| AErrStart            (* a.Start failed *)
| AErrIO               (* a command could not be completed (read error / disconnect) *)
| AErrServer (code : N) (* textproto.Error: a reply that is neither 334 nor 235 *)
| AErrDecode           (* the 334 text is not base64 *)
| AErrMech.            (* a.Next failed *)

Record final (S : Type) := {
  f_res : auth_result;
  f_state : S;
  f_out : outp;
  f_active : bool;        (* c.authIsActive when Auth returns *)
  f_closed : bool;        (* Quit closed the connection (221 seen) *)
  f_rest : list reply }.  (* replies not consumed *)
Arguments f_res {S}. Arguments f_state {S}. Arguments f_out {S}. Arguments f_active {S}.
Arguments f_closed {S}. Arguments f_rest {S}.

(* decimal rendering of %d for a non-negative number *)
Fixpoint dec_aux (fuel : nat) (n : N) (acc : bytes) : bytes :=
  match fuel with
  | O => acc
  | S f => let acc' := (48 + n mod 10) :: acc in
           if n / 10 =? 0 then acc' else dec_aux f (n / 10) acc'
  end.
Definition dec_of_N (n : N) : bytes := dec_aux (S (S (N.to_nat (N.log2 n)))) n [].

(* ---- source-derived items (T1, coq/gen/Gen.v) ---- *)
Definition redacted : bytes := Gen.smtp_redacted_placeholder.      (* "<SMTP auth data redacted>" in cmd *)
Definition reply_redacted (active : bool) (code : N) : bool := Gen.smtp_reply_redact active code.
Definition code_challenge : N := Gen.smtp_auth_code_challenge.       (* case 334 *)
Definition code_success : N := Gen.smtp_auth_code_success.           (* case 235 *)

(* ---- smtp.Client.cmd: the two records one command produces ---- *)
Definition rec_c2s (active : bool) (line : bytes) : logrec :=
  {| lr_c2s := true; lr_text := if active then redacted else line |}.

Definition rec_s2c (active : bool) (r : reply) : logrec :=
  match r with
  | Reply c m => {| lr_c2s := false;
                    lr_text := dec_of_N c ++ bs " " ++ (if reply_redacted active c then redacted else m) |}
  | RBad => {| lr_c2s := false; lr_text := bs "0 " |}     (* code 0, empty text are logged when the read fails *)
  end.

Definition hd_reply (script : list reply) : reply :=
  match script with [] => RBad | r :: _ => r end.

(* effect of cmd(_, line) on the wire and on the log, given the reply it reads *)
Definition cmd_out (active : bool) (line : bytes) (r : reply) (o : outp) : outp :=
  {| o_sent := o_sent o ++ [line]; o_log := o_log o ++ [rec_c2s active line; rec_s2c active r] |}.

Definition is_xoauth2 (name : bytes) : bool := bytes_eqb name (bs "XOAUTH2").

(* the error exit inside the loop: "*" unless XOAUTH2, then Quit (cmd(221,"QUIT"); the connection is
   closed only after a 221) *)
Definition abort_path {S} (active : bool) (name : bytes) (res : auth_result) (s : S)
           (script : list reply) (o : outp) : final S :=
  let '(o1, script1) :=
    if is_xoauth2 name then (o, script)
    else (cmd_out active (bs "*") (hd_reply script) o, tl script) in
  let r := hd_reply script1 in
  {| f_res := res; f_state := s; f_out := cmd_out active (bs "QUIT") r o1; f_active := active;
     f_closed := match r with Reply c _ => c =? 221 | RBad => false end;
     f_rest := tl script1 |}.

Definition quit_only {S} (active : bool) (res : auth_result) (s : S) (script : list reply) (o : outp) : final S :=
  let r := hd_reply script in
  {| f_res := res; f_state := s; f_out := cmd_out active (bs "QUIT") r o; f_active := active;
     f_closed := match r with Reply c _ => c =? 221 | RBad => false end;
     f_rest := tl script |}.

(* one pass through the body of "for err == nil": (code, msg64) is the reply just read without error,
   [rest] the replies still to come *)
Fixpoint auth_loop {S} (m : mech S) (active : bool) (name : bytes) (s : S) (code : N) (msg64 : bytes)
         (rest : list reply) (o : outp) {struct rest} : final S :=
  let dec : auth_result + (bytes * bool) :=
    if code =? code_challenge then
      match b64dec (filter no_crlf_byte msg64) with
      | Some msg => inr (msg, true)
      | None => inl AErrDecode
      end
    else if code =? code_success then inr (msg64, false)
    else inl (AErrServer code) in
  match dec with
  | inl e => abort_path active name e s rest o
  | inr (msg, more) =>
      match m_next m s msg more with
      | (s', None) => abort_path active name AErrMech s' rest o
      | (s', Some None) =>
          {| f_res := ASuccess; f_state := s'; f_out := o; f_active := active; f_closed := false; f_rest := rest |}
      | (s', Some (Some resp)) =>
          let line := b64enc resp in
          match rest with
          | Reply c mm :: rest' => auth_loop m active name s' c mm rest' (cmd_out active line (Reply c mm) o)
          | _ => {| f_res := AErrIO; f_state := s'; f_out := cmd_out active line RBad o; f_active := active;
                    f_closed := false; f_rest := tl rest |}
          end
      end
  end.

(* the deferred function of Auth *)
Definition deferred {S} (log_auth_data : bool) (f : final S) : final S :=
  {| f_res := f_res f; f_state := f_state f; f_out := f_out f;
     f_active := if Gen.smtp_auth_deactivation_deferred
                 then (if Gen.smtp_auth_defer_unconditional then false else if log_auth_data then f_active f else false)
                 else f_active f;
     f_closed := f_closed f; f_rest := f_rest f |}.

(* smtp.Client.Auth; [active0] = c.authIsActive on entry (false for a client that is not inside Auth) *)
Definition auth {S} (m : mech S) (log_auth_data : bool) (active0 : bool) (s : S) (script : list reply) : final S :=
  let active := if log_auth_data then active0 else true in
  let o0 := {| o_sent := []; o_log := [] |} in
  deferred log_auth_data
    match m_start m s with
    | (s', None) => quit_only active AErrStart s' script o0
    | (s', Some (name, resp)) =>
        let resp64 := match resp with Some r => b64enc r | None => [] end in
        (* strings.TrimSpace(fmt.Sprintf("AUTH %s %s", mech, resp64)) *)
        let line := if match resp64 with [] => true | _ => false end then bs "AUTH " ++ name
                    else bs "AUTH " ++ name ++ bs " " ++ resp64 in
        match script with
        | Reply c mm :: rest => auth_loop m active name s' c mm rest (cmd_out active line (Reply c mm) o0)
        | _ => {| f_res := AErrIO; f_state := s'; f_out := cmd_out active line RBad o0; f_active := active;
                  f_closed := false; f_rest := tl script |}
        end
    end.

(* Auth when c.logAuthData is changed while it runs (SetLogAuthData from the mechanism or another goroutine): [lad_entry]
   is the value read on entry, [lad_exit] the value the deferred function reads.  Between the two only authIsActive
   decides about redaction, and Auth is its only writer (Gen.smtp_authIsActive_writers).  auth_x m l l = auth m l. *)
Definition auth_x {S} (m : mech S) (lad_entry lad_exit : bool) (active0 : bool) (s : S) (script : list reply) : final S :=
  let active := if Gen.smtp_auth_entry_opens lad_entry true then true else active0 in
  let o0 := {| o_sent := []; o_log := [] |} in
  deferred lad_exit
    match m_start m s with
    | (s', None) => quit_only active AErrStart s' script o0
    | (s', Some (name, resp)) =>
        let resp64 := match resp with Some r => b64enc r | None => [] end in
        let line := if match resp64 with [] => true | _ => false end then bs "AUTH " ++ name
                    else bs "AUTH " ++ name ++ bs " " ++ resp64 in
        match script with
        | Reply c mm :: rest => auth_loop m active name s' c mm rest (cmd_out active line (Reply c mm) o0)
        | _ => {| f_res := AErrIO; f_state := s'; f_out := cmd_out active line RBad o0; f_active := active;
                  f_closed := false; f_rest := tl script |}
        end
    end.

(* a command issued after Auth returned (any verb), as cmd logs it *)
Definition cmd_after {S} (f : final S) (line : bytes) (r : reply) : list logrec :=
  [rec_c2s (f_active f) line; rec_s2c (f_active f) r].
