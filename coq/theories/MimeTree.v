(* MimeTree.v — MIME entity trees: what a writer serialises and a reader recovers. *)
From Verif Require Export Bytes.

(* [hdr] is the header block as it stands in the text (complete lines, each ending in CRLF,
   without the empty line that ends it); a multipart node also records the boundary its
   Content-Type announces *)
Inductive node :=
| Leaf (hdr body : bytes)
| Multi (hdr boundary : bytes) (kids : list node).

(* the leaves in document order: (header block, body as transferred) *)
Fixpoint leaves (t : node) : list (bytes * bytes) :=
  match t with
  | Leaf h body => [(h, body)]
  | Multi _ _ kids => flat_map leaves kids
  end.

Fixpoint height (t : node) : nat :=
  match t with
  | Leaf _ _ => O
  | Multi _ _ kids => S (fold_right (fun k m => Nat.max (height k) m) O kids)
  end.
