(* EmlWord.v — mime.WordDecoder.DecodeHeader (go1.23 mime/encodedword.go) transliterated: what
   turns the stored Subject (and any other RFC 2047 value) back into text.  Charsets: UTF-8,
   US-ASCII, ISO-8859-1 (the ones the stdlib converts itself); any other charset is "unhandled",
   i.e. the encoded-word is copied literally, as DecodeHeader does.
   Tied to the stdlib by the correspondence kind "dec2047" of harness/c10. *)
From Coq Require Import String.
From Verif Require Export Bytes Base64 Eml.

(* strings.Index(s, [a; b]): (text before, text after the pattern) *)
Fixpoint find2 (a b : N) (s : bytes) : option (bytes * bytes) :=
  match s with
  | [] => None
  | x :: t =>
      if N.eqb x a && match t with y :: _ => N.eqb y b | [] => false end
      then Some ([], tl t)
      else match find2 a b t with Some (p, r) => Some (x :: p, r) | None => None end
  end.

Fixpoint find1 (c : N) (s : bytes) : option (bytes * bytes) :=
  match s with
  | [] => None
  | x :: t => if N.eqb x c then Some ([], t)
              else match find1 c t with Some (p, r) => Some (x :: p, r) | None => None end
  end.

Definition hexv (c : N) : option N :=
  if ((48 <=? c) && (c <=? 57))%N then Some (c - 48)%N
  else if ((65 <=? c) && (c <=? 70))%N then Some (c - 55)%N
  else if ((97 <=? c) && (c <=? 102))%N then Some (c - 87)%N
  else None.

(* qDecode *)
Fixpoint q_decode (s : bytes) : option bytes :=
  match s with
  | [] => Some []
  | c :: t =>
      if N.eqb c 95 then match q_decode t with Some r => Some (32%N :: r) | None => None end
      else if N.eqb c 61 then
        match t with
        | h1 :: h2 :: t' =>
            match hexv h1, hexv h2, q_decode t' with
            | Some a, Some b, Some r => Some ((a * 16 + b)%N :: r)
            | _, _, _ => None
            end
        | _ => None
        end
      else if ((32 <=? c) && (c <=? 126))%N || N.eqb c 10 || N.eqb c 13 || N.eqb c 9
      then match q_decode t with Some r => Some (c :: r) | None => None end
      else None
  end.

Definition word_payload (enc : N) (text : bytes) : option bytes :=
  if N.eqb enc 113 || N.eqb enc 81 then q_decode text
  else if N.eqb enc 98 || N.eqb enc 66 then b64dec text
  else None.

(* WordDecoder.convert *)
Definition latin1 (b : N) : bytes := if (b <? 128)%N then [b] else [(192 + b / 64)%N; (128 + b mod 64)%N].
Definition ascii_only (b : N) : bytes := if (b <? 128)%N then [b] else [239; 191; 189]%N.
Definition convert (charset content : bytes) : option bytes :=
  if eqfold charset (bs "utf-8") then Some content
  else if eqfold charset (bs "iso-8859-1") then Some (flat_map latin1 content)
  else if eqfold charset (bs "us-ascii") then Some (flat_map ascii_only content)
  else None.

Definition is_hws (b : N) : bool := N.eqb b 32 || N.eqb b 9 || N.eqb b 10 || N.eqb b 13.
Definition has_non_ws (s : bytes) : bool := existsb (fun b => negb (is_hws b)) s.

(* the loop of DecodeHeader: [out] = buf, [between] = betweenWords; None = the error return
   ("unhandled charset") *)
Fixpoint decode_loop (fuel : nat) (header : bytes) (between : bool) (out : bytes) : option bytes :=
  match fuel with
  | O => Some (out ++ header)
  | S f =>
      match find2 61 63 header with
      | None => Some (out ++ header)
      | Some (pre, after) =>
          match find1 63 after with
          | None => Some (out ++ header)
          | Some (charset, r1) =>
              match r1 with
              | enc :: q :: r2 =>
                  if negb (N.eqb q 63) then Some (out ++ header)
                  else
                    match find2 63 61 r2 with
                    | None => Some (out ++ header)
                    | Some (text, rest) =>
                        match word_payload enc text with
                        | Some content =>
                            let out' := if negb (is_empty pre) && (negb between || has_non_ws pre)
                                        then out ++ pre else out in
                            match convert charset content with
                            | Some conv => decode_loop f rest true (out' ++ conv)
                            | None => None
                            end
                        | None => decode_loop f after false (out ++ pre ++ [61; 63]%N)
                        end
                    end
              | _ => Some (out ++ header)
              end
          end
      end
  end.

Definition decode_header (s : bytes) : option bytes := decode_loop (S (length s)) s false [].
