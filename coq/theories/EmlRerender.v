(* EmlRerender.v — C10, second half: the Writer.msg that the parsed *Msg denotes, i.e. what the
   next WriteTo renders.  EMLToMsg fills the Msg through its setters:
     generic headers through SetGenHeader (the value is word-encoded again with the Msg's encoder),
     addresses as parsed, body parts with explicit charset and encoding and the decoded content,
     files through AttachReader / EmbedReader (name, decoded bytes; an embed also gets its
     Content-ID preset in the header cache by WithFileContentID); no cached boundaries.
   [mime_of]: mime.TypeByExtension(filepath.Ext(name)) or "application/octet-stream" (oracle). *)
From Coq Require Import String.
From Verif Require Import Bytes Base64 LineBreaker QP HeaderFold WordEnc Writer MimeTree Render.
From Verif Require Import Eml EmlFront EmlRoundtrip.
From VerifGen Require Import Gen.

Section Rerender.
Context (mime_of : bytes -> bytes).

(* getEncoder(m.encoding): B for base64, Q otherwise *)
Definition wenc_of (st : mstate) : N := if bytes_eqb (m_enc st) enc_b64 then 98%N else 113%N.

Definition part_of_obs (p : pobs) : Writer.part :=
  mkpart (p_ct p) (p_cs p) (enc_of_name (Eml.p_enc p)) [] (mkprod [p_content p] false).

Definition file_of_obs (f : fobs) : Writer.file :=
  mkfile (fo_name f) (mime_of (fo_name f)) None []
         (match fo_cid f with [] => [] | c => [(h_cid, c)] end)
         (mkprod [fo_bytes f] false).

Definition addr_entry (k : bytes) (l : list bytes) : list (bytes * list bytes) :=
  match l with [] => [] | _ => [(k, l)] end.

Definition msg_of_parsed (st : mstate) : Writer.msg :=
  let w := wenc_of st in
  mkmsg (Eml.m_charset st) w
        (map (fun kv => (fst kv, [word_encode w (snd kv)])) (Eml.m_gen st)) []
        (match a_from (m_addrs st) with f :: _ => Some f | [] => None end)
        (addr_entry hdr_to (a_to (m_addrs st)) ++ addr_entry hdr_cc (a_cc (m_addrs st)))
        (map part_of_obs (Eml.m_parts st))
        (map file_of_obs (m_embs st)) (map file_of_obs (m_atts st))
        [] [] [].

(* the bytes of the next render (date / message id are already in the generic headers) *)
Definition rerender (rb : list bytes) (st : mstate) : bytes :=
  r_out (write_to [] [] rb (msg_of_parsed st) unlimited).

End Rerender.

(* ---------- the same message, computed from the message that was built ---------- *)
Section Reparsed.
Context (mime_of : bytes -> bytes).

Definition w_of (m : Writer.msg) : N := if bytes_eqb (expected_enc m) enc_b64 then 98%N else 113%N.

Definition part2 (p : Writer.part) : Writer.part :=
  mkpart (Writer.p_ctype p) charset_utf8 (Writer.p_enc p) []
         (mkprod [expected_content (Writer.p_enc p) (content_of (p_prod p))] false).

Definition file2 (is_att : bool) (f : Writer.file) : Writer.file :=
  mkfile (f_name f) (mime_of (f_name f)) None []
         (if is_att then [] else [(h_cid, bs "<" ++ f_name f ++ bs ">")])
         (mkprod [content_of (f_prod f)] false).

(* what EMLToMsg makes of the rendering of m (rendered with date d, message id i) *)
Definition reparsed (d i : bytes) (m : Writer.msg) : Writer.msg :=
  mkmsg charset_utf8 (w_of m)
        (map (fun kv => (fst kv, [snd kv]))
             (parsed_gen d i (match gen_value hdr_subject m with Some v => v | None => [] end))) []
        (m_from m)
        (addr_entry hdr_to (addr_list hdr_to m) ++ addr_entry hdr_cc (addr_list hdr_cc m))
        (map part2 (Writer.m_parts m))
        (map (file2 false) (m_embeds m)) (map (file2 true) (m_attach m))
        [] [] [].
End Reparsed.

(* ---------- what an independent reader finds in a tree ---------- *)
(* per leaf: the fields of its header block, and from them type, charset, file name, kind; the body
   decoded according to its Content-Transfer-Encoding *)
Definition decode_cte (cte body : bytes) : option bytes :=
  if eqfold cte enc_qp then dec_qp body else if eqfold cte enc_b64 then dec_b64 body else Some body.

Definition param_of (v k : bytes) : bytes :=
  match media_params (S (length v)) (snd (cut_semi v)) [] with
  | Some ps => match map_get ps k with Some x => x | None => [] end
  | None => []
  end.
Definition base_of (v : bytes) : bytes := lower_bytes (trim (fst (cut_semi v))).

Record lcontent := mklc { lc_type : bytes; lc_charset : bytes; lc_content : bytes; lc_name : bytes; lc_kind : bytes }.

Definition leaf_content (hb : bytes * bytes) : option lcontent :=
  match fields_of_block (fst hb) with
  | None => None
  | Some f =>
      match decode_cte (hget f hdr_content_transfer_enc) (snd hb) with
      | None => None
      | Some c =>
          let ct := hget f hdr_content_type in
          let cd := hget f hdr_content_disposition in
          Some (mklc (base_of ct) (param_of ct (bs "charset")) c (param_of cd (bs "filename")) (base_of cd))
      end
  end.

Definition tree_content (t : node) : list (option lcontent) := map leaf_content (leaves t).
