(* Eml.v — the EML parser of go-mail (eml.go) transliterated.

   What is modelled (function by function, see DESIGN.md Appendix A):
     parseMultiPartHeader, parseEMLAttachmentEmbed, parseEMLMultipart (part loop with its two
     `goto ReadNextPart` and the recursion into multipart/related|alternative parts),
     parseEMLBodyParts, parseEMLBodyPlain, parseEMLEncoding, parseEMLContentTypeCharset,
     parseEMLHeaders (what it copies into the generic headers), parseEML, EMLToMsgFromReader.
   Go's partial operations are explicit: [go_index] / [go_slice] yield [Panic] exactly when the Go
   expression x[i] / s[a:b] panics; every index / slice expression of eml.go goes through them.
   What is NOT modelled (oracle arguments, computed by the real stdlib in the harness):
     net/mail.ReadMessage + reading the body, net/mail address and date parsing, mime.ParseMediaType,
     mime/multipart.Reader (the finite list of parts of each multipart body and how the stream ends),
     the quoted-printable / base64 decoders (only whether they fail).
   The state of the *Msg that the public getters show is the result ([mstate]). *)
From Coq Require Import String.
From Verif Require Export Bytes.
From VerifGen Require Import Gen.
From Coq Require Import ZArith.

(* ---------- outcomes ---------- *)
Inductive outcome (A : Type) : Type :=
| Ok (a : A)
| Err
| Panic.
Arguments Ok {A} a.
Arguments Err {A}.
Arguments Panic {A}.

Definition bind {A B : Type} (o : outcome A) (f : A -> outcome B) : outcome B :=
  match o with
  | Ok a => f a
  | Err => Err
  | Panic => Panic
  end.

Notation "x <- e ;; k" := (bind e (fun x => k)) (at level 61, e at next level, right associativity).

(* ---------- Go primitives ---------- *)
Definition ilen {A : Type} (l : list A) : Z := Z.of_nat (length l).

(* l[i]: panics unless 0 <= i < len(l) *)
Definition go_index {A : Type} (l : list A) (i : Z) : outcome A :=
  if ((0 <=? i) && (i <? ilen l))%Z
  then match nth_error l (Z.to_nat i) with
       | Some x => Ok x
       | None => Panic
       end
  else Panic.

(* l[a:b]: panics unless 0 <= a <= b <= len(l) *)
Definition go_slice {A : Type} (l : list A) (a b : Z) : outcome (list A) :=
  if ((0 <=? a) && (a <=? b) && (b <=? ilen l))%Z
  then Ok (firstn (Z.to_nat (b - a)) (skipn (Z.to_nat a) l))
  else Panic.

(* strings.TrimLeft(s, " ") *)
Fixpoint trim_left_sp (s : bytes) : bytes :=
  match s with
  | 32%N :: t => trim_left_sp t
  | _ => s
  end.

(* strings.SplitN(s, sep, 2) for a one-byte separator *)
Fixpoint splitn2 (sep : N) (s : bytes) : list bytes :=
  match s with
  | [] => [[]]
  | b :: t =>
      if N.eqb b sep then [[]; t]
      else match splitn2 sep t with
           | [] => [[b]]                      (* unreachable *)
           | w :: r => (b :: w) :: r
           end
  end.

Definition lower_ascii (b : N) : N := if ((65 <=? b) && (b <=? 90))%N then (b + 32)%N else b.

(* strings.EqualFold(s, c) for an ASCII constant c: ASCII case folding plus the two non-ASCII runes
   whose simple-folding orbit contains an ASCII letter: U+017F (c5 bf) ~ s, U+212A (e2 84 aa) ~ k *)
Fixpoint fold_norm (s : bytes) : bytes :=
  match s with
  | 197%N :: 191%N :: t => 115%N :: fold_norm t
  | 226%N :: 132%N :: 170%N :: t => 107%N :: fold_norm t
  | b :: t => lower_ascii b :: fold_norm t
  | [] => []
  end.
Definition eqfold (s c : bytes) : bool := bytes_eqb (fold_norm s) (fold_norm c).

(* strings.ToLower(s) == c for an ASCII constant c: the runes whose lower case is ASCII are A-Z,
   U+0130 (c4 b0) -> i and U+212A (e2 84 aa) -> k *)
Fixpoint lower_norm (s : bytes) : bytes :=
  match s with
  | 196%N :: 176%N :: t => 105%N :: lower_norm t
  | 226%N :: 132%N :: 170%N :: t => 107%N :: lower_norm t
  | b :: t => lower_ascii b :: lower_norm t
  | [] => []
  end.
Definition lower_is (s c : bytes) : bool := bytes_eqb (lower_norm s) c.

Definition is_empty (s : bytes) : bool := match s with [] => true | _ => false end.

(* ---------- Go map[string]string ---------- *)
Definition pmap := list (bytes * bytes).
Fixpoint map_get (m : pmap) (k : bytes) : option bytes :=
  match m with
  | [] => None
  | (k', v) :: t => if bytes_eqb k' k then Some v else map_get t k
  end.
Fixpoint map_set (m : pmap) (k v : bytes) : pmap :=
  match m with
  | [] => [(k, v)]
  | (k', v') :: t => if bytes_eqb k' k then (k, v) :: t else (k', v') :: map_set t k v
  end.

(* ---------- textproto.MIMEHeader as read by the stdlib: the fields in order, keys canonical ---------- *)
Definition hdr := list (bytes * bytes).
(* h[k]: the values of the fields named k; `_, ok := h[k]` is ok iff the list is non-empty *)
Fixpoint hvals (h : hdr) (k : bytes) : list bytes :=
  match h with
  | [] => []
  | (k', v) :: t => if bytes_eqb k' k then v :: hvals t k else hvals t k
  end.
(* textproto.CanonicalMIMEHeaderKey on keys made of letters, digits and '-' *)
Fixpoint canon_from (upper : bool) (k : bytes) : bytes :=
  match k with
  | [] => []
  | b :: t =>
      let b' := if upper
                then (if ((97 <=? b) && (b <=? 122))%N then (b - 32)%N else b)
                else lower_ascii b in
      b' :: canon_from (N.eqb b 45) t
  end.
Definition canon (k : bytes) : bytes := canon_from true k.
(* h.Get(k) *)
Definition hget (h : hdr) (k : bytes) : bytes :=
  match hvals h (canon k) with
  | v :: _ => v
  | [] => []
  end.

(* ---------- what the getters of the parsed *Msg show ---------- *)
Record pobs := mkp { p_ct : bytes; p_cs : bytes; p_enc : bytes; p_content : bytes }.
(* fo_cid = [] : no Content-ID option; fo_bytes: what File.Writer produces *)
Record fobs := mkf { fo_name : bytes; fo_cid : bytes; fo_bytes : bytes }.
(* address lists as the formatted strings GetFromString / GetToString … return *)
Record addrs := mka { a_from : list bytes; a_to : list bytes; a_cc : list bytes; a_bcc : list bytes }.
Record mstate := mkm {
  m_charset : bytes;
  m_enc : bytes;
  m_parts : list pobs;
  m_atts : list fobs;
  m_embs : list fobs;
  m_gen : list (bytes * bytes);         (* generic headers set: key, raw value given to SetGenHeader *)
  m_addrs : addrs
}.

Definition no_addrs : addrs := mka [] [] [] [].
Definition st_init : mstate := mkm charset_utf8 enc_qp [] [] [] [] no_addrs.
Definition set_charset (st : mstate) (c : bytes) : mstate :=
  mkm c (m_enc st) (m_parts st) (m_atts st) (m_embs st) (m_gen st) (m_addrs st).
Definition set_enc (st : mstate) (e : bytes) : mstate :=
  mkm (m_charset st) e (m_parts st) (m_atts st) (m_embs st) (m_gen st) (m_addrs st).
Definition set_parts (st : mstate) (l : list pobs) : mstate :=
  mkm (m_charset st) (m_enc st) l (m_atts st) (m_embs st) (m_gen st) (m_addrs st).
Definition add_att (st : mstate) (f : fobs) : mstate :=
  mkm (m_charset st) (m_enc st) (m_parts st) (m_atts st ++ [f]) (m_embs st) (m_gen st) (m_addrs st).
Definition add_emb (st : mstate) (f : fobs) : mstate :=
  mkm (m_charset st) (m_enc st) (m_parts st) (m_atts st) (m_embs st ++ [f]) (m_gen st) (m_addrs st).
Definition set_gen (st : mstate) (k v : bytes) : mstate :=
  mkm (m_charset st) (m_enc st) (m_parts st) (m_atts st) (m_embs st) (map_set (m_gen st) k v) (m_addrs st).
Definition set_addrs (st : mstate) (a : addrs) : mstate :=
  mkm (m_charset st) (m_enc st) (m_parts st) (m_atts st) (m_embs st) (m_gen st) a.
(* Msg.SetBodyString: replaces the part list by one part with the message's charset and encoding *)
Definition set_body (st : mstate) (ct content : bytes) : mstate :=
  set_parts st [mkp ct (m_charset st) (m_enc st) content].

(* ---------- oracles: results of the stdlib on this input ---------- *)
Inductive mtres :=
| MTNone                                           (* mime.ParseMediaType: "mime: no media type" *)
| MTErr                                            (* any other error *)
| MTOk (mt : bytes) (charset : option bytes) (has_boundary : bool).

Record bits := mkbits {
  read_ok : bool;              (* reading the body of this entity to its end succeeds *)
  raw : bytes;                 (* the body as the reader delivers it (a multipart.Part has already decoded
                                  quoted-printable and dropped that Content-Transfer-Encoding header) *)
  qp_dec : option bytes;       (* quotedprintable.NewReader over the body: the text, None = error *)
  b64s_dec : option bytes;     (* base64.NewDecoder(StdEncoding) over the body *)
  b64d_dec : option bytes      (* base64.StdEncoding.DecodeString(body) *)
}.
Definition is_some {A : Type} (o : option A) : bool := match o with Some _ => true | None => false end.
Definition odflt (o : option bytes) : bytes := match o with Some x => x | None => [] end.
Definition qp_ok (b : bits) : bool := is_some (qp_dec b).
Definition b64s_ok (b : bits) : bool := is_some (b64s_dec b).
Definition b64d_ok (b : bits) : bool := is_some (b64d_dec b).

(* net/mail on an address field: absent or empty / error / the parsed addresses, each as String() *)
Inductive ares := ANone | AErr | AOk (l : list bytes).
(* Header.Date(): absent / error / the time, formatted RFC1123Z as SetDateWithValue stores it *)
Inductive dres := DNone | DErr | DOk (formatted : bytes).

(* an entity = header + body; [parts]/[end_ok]: what multipart.Reader yields on the body with the
   boundary of the entity's Content-Type: the finite list of parts, then io.EOF (true) or an error *)
Inductive entity :=
| Entity (h : hdr) (mt : mtres) (b : bits) (parts : list entity) (end_ok : bool).

Definition e_hdr (e : entity) : hdr := match e with Entity h _ _ _ _ => h end.
Definition e_bits (e : entity) : bits := match e with Entity _ _ b _ _ => b end.

(* ---------- parseMultiPartHeader (eml.go:533) ---------- *)
Fixpoint pmh_opts (opts : list bytes) (optional : pmap) : outcome pmap :=
  match opts with
  | [] => Ok optional
  | opt :: rest =>
      let optString := trim_left_sp opt in
      let optSplit := splitn2 61 optString in
      if (ilen optSplit =? 2)%Z then
        k <- go_index optSplit 0 ;;
        v <- go_index optSplit 1 ;;
        pmh_opts rest (map_set optional k v)
      else pmh_opts rest optional
  end.

Definition parse_multipart_header (s : bytes) : outcome (bytes * pmap) :=
  let headerSplit := split_on 59 s in
  header <- go_index headerSplit 0 ;;
  if (ilen headerSplit =? 1)%Z then Ok (header, [])
  else
    rest <- go_slice headerSplit 1 (ilen headerSplit) ;;
    optional <- pmh_opts rest [] ;;
    Ok (header, optional).

(* ---------- the filename parameter (eml.go:567) ---------- *)
Definition dquote : N := 34.

(* unrepaired tree:   filename = name[1 : len(name)-1] *)
Definition filename_of_old (name : bytes) : outcome bytes :=
  go_slice name 1 (ilen name - 1).

(* repaired tree (proposed_fixes/C09-filename-slice.diff):
     filename = name
     if len(name) >= 2 && name[0] == '"' && name[len(name)-1] == '"' { filename = name[1 : len(name)-1] } *)
Definition filename_of (name : bytes) : outcome bytes :=
  if (2 <=? ilen name)%Z then
    c0 <- go_index name 0 ;;
    if N.eqb c0 dquote then
      c1 <- go_index name (ilen name - 1) ;;
      if N.eqb c1 dquote then go_slice name 1 (ilen name - 1) else Ok name
    else Ok name
  else Ok name.

Definition lit_filename : bytes := bs "filename".
Definition lit_charset : bytes := bs "charset".
Definition lit_generic : bytes := bs "generic.attachment".
Definition lit_attachment : bytes := bs "attachment".
Definition lit_inline : bytes := bs "inline".

Section Parser.
(* the filename rule is a parameter so that the repaired and the unrepaired parser are the same text;
   [legacy] = true selects the two other behaviours of the unrepaired tree that C10 repairs:
   Content-Type copied into the generic headers (proposed_fixes/C10-content-type-genheader.diff) and
   a nested multipart/alternative container also added as a body part
   (proposed_fixes/C10-phantom-alternative-part.diff) *)
Context (fnof : bytes -> outcome bytes) (legacy : bool).

(* ---------- parseEMLAttachmentEmbed (eml.go:564) ----------
   [drained]: the part's body was already consumed by the nested-multipart branch *)
Definition attachment_embed (cd : list bytes) (h : hdr) (b : bits) (drained : bool) (st : mstate)
  : outcome mstate :=
  cd0 <- go_index cd 0 ;;
  ph <- parse_multipart_header cd0 ;;
  let '(cdType, optional) := ph in
  filename <- match map_get optional lit_filename with
              | Some name => fnof name
              | None => Ok lit_generic
              end ;;
  pe <- parse_multipart_header (hget h hdr_content_transfer_enc) ;;
  let isb64 := eqfold (fst pe) enc_b64 in
  (* AttachReader / EmbedReader read the (possibly base64-decoded) part to its end *)
  let data_ok := drained || (read_ok b && (if isb64 then b64s_ok b else true)) in
  let data := if drained then [] else if isb64 then odflt (b64s_dec b) else raw b in
  if lower_is cdType lit_attachment then
    if data_ok then Ok (add_att st (mkf filename [] data)) else Err
  else if lower_is cdType lit_inline then
    pc <- parse_multipart_header (hget h hdr_content_id) ;;
    if data_ok then Ok (add_emb st (mkf filename (fst pc) data)) else Err
  else Err.

(* ---------- parseEMLBodyPlain (eml.go:306) ---------- *)
Definition parse_body_plain (mediatype : bytes) (h : hdr) (b : bits) (st : mstate) : outcome mstate :=
  let cte := hget h hdr_content_transfer_enc in
  if is_empty cte || eqfold cte enc_7bit then Ok (set_body (set_enc st enc_7bit) mediatype (raw b))
  else if eqfold cte enc_none then Ok (set_body (set_enc st enc_none) mediatype (raw b))
  else if eqfold cte enc_qp then
    if qp_ok b then Ok (set_body (set_enc st enc_qp) mediatype (odflt (qp_dec b))) else Err
  else if eqfold cte enc_b64 then
    if b64s_ok b then Ok (set_body (set_enc st enc_b64) mediatype (odflt (b64s_dec b))) else Err
  else Err.

(* ---------- one iteration of the part loop of parseEMLMultipart (eml.go:373-448) ---------- *)

(* The transfer encoding of a body part.  In the source the slice is declared INSIDE the loop body:
     mutliPartTransferEnc, ok := multiPart.Header["Content-Transfer-Encoding"]
     if !ok { mutliPartTransferEnc = []string{EncodingQP.String()} }   // the stdlib strips the header of QP parts
   so the default is established afresh for every part: it is a function of the part's own header. *)
Definition part_cte (h : hdr) : list bytes :=
  match hvals h hdr_content_transfer_enc with
  | [] => [enc_qp]
  | l => l
  end.

(* the switch over strings.EqualFold(mutliPartTransferEnc[0], …): 7bit, 8bit, base64, quoted-printable *)
Definition classify_cte (c0 : bytes) : option bytes :=
  if eqfold c0 enc_7bit then Some enc_7bit
  else if eqfold c0 enc_none then Some enc_none
  else if eqfold c0 enc_b64 then Some enc_b64
  else if eqfold c0 enc_qp then Some enc_qp
  else None.

Definition part_enc_of_hdr (h : hdr) : option bytes :=
  match part_cte h with
  | c0 :: _ => classify_cte c0
  | [] => None
  end.

(* first half: `if contentTypeSlice, ok := Header["Content-Type"]; ok && len(contentTypeSlice) == 1`:
   a nested multipart/related|alternative is parsed recursively ([sub] = parseEMLBodyParts on this part);
   the flag says whether the part's body was consumed by that *)
Definition nested_phase (sub : mstate -> outcome mstate) (p : entity) (st : mstate) : outcome (mstate * bool) :=
  let h := e_hdr p in
  let b := e_bits p in
  match hvals h hdr_content_type with
  | [_] as cts =>
      ct0 <- go_index cts 0 ;;
      ph <- parse_multipart_header ct0 ;;
      if eqfold (fst ph) type_multipart_related || eqfold (fst ph) type_multipart_alternative then
        if read_ok b then (st' <- sub st ;; Ok (st', true)) else Err
      else Ok (st, false)
  | _ => Ok (st, false)
  end.

(* second half: attachment / embed, or a body part appended to msg.parts *)
Definition body_phase (p : entity) (drained : bool) (st1 : mstate) : outcome mstate :=
  let h := e_hdr p in
  let b := e_bits p in
  match hvals h hdr_content_disposition with
  | (_ :: _) as cd => attachment_embed cd h b drained st1             (* … goto ReadNextPart *)
  | [] =>
      if negb (drained || read_ok b) then Err                       (* io.ReadAll(multiPart) *)
      else
        match hvals h hdr_content_type with
        | [] => Err                                                  (* "failed to get content-type from part" *)
        | (_ :: _) as cts =>
            ct0 <- go_index cts 0 ;;
            ph <- parse_multipart_header ct0 ;;
            let '(contentType, optional) := ph in
            if eqfold contentType type_multipart_related
               || (negb legacy && eqfold contentType type_multipart_alternative)
            then Ok st1                                               (* goto ReadNextPart *)
            else
              let cs := match map_get optional lit_charset with
                        | Some c => c
                        | None => m_charset st1
                        end in
              (* mutliPartTransferEnc[0]: five textual occurrences of the same expression *)
              c0 <- go_index (part_cte h) 0 ;;
              match classify_cte c0 with
              | None => Err                                          (* unsupported Content-Transfer-Encoding *)
              | Some enc =>
                  (* base64: handleEMLMultiPartBase64Encoding may fail *)
                  if bytes_eqb enc enc_b64 && negb (drained || b64d_ok b) then Err
                  else
                    (* io.ReadAll(multiPart): empty when the nested branch has consumed the part *)
                    let data := if drained then [] else raw b in
                    let content := if bytes_eqb enc enc_b64
                                   then (if drained then [] else odflt (b64d_dec b)) else data in
                    Ok (set_parts st1 (m_parts st1 ++ [mkp contentType cs enc content]))
              end
        end
  end.

Definition part_step (sub : mstate -> outcome mstate) (p : entity) (st : mstate) : outcome mstate :=
  r1 <- nested_phase sub p st ;;
  let '(st1, drained) := r1 in
  body_phase p drained st1.

(* ---------- parseEMLBodyParts (eml.go:256) + parseEMLMultipart (eml.go:357) ----------
   the part loop: every iteration ends in `goto ReadNextPart` or in the NextPart call at the bottom
   of the for loop, i.e. moves on to the next part; a non-EOF error of NextPart is an error return *)
Fixpoint run_parts (steps : list (mstate -> outcome mstate)) (end_ok : bool) (s : mstate) : outcome mstate :=
  match steps with
  | [] => if end_ok then Ok s else Err
  | f :: rest => s' <- f s ;; run_parts rest end_ok s'
  end.

(* structural recursion over the finite part tree the multipart reader yields *)
Fixpoint parse_body_parts (e : entity) (st : mstate) {struct e} : outcome mstate :=
  match e with
  | Entity h mt b parts end_ok =>
      let go (mediatype : bytes) (charset : option bytes) (has_boundary : bool) : outcome mstate :=
        let st1 := match charset with Some c => set_charset st c | None => st end in
        if eqfold mediatype type_text_plain || eqfold mediatype type_text_html then
          parse_body_plain mediatype h b st1
        else if eqfold mediatype type_multipart_alternative || eqfold mediatype type_multipart_mixed
                || eqfold mediatype type_multipart_related then
          if negb has_boundary then Err
          else run_parts (map (fun p => part_step (parse_body_parts p) p) parts) end_ok st1
        else Err in
      match mt with
      | MTNone => go type_text_plain (Some charset_ascii) false
      | MTErr => Err
      | MTOk m c hb => go m c hb
      end
  end.

(* ---------- parseEMLEncoding, parseEMLContentTypeCharset, parseEMLHeaders (eml.go:465, 487, 176) ---------- *)
Definition parse_encoding (h : hdr) (st : mstate) : mstate :=
  let v := hget h hdr_content_transfer_enc in
  if is_empty v then st
  else if eqfold v enc_qp then set_enc st enc_qp
  else if eqfold v enc_b64 then set_enc st enc_b64
  else set_enc st enc_none.

Definition parse_ct_charset (h : hdr) (st : mstate) : outcome mstate :=
  let v := hget h hdr_content_type in
  if is_empty v then Ok st
  else
    ph <- parse_multipart_header v ;;
    let '(contentType, optional) := ph in
    let st1 := match map_get optional lit_charset with Some c => set_charset st c | None => st end in
    if legacy && negb (is_empty contentType) && negb (eqfold contentType type_multipart_mixed)
    then Ok (set_gen st1 hdr_content_type contentType)
    else Ok st1.

(* the loop over commonHeaders (the list is the one in the source: Gen.eml_common_headers) *)
Fixpoint copy_common (keys : list bytes) (h : hdr) (st : mstate) : mstate :=
  match keys with
  | [] => st
  | k :: rest =>
      let v := hget h k in
      if is_empty v then copy_common rest h st
      else if legacy && eqfold k hdr_content_type && is_prefix type_multipart_mixed v then copy_common rest h st
      else copy_common rest h (set_gen st k v)
  end.

(* the list in the source; the unrepaired tree has Content-Type in front of it *)
Definition common_headers : list bytes :=
  if legacy then hdr_content_type :: eml_common_headers else eml_common_headers.

(* the address fields: From through msg.From (one address: SetAddrHeader keeps the first), To/Cc/Bcc
   through ParseAddressList + msg.To/Cc/Bcc of the String() forms; the Date field; then commonHeaders.
   A Date that is absent is replaced by the current time (value not modelled: []). *)
Definition alist (a : ares) : list bytes := match a with AOk l => l | _ => [] end.
Definition aerr (a : ares) : bool := match a with AErr => true | _ => false end.
Definition parse_headers (h : hdr) (from to cc bcc : ares) (date : dres) (st : mstate) : outcome mstate :=
  let st1 := parse_encoding h st in
  st2 <- parse_ct_charset h st1 ;;
  if aerr from || aerr to || aerr cc || aerr bcc then Err
  else
    let st3 := set_addrs st2 (mka (firstn 1 (alist from)) (alist to) (alist cc) (alist bcc)) in
    match date with
    | DErr => Err
    | DNone => Ok (copy_common common_headers h (set_gen st3 hdr_date []))
    | DOk f => Ok (copy_common common_headers h (set_gen st3 hdr_date f))
    end.

(* ---------- EMLToMsgFromReader / EMLToMsgFromString (eml.go:33, 50) ---------- *)
Record top := mktop {
  t_msg_ok : bool;       (* net/mail.ReadMessage and reading the whole body succeed *)
  t_from : ares; t_to : ares; t_cc : ares; t_bcc : ares;
  t_date : dres;
  t_ent : entity
}.

Definition parse_eml (t : top) : outcome mstate :=
  if negb (t_msg_ok t) then Err
  else
    st <- parse_headers (e_hdr (t_ent t)) (t_from t) (t_to t) (t_cc t) (t_bcc t) (t_date t) st_init ;;
    parse_body_parts (t_ent t) st.

End Parser.

(* the repaired parser and, for the record, the parser of the unrepaired tree *)
Definition parse_eml_fixed : top -> outcome mstate := parse_eml filename_of false.
Definition parse_eml_old : top -> outcome mstate := parse_eml filename_of_old true.

(* ---------- observable printed by the driver (same text as the Go harness) ---------- *)
Definition is_panic {A : Type} (o : outcome A) : bool := match o with Panic => true | _ => false end.

(* accessors for the extraction driver (record field names may be renamed by the extraction when several
   models are extracted into one module) *)
Definition pobs_tuple (p : pobs) : bytes * bytes * bytes * bytes := (p_ct p, p_cs p, p_enc p, p_content p).
Definition fobs_tuple (f : fobs) : bytes * bytes * bytes := (fo_name f, fo_cid f, fo_bytes f).
Definition state_tuple (st : mstate)
  : bytes * bytes * list pobs * list fobs * list fobs * list (bytes * bytes) * (list bytes * list bytes * list bytes * list bytes) :=
  (m_charset st, m_enc st, m_parts st, m_atts st, m_embs st, m_gen st,
   (a_from (m_addrs st), a_to (m_addrs st), a_cc (m_addrs st), a_bcc (m_addrs st))).
