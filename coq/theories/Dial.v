(* Dial.v — the dial / dial-and-send dialogue of go-mail as an executable model (engine smtpdial: C07, C17, C19).

   Go functions modelled (client.go, smtp/smtp.go, smtp/smtp_ehlo.go, smtp/auth_*.go):
     cmd, ehlo, helo, hello, Hello, StartTLS, Auth, Quit, Close, NewClient, Noop, Reset, Mail/Rcpt/Data/dataCloser.Close
     (smtp.Client) and DialToSMTPClientWithContext, tls, auth, authTypeAutoDiscover, checkConn, sendSingleMsg,
     SendWithSMTPClient, ResetWithSMTPClient, CloseWithSMTPClient, DialAndSendWithContext (mail.Client).

   Structure.  Every client function is a *program* over a small set of primitive operations on the transport and
   on the smtp.Client bookkeeping ([prim]); [run] interprets a program against a [world] that also contains the
   scripted server (harness/smtpx semantics in StepAuth mode: one decision per greeting / command line / end-of-data
   and per client line of an AUTH exchange, exhausted script = all OK) and the TLS handshake oracle.  Because programs
   are data, an invariant preserved by every primitive is preserved by every program (DialProofs.run_inv).

   A read that finds no reply while the server keeps the connection open returns a timeout when a deadline is set on
   the connection ([armed]) and otherwise blocks for ever: the model then sets the sticky flag [hung] (outcome Hang).

   The three source-dependent repairs are switches of the configuration ([fx_close], [fx_quit], [fx_arm]) whose
   values on the working tree are read from the source by the translator (Gen.dial_error_returns_close, ...). *)
From Coq Require Import String.
From Verif Require Export Bytes.
From VerifGen Require Import Gen.
Open Scope N_scope.

(* ------------------------------------------------------------------------------------------------ *)
(* vocabulary *)

(* what a payload is derived from: nothing secret / the user name / the password itself (PLAIN initial response,
   LOGIN second answer) / a keyed hash of the password (CRAM-MD5) / a bearer token (XOAUTH2) *)
Inductive taint := TNone | TUser | TPass | TDerived | TToken.

Inductive verb :=
| VGreeting                                   (* server side only: the position of the greeting *)
| VEhlo | VHelo | VStartTLS
| VAuth (mech : bytes) (ir : option taint)    (* AUTH <mech> [initial response] *)
| VResp (t : taint)                           (* a continuation line of an AUTH exchange *)
| VAbort                                      (* "*" *)
| VQuit | VNoop | VRset | VMail | VRcpt | VData
| VEod.                                       (* message content followed by the terminating dot (one flush) *)

(* the text of a reply as far as the client looks at it (334 challenges only): not base64 / base64 of something
   non-empty / empty *)
Inductive txclass := TxPlain | TxB64 | TxEmpty.

(* the server's choice for one position *)
(* DWrite (DATA position): 354, and from then on the server does not read any more: the client's writes block until
   the write deadline ([fail] = false) or fail at once (broken pipe); [late]: the message is so short that nothing reaches
   the transport before the final flush in dataCloser.Close *)
Inductive decision := DOk | DReply (code : N) (tx : txclass) | DDrop | DStall | DWrite (fail late : bool).

(* TLS handshake oracle (crypto/tls is not modelled): wrong-name / untrusted certificate / garbage are all HsFail *)
Inductive hs_oracle := HsOk | HsFail | HsStall.

Record reply := mkReply { r_code : N; r_tx : txclass; r_lines : list bytes }.

Inductive err :=
| ECode (c : N) | EProto | EEof | ETimeout | EWrite | EClosed | EHang
| ETls | ENoStartTLS | ENoAuth | ENoMech | ENoDiscover | ENonTLS | ENoConn | EBadType
| EUnenc | EWrongHost | EMech | EHelloAfter | ENotConnected | ESend | EFuel | EDial.

Inductive res (A : Type) := Ok (a : A) | Err (e : err).
Arguments Ok {A} _.
Arguments Err {A} _.

Inductive rres := RReply (r : reply) | REof | RTimeout | RClosed | RHang.

Inductive rkind := KData | KEof | KTimeout | KHang.

(* client-side trace: everything the process did on the transport, in reverse chronological order *)
Inductive event :=
| ECmd (v : verb) (clear : bool)              (* a line left the process; clear = not inside TLS *)
| ERead (armed tlsphase : bool) (k : rkind)   (* one blocking read *)
| EHs (armed : bool)                          (* the reads of a TLS handshake *)
| EArm                                        (* SetDeadline *)
| EClose.                                     (* Close of the transport *)

(* ------------------------------------------------------------------------------------------------ *)
(* the scripted server (harness/smtpx.Server) *)

Record srv := mkSrv {
  script   : list decision;
  mute     : option nat;        (* Some n: the server's (n+1)-th and later writes never reach the client *)
  caps     : list bytes;        (* EHLO extension lines before TLS *)
  caps_tls : list bytes;        (* ... inside TLS *)
  hs       : hs_oracle;
  sopen    : bool;              (* still serving; false after drop / QUIT 221 / failed handshake *)
  silent   : bool;              (* stalled: reads and discards *)
  sauth    : option (nat * bytes);     (* AUTH exchange in progress: prompts left, mechanism *)
  sdata    : bool;              (* data mode *)
  shs      : bool;              (* waiting for the TLS handshake after a 220 to STARTTLS *)
  stls     : bool;
  slog     : list (verb * bool * N);   (* processed positions (verb, inside TLS, reply code; 0 = none), reversed *)
  queue    : list reply;        (* replies on the wire, not yet read *)
  refuse   : nat;               (* dial attempts that fail (connection refused) before the server accepts one *)
  wmode    : option (bool * bool)   (* the server has stopped reading: Some (fail, late), see DWrite *)
}.

Definition set_script (s : srv) (x : list decision) : srv :=
  mkSrv x (mute s) (caps s) (caps_tls s) (hs s) (sopen s) (silent s) (sauth s) (sdata s) (shs s) (stls s) (slog s) (queue s) (refuse s) (wmode s).
Definition set_mute (s : srv) (x : option nat) : srv :=
  mkSrv (script s) x (caps s) (caps_tls s) (hs s) (sopen s) (silent s) (sauth s) (sdata s) (shs s) (stls s) (slog s) (queue s) (refuse s) (wmode s).
Definition set_sopen (s : srv) (x : bool) : srv :=
  mkSrv (script s) (mute s) (caps s) (caps_tls s) (hs s) x (silent s) (sauth s) (sdata s) (shs s) (stls s) (slog s) (queue s) (refuse s) (wmode s).
Definition set_silent (s : srv) (x : bool) : srv :=
  mkSrv (script s) (mute s) (caps s) (caps_tls s) (hs s) (sopen s) x (sauth s) (sdata s) (shs s) (stls s) (slog s) (queue s) (refuse s) (wmode s).
Definition set_sauth (s : srv) (x : option (nat * bytes)) : srv :=
  mkSrv (script s) (mute s) (caps s) (caps_tls s) (hs s) (sopen s) (silent s) x (sdata s) (shs s) (stls s) (slog s) (queue s) (refuse s) (wmode s).
Definition set_sdata (s : srv) (x : bool) : srv :=
  mkSrv (script s) (mute s) (caps s) (caps_tls s) (hs s) (sopen s) (silent s) (sauth s) x (shs s) (stls s) (slog s) (queue s) (refuse s) (wmode s).
Definition set_shs (s : srv) (x : bool) : srv :=
  mkSrv (script s) (mute s) (caps s) (caps_tls s) (hs s) (sopen s) (silent s) (sauth s) (sdata s) x (stls s) (slog s) (queue s) (refuse s) (wmode s).
Definition set_stls (s : srv) (x : bool) : srv :=
  mkSrv (script s) (mute s) (caps s) (caps_tls s) (hs s) (sopen s) (silent s) (sauth s) (sdata s) (shs s) x (slog s) (queue s) (refuse s) (wmode s).
Definition set_slog (s : srv) (x : list (verb * bool * N)) : srv :=
  mkSrv (script s) (mute s) (caps s) (caps_tls s) (hs s) (sopen s) (silent s) (sauth s) (sdata s) (shs s) (stls s) x (queue s) (refuse s) (wmode s).
Definition set_queue (s : srv) (x : list reply) : srv :=
  mkSrv (script s) (mute s) (caps s) (caps_tls s) (hs s) (sopen s) (silent s) (sauth s) (sdata s) (shs s) (stls s) (slog s) x (refuse s) (wmode s).

Definition set_refuse (s : srv) (x : nat) : srv :=
  mkSrv (script s) (mute s) (caps s) (caps_tls s) (hs s) (sopen s) (silent s) (sauth s) (sdata s) (shs s) (stls s) (slog s) (queue s) x (wmode s).

Definition set_wmode (s : srv) (x : option (bool * bool)) : srv :=
  mkSrv (script s) (mute s) (caps s) (caps_tls s) (hs s) (sopen s) (silent s) (sauth s) (sdata s) (shs s) (stls s) (slog s) (queue s) (refuse s) x.

Definition pop_decision (s : srv) : decision * srv :=
  match script s with
  | [] => (DOk, s)
  | d :: t => (d, set_script s t)
  end.

Definition ok_class (c : N) : bool := (200 <=? c) && (c <? 400).

Definition default_code (v : verb) : N :=
  match v with
  | VGreeting => 220 | VEhlo => 250 | VHelo => 250 | VStartTLS => 220 | VAuth _ _ => 235
  | VMail => 250 | VRcpt => 250 | VData => 354 | VEod => 250 | VRset => 250 | VNoop => 250 | VQuit => 221
  | VResp _ => 500 | VAbort => 500
  end.

(* number of 334 prompts the reference server sends for a mechanism (smtpx.Server, case "AUTH") *)
Definition auth_steps (mech : bytes) (ir : option taint) : nat :=
  if bytes_eqb mech (bs "LOGIN") then (match ir with Some _ => 1%nat | None => 2%nat end)
  else if bytes_eqb mech (bs "PLAIN") then (match ir with Some _ => 0%nat | None => 1%nat end)
  else if bytes_eqb mech (bs "CRAM-MD5") then 1%nat
  else 0%nat.

(* put a reply on the wire unless the connection has been muted *)
Definition deliver (s : srv) (r : reply) : srv :=
  match mute s with
  | None => set_queue s (queue s ++ [r])
  | Some O => s
  | Some (S n) => set_queue (set_mute s (Some n)) (queue s ++ [r])
  end.

Definition log_pos (s : srv) (v : verb) (code : N) : srv := set_slog s ((v, stls s, code) :: slog s).

(* the effect of an accepted/answered position on the server state *)
Definition after_reply (s : srv) (v : verb) (code : N) : srv :=
  match v with
  | VQuit => if code =? 221 then set_sopen s false else s
  | VStartTLS => if code =? 220 then set_shs s true else s
  | VData => if code =? 354 then set_sdata s true else s
  | _ => s
  end.

(* answer position [v] according to decision [d] *)
Definition apply_decision (s : srv) (v : verb) (d : decision) : srv :=
  match d with
  | DDrop => set_sopen (log_pos s v 0) false
  | DStall => set_silent (log_pos s v 0) true
  | DOk =>
      let c := default_code v in
      let lines := match v with VEhlo => if stls s then caps_tls s else caps s | _ => [] end in
      after_reply (deliver (log_pos s v c) (mkReply c TxPlain lines)) v c
  | DWrite f l =>
      let c := default_code v in
      let lines := match v with VEhlo => if stls s then caps_tls s else caps s | _ => [] end in
      let s1 := after_reply (deliver (log_pos s v c) (mkReply c TxPlain lines)) v c in
      match v with VData => set_wmode s1 (Some (f, l)) | _ => s1 end
  | DReply c tx =>
      let lines := match v with
                   | VEhlo => if ok_class c && (match tx with TxPlain => true | _ => false end)
                              then (if stls s then caps_tls s else caps s) else []
                   | _ => [] end in
      after_reply (deliver (log_pos s v c) (mkReply c tx lines)) v c
  end.

(* the mechanism's next prompt: LOGIN "Username:" / "Password:", a CRAM-MD5 challenge (base64); PLAIN: empty *)
Definition prompt (mech : bytes) : reply :=
  mkReply 334 (if bytes_eqb mech (bs "PLAIN") then TxEmpty else TxB64) [].

(* one client line of an AUTH exchange (smtpx.Server.stepAuth): [k] prompts are left for mechanism [m] *)
Definition auth_line (s : srv) (k : nat) (m : bytes) (d : decision) : srv :=
  match d with
  | DOk =>
      match k with
      | S k' => deliver (set_sauth s (Some (k', m))) (prompt m)
      | O => apply_decision (set_sauth s None) (VAuth m None) DOk
      end
  | DReply c tx =>
      if c =? 334 then deliver (set_sauth s (Some (Nat.pred k, m))) (mkReply 334 tx [])
      else apply_decision (set_sauth s None) (VAuth m None) d
  | _ => apply_decision (set_sauth s None) (VAuth m None) d
  end.

(* the server receives one line *)
Definition srv_line (s : srv) (v : verb) : srv :=
  if negb (sopen s) then s
  else if silent s then s
  else if shs s then set_shs (set_sopen s false) false      (* a cleartext line where a ClientHello is expected *)
  else match sauth s with
  | Some (k, m) => let (d, s1) := pop_decision s in auth_line s1 k m d
  | None =>
      if sdata s then
        match v with
        | VEod => let (d, s1) := pop_decision (set_sdata s false) in apply_decision s1 VEod d
        | _ => s
        end
      else
        let (d, s1) := pop_decision s in
        match v with
        | VAuth m ir => auth_line s1 (auth_steps m ir) m d
        | _ => apply_decision s1 v d
        end
  end.

(* ------------------------------------------------------------------------------------------------ *)
(* the transport and the smtp.Client bookkeeping *)

Record conn := mkConn {
  opened : bool;     (* the dial function returned a connection *)
  copen  : bool;     (* not yet closed by the client *)
  ctls   : bool;     (* TLS handshake completed on it *)
  armed  : bool;     (* a deadline is set *)
  hung   : bool      (* a read blocked for ever *)
}.

Record cstate := mkCs {
  didHello  : bool;
  helloErr  : option err;
  ext       : option (list bytes);   (* None = nil map (after HELO) *)
  sc_tls    : bool;                  (* smtp.Client.tls *)
  connected : bool;                  (* smtp.Client.isConnected *)
  pipe_out  : nat;                   (* textproto.Pipeline of c.Text: ids handed out whose EndResponse has not happened *)
  endresp   : bool;                  (* Client.cmd calls EndResponse on every path after StartResponse (T1) *)
  mu_held   : bool;                  (* smtp.Client.mutex was locked and never released (a return path without Unlock) *)
  mu_ok     : bool                   (* every locking method of smtp.Client / dataCloser unlocks on every return path (T1) *)
}.

(* elapsed time in units of the configured timeout: every SetDeadline (an "arming point") grants one period; a blocking
   read that ends by the deadline spends it -- once the deadline has passed later reads fail at once and cost nothing *)
Record clock := mkClk {
  fresh : bool;      (* a deadline is set and has not expired yet *)
  arms  : nat;       (* SetDeadline calls so far *)
  spent : nat;       (* periods waited out *)
  wstuck : bool      (* a write through c.Text timed out: its bufio.Writer keeps that error, later writes fail with it at once *)
}.
Definition clk0 : clock := mkClk false O O false.

Record world := mkW { w_srv : srv; w_conn : conn; w_cs : cstate; w_trace : list event; w_clk : clock }.

Definition cs0g (er mo : bool) : cstate := mkCs false None None false false O er false mo.
Definition cs0f (er : bool) : cstate := cs0g er true.
Definition cs0 : cstate := cs0g Gen.smtp_cmd_endresponse_always Gen.smtp_mutex_released_always.
Definition conn0 : conn := mkConn false false false false false.

Definition ev (e : event) (w : world) : world := mkW (w_srv w) (w_conn w) (w_cs w) (e :: w_trace w) (w_clk w).
Definition with_srv (w : world) (s : srv) : world := mkW s (w_conn w) (w_cs w) (w_trace w) (w_clk w).
Definition with_conn (w : world) (c : conn) : world := mkW (w_srv w) c (w_cs w) (w_trace w) (w_clk w).
Definition with_cs (w : world) (c : cstate) : world := mkW (w_srv w) (w_conn w) c (w_trace w) (w_clk w).
Definition with_clk (w : world) (k : clock) : world := mkW (w_srv w) (w_conn w) (w_cs w) (w_trace w) k.

(* a wait that is ended by the deadline *)
Definition spend (w : world) : world :=
  let k := w_clk w in
  if fresh k then with_clk w (mkClk false (arms k) (S (spent k)) (wstuck k)) else w.
(* SetDeadline(now + timeout) *)
Definition grant (w : world) : world :=
  let k := w_clk w in with_clk w (mkClk true (S (arms k)) (spent k) (wstuck k)).
Definition stick (w : world) : world :=
  let k := w_clk w in with_clk w (mkClk (fresh k) (arms k) (spent k) true).

Inductive wres := WOk | WFail | WTimeout | WHang.

Inductive prim : Type -> Type :=
| PConnect (ssl bounded : bool) : prim (option err)   (* the dial function (implicit TLS: TCP + handshake); bounded: its
                                                  context carries the connTimeout deadline *)
| PConnTls : prim bool                         (* is the connection a tls.Conn? (smtp.NewClient sets c.tls by a type assertion on the connection) *)
| PCmd (expect : N) (v : verb) : prim (res reply)   (* Client.cmd: Text.Cmd (Next, write), StartResponse, ReadResponse, EndResponse *)
| PWrite (v : verb) : prim bool                (* write one line; false = the write failed *)
| PWriteContent : prim wres                    (* message.WriteTo through dataCloser.Write *)
| PRead : prim rres                            (* read one reply *)
| PHandshake : prim (option err)               (* client side of the TLS handshake after STARTTLS *)
| PArm : prim bool                             (* SetDeadline(now + timeout); false = failed (closed connection) *)
| PConnClose : prim unit                       (* Close of the transport (textproto.Conn.Close) *)
| PClientClose : prim unit                     (* smtp.Client.Close / the tail of Quit: transport closed, isConnected = false *)
| PGetCs : prim cstate
| PSetHello (e : option err) : prim unit       (* didHello = true; helloError = e *)
| PSetExt (x : option (list bytes)) : prim unit
| PSetScTls : prim unit                        (* c.tls = true *)
| PSetConnected : prim unit.                   (* isConnected = true (NewClient) *)

(* Close of the transport; a second Close of a *tls.Conn returns net.ErrClosed without reaching the underlying
   connection (crypto/tls keeps its own closed flag) *)
Definition do_close (w : world) : world :=
  let c := w_conn w in
  if ctls c && negb (copen c) then w
  else ev EClose (with_conn w (mkConn (opened c) false (ctls c) (armed c) (hung c))).

(* textproto.parseCodeLine: the expected code is a prefix class (1 digit, 2 digits) or exact; 0 = anything *)
Definition match_code (expect code : N) : bool :=
  if expect =? 0 then true
  else if expect <? 10 then code / 100 =? expect
  else if expect <? 100 then code / 10 =? expect
  else code =? expect.

Definition classify (expect : N) (r : rres) : res reply :=
  match r with
  | RReply rp =>
      if (r_code rp <? 100) || (999 <? r_code rp) then Err EProto
      else if match_code expect (r_code rp) then Ok rp else Err (ECode (r_code rp))
  | REof => Err EEof
  | RTimeout => Err ETimeout
  | RClosed => Err EClosed
  | RHang => Err EHang
  end.

(* a write to a peer that has stopped reading: blocks until the write deadline, or fails *)
Definition blocked_write (fail : bool) (w : world) : wres * world :=
  let c := w_conn w in
  if fail then (WFail, w)
  else if wstuck (w_clk w) then (WTimeout, w)
  else if armed c then (WTimeout, stick (spend w))
  else (WHang, with_conn w (mkConn (opened c) (copen c) (ctls c) false true)).

Definition do_write (v : verb) (w : world) : wres * world :=
  if negb (copen (w_conn w)) then (WFail, w)
  else if negb (sopen (w_srv w)) then (WFail, w)
  else match wmode (w_srv w) with
  | Some (f, _) => blocked_write f w
  | None => (WOk, with_srv (ev (ECmd v (negb (ctls (w_conn w)))) w) (srv_line (w_srv w) v))
  end.

(* message.WriteTo(writer) through dataCloser.Write: everything but what stays in the bufio buffer until the final flush *)
Definition do_write_content (w : world) : wres * world :=
  if negb (copen (w_conn w)) then (WFail, w)
  else if negb (sopen (w_srv w)) then (WFail, w)
  else match wmode (w_srv w) with
  | Some (f, false) => blocked_write f w
  | _ => (WOk, w)
  end.

Definition set_mu (w : world) (b : bool) : world :=
  let k := w_cs w in
  with_cs w (mkCs (didHello k) (helloErr k) (ext k) (sc_tls k) (connected k) (pipe_out k) (endresp k) b (mu_ok k)).

(* a method of smtp.Client that takes c.mutex while it is held for ever *)
Definition mutex_hang (w : world) : world :=
  let c := w_conn w in with_conn w (mkConn (opened c) (copen c) (ctls c) (armed c) true).

Definition do_read (w : world) : rres * world :=
  let c := w_conn w in
  let s := w_srv w in
  if negb (copen c) then (RClosed, w)
  else match queue s with
  | r :: q => (RReply r, ev (ERead (armed c) (ctls c) KData) (with_srv w (set_queue s q)))
  | [] =>
      if negb (sopen s) then (REof, ev (ERead (armed c) (ctls c) KEof) w)
      else if armed c then (RTimeout, spend (ev (ERead true (ctls c) KTimeout) w))
      else (RHang, ev (ERead false (ctls c) KHang) (with_conn w (mkConn (opened c) (copen c) (ctls c) false true)))
  end.

Definition set_pipe (w : world) (n : nat) : world :=
  let k := w_cs w in with_cs w (mkCs (didHello k) (helloErr k) (ext k) (sc_tls k) (connected k) n (endresp k) (mu_held k) (mu_ok k)).

Definition is_reply (r : rres) : bool := match r with RReply _ => true | _ => false end.

Definition run_prim {B : Type} (p : prim B) (w : world) : B * world :=
  match p in prim B return B * world with
  | PConnect ssl bounded =>
      let c := w_conn w in
      let s := w_srv w in
      if opened c then (Some EClosed, w)      (* a program opens at most one connection *)
      else match refuse s with
      | S n => (Some EDial, with_srv w (set_refuse s n))      (* the dial function fails: no connection *)
      | O =>
      if ssl then
        match hs s with
        | HsOk =>
            let s1 := set_stls s true in
            let (d, s2) := pop_decision s1 in
            (None, with_srv (with_conn w (mkConn true true true (armed c) (hung c))) (apply_decision s2 VGreeting d))
        | HsFail => (Some ETls, with_srv w (set_sopen s false))
        | HsStall =>
            if bounded then (Some ETimeout, with_srv w (set_sopen s false))
            else (Some EHang, with_conn w (mkConn (opened c) (copen c) (ctls c) (armed c) true))   (* nothing bounds the handshake *)
        end
      else
        let (d, s1) := pop_decision s in
        (None, with_srv (with_conn w (mkConn true true false (armed c) (hung c))) (apply_decision s1 VGreeting d))
      end
  | PConnTls => (ctls (w_conn w), w)
  | PCmd expect v =>
      (* Text.Cmd takes the next pipeline id and writes; a failed write returns before StartResponse: that id's
         response is never ended.  StartResponse(id) waits -- without any deadline -- until every earlier id's
         EndResponse has happened.  EndResponse follows the read on every path iff [endresp] (otherwise not when the
         read failed). *)
      if mu_held (w_cs w) then (Err EHang, mutex_hang w) else
      let (wr, w1) := do_write v w in
      match wr with
      | WFail => (Err EWrite, set_pipe w1 (S (pipe_out (w_cs w1))))
      | WTimeout => (Err ETimeout, set_pipe w1 (S (pipe_out (w_cs w1))))
      | WHang => (Err EHang, w1)
      | WOk =>
      match pipe_out (w_cs w1) with
      | S _ =>
          let c := w_conn w1 in
          (Err EHang, with_conn w1 (mkConn (opened c) (copen c) (ctls c) (armed c) true))
      | O =>
          let (r, w2) := do_read w1 in
          (classify expect r, if endresp (w_cs w2) || is_reply r then w2 else set_pipe w2 1%nat)
      end
      end
  | PWrite v => let (wr, w1) := do_write v w in ((match wr with WOk => true | _ => false end), w1)
  | PWriteContent =>
      (* a failed dataCloser.Write: the mutex it took stays locked unless every return path unlocks it *)
      let (wr, w1) := do_write_content w in
      (wr, match wr with WOk => w1 | _ => if mu_ok (w_cs w1) then w1 else set_mu w1 true end)
  | PRead => do_read w
  | PHandshake =>
      let c := w_conn w in
      let s := w_srv w in
      if negb (copen c) then (Some EClosed, w)
      else if negb (sopen s) then (Some EEof, w)
      else if silent s || negb (shs s) then
        (* nobody answers the ClientHello *)
        if armed c then (Some ETimeout, spend (ev (EHs true) w))
        else (Some EHang, ev (EHs false) (with_conn w (mkConn (opened c) (copen c) (ctls c) false true)))
      else match hs s, mute s with
      | HsOk, None =>
          (None, ev (EHs (armed c)) (with_srv (with_conn w (mkConn (opened c) (copen c) true (armed c) (hung c)))
                                               (set_stls (set_shs s false) true)))
      | HsFail, None => (Some ETls, ev (EHs (armed c)) (with_srv w (set_sopen (set_shs s false) false)))
      | _, _ =>
          let w1 := with_srv w (set_silent (set_shs s false) true) in
          if armed c then (Some ETimeout, spend (ev (EHs true) w1))
          else (Some EHang, ev (EHs false) (with_conn w1 (mkConn (opened c) (copen c) (ctls c) false true)))
      end
  | PArm =>
      let c := w_conn w in
      if mu_held (w_cs w) then (false, mutex_hang w) else
      if copen c then (true, grant (ev EArm (with_conn w (mkConn (opened c) (copen c) (ctls c) true (hung c)))))
      else (false, w)
  | PConnClose => (tt, do_close w)
  | PClientClose =>
      if mu_held (w_cs w) then (tt, mutex_hang w) else
      let w1 := do_close w in
      let k := w_cs w1 in
      (tt, with_cs w1 (mkCs (didHello k) (helloErr k) (ext k) (sc_tls k) false (pipe_out k) (endresp k) (mu_held k) (mu_ok k)))
  | PGetCs => (w_cs w, w)
  | PSetHello e => let k := w_cs w in (tt, with_cs w (mkCs true e (ext k) (sc_tls k) (connected k) (pipe_out k) (endresp k) (mu_held k) (mu_ok k)))
  | PSetExt x => let k := w_cs w in (tt, with_cs w (mkCs (didHello k) (helloErr k) x (sc_tls k) (connected k) (pipe_out k) (endresp k) (mu_held k) (mu_ok k)))
  | PSetScTls =>   (* StartTLS: c.Text = textproto.NewConn(tls conn): a fresh pipeline *)
      let k := w_cs w in (tt, with_cs w (mkCs (didHello k) (helloErr k) (ext k) true (connected k) O (endresp k) (mu_held k) (mu_ok k)))
  | PSetConnected => let k := w_cs w in (tt, with_cs w (mkCs (didHello k) (helloErr k) (ext k) (sc_tls k) true (pipe_out k) (endresp k) (mu_held k) (mu_ok k)))
  end.

(* programs *)
Inductive prog (A : Type) : Type :=
| Ret (a : A)
| Do {B : Type} (p : prim B) (k : B -> prog A).
Arguments Ret {A} _.
Arguments Do {A B} _ _.

Fixpoint bind {A C : Type} (m : prog A) (f : A -> prog C) : prog C :=
  match m with
  | Ret a => f a
  | Do p k => Do p (fun b => bind (k b) f)
  end.

Fixpoint run {A : Type} (m : prog A) (w : world) : A * world :=
  match m with
  | Ret a => (a, w)
  | Do p k => let (b, w1) := run_prim p w in run (k b) w1
  end.

Definition prim1 {B : Type} (p : prim B) : prog B := Do p (fun b => Ret b).

Notation "x <- m ;; k" := (bind m (fun x => k)) (at level 61, m at next level, right associativity).
Notation "m ;;; k" := (bind m (fun _ => k)) (at level 61, right associativity).

(* ------------------------------------------------------------------------------------------------ *)
(* smtp.Client *)

(* Client.cmd *)
Definition cmd (expect : N) (v : verb) : prog (res reply) := prim1 (PCmd expect v).

Definition ehlo : prog (res unit) :=
  r <- cmd 250 VEhlo ;;
  match r with
  | Err e => Ret (Err e)
  | Ok rp => prim1 (PSetExt (Some (r_lines rp))) ;;; Ret (Ok tt)
  end.

Definition helo : prog (res unit) :=
  prim1 (PSetExt None) ;;;
  r <- cmd 250 VHelo ;;
  Ret (match r with Err e => Err e | Ok _ => Ok tt end).

(* hello(): EHLO, on failure HELO; remembers the outcome *)
Definition hello : prog (option err) :=
  s <- prim1 PGetCs ;;
  if didHello s then Ret (helloErr s)
  else
    prim1 (PSetHello None) ;;;
    r <- ehlo ;;
    match r with
    | Ok _ => Ret None
    | Err _ =>
        r2 <- helo ;;
        let e := match r2 with Ok _ => None | Err e2 => Some e2 end in
        prim1 (PSetHello e) ;;; Ret e
    end.

(* Hello(localName) — the name is valid (WithHELO refuses CR/LF-free emptiness elsewhere) *)
Definition hello_named : prog (res unit) :=
  s <- prim1 PGetCs ;;
  if didHello s then Ret (Err EHelloAfter)
  else e <- hello ;; Ret (match e with None => Ok tt | Some x => Err x end).

(* Quit: the transport is closed only after a 221 *)
Definition quit : prog (res unit) :=
  hello ;;;
  r <- cmd 221 VQuit ;;
  match r with
  | Err e => Ret (Err e)
  | Ok _ => prim1 PClientClose ;;; Ret (Ok tt)
  end.

Definition start_tls : prog (res unit) :=
  he <- hello ;;
  match he with
  | Some e => Ret (Err e)
  | None =>
      r <- cmd 220 VStartTLS ;;
      match r with
      | Err e => Ret (Err e)
      | Ok _ =>
          prim1 PSetScTls ;;;
          h <- prim1 PHandshake ;;     (* forced by the first write of the EHLO that follows *)
          match h with
          | Some e => Ret (Err e)
          | None => ehlo
          end
      end
  end.

(* ext map: "k v" lines, a later line overrides an earlier one with the same key *)
Fixpoint cut_space (l : bytes) : bytes * bytes :=
  match l with
  | [] => ([], [])
  | b :: t => if b =? 32 then ([], t) else let (a, r) := cut_space t in (b :: a, r)
  end.

Definition ext_lookup (k : bytes) (lines : list bytes) : option bytes :=
  fold_left (fun acc ln => let (a, b) := cut_space ln in if bytes_eqb a k then Some b else acc) lines None.

(* Extension(name): (supported?, parameters) *)
Definition extension (k : bytes) : prog (bool * bytes) :=
  he <- hello ;;
  match he with
  | Some _ => Ret (false, [])
  | None =>
      s <- prim1 PGetCs ;;
      Ret (match ext s with
           | None => (false, [])
           | Some lines => match ext_lookup k lines with Some p => (true, p) | None => (false, []) end
           end)
  end.

(* SASL mechanisms as seen by the Auth loop *)
Inductive sres := SErr (e : err) | SOk (mech : bytes) (ir : option taint).
Inductive nres := NErr | NDone | NResp (t : taint).

Record auth_impl := mkAuth {
  a_start : bool -> bool -> sres;     (* ServerInfo.TLS, isLocalhost(ServerInfo.Name); Name = host always holds *)
  a_next  : nat -> bool -> bool -> nres   (* number of earlier Next calls, more, the challenge is empty *)
}.

Definition plain_impl (allow_unenc : bool) : auth_impl :=
  mkAuth (fun tls lh => if negb allow_unenc && negb tls && negb lh then SErr EUnenc else SOk (bs "PLAIN") (Some TPass))
         (fun _ more _ => if more then NErr else NDone).

Definition login_impl (allow_unenc : bool) : auth_impl :=
  mkAuth (fun tls lh => if negb allow_unenc && negb tls && negb lh then SErr EUnenc else SOk (bs "LOGIN") None)
         (fun k more _ => if more then match k with O => NResp TUser | S O => NResp TPass | _ => NErr end else NDone).

Definition cram_impl : auth_impl :=
  mkAuth (fun _ _ => SOk (bs "CRAM-MD5") None) (fun _ more _ => if more then NResp TDerived else NDone).

Definition xoauth2_impl : auth_impl :=
  mkAuth (fun _ _ => SOk (bs "XOAUTH2") (Some TToken)) (fun _ more _ => if more then NResp TNone else NDone).

(* SCRAM: an empty challenge makes the client (re)send its first message (n=user,r=nonce); none of the harness
   servers speaks SCRAM, every non-empty challenge they send ("verif") is neither r=... nor v=... and is rejected
   (the message handling proper is C14/C15's model).  A success reply is refused once the exchange is running (the
   client-first-message was sent, i.e. an earlier Next call happened) because no server signature was verified;
   a bare 235 to the AUTH command is accepted (C15's known finding). *)
Definition scram_impl (name : bytes) : auth_impl :=
  mkAuth (fun _ _ => SOk name None)
         (fun k more empty => if more then (if empty then NResp TUser else NErr)
                              else match k with O => NDone | S _ => NErr end).

Definition is_xoauth2 (mech : bytes) : bool := bytes_eqb mech (bs "XOAUTH2").

(* the for-loop of Client.Auth *)
Fixpoint auth_loop (fuel : nat) (a : auth_impl) (mech : bytes) (k : nat) (rp : reply) : prog (res unit) :=
  match fuel with
  | O => Ret (Err EFuel)
  | S f =>
      let step : nres + err :=
        if r_code rp =? Gen.smtp_auth_code_more then
          match r_tx rp with
          | TxPlain => inr EMech                       (* base64 decoding of the challenge fails *)
          | TxB64 => inl (a_next a k true false)
          | TxEmpty => inl (a_next a k true true)
          end
        else if r_code rp =? Gen.smtp_auth_code_success then inl (a_next a k false false)
        else inr (ECode (r_code rp)) in
      let fail (e : err) : prog (res unit) :=
        (if is_xoauth2 mech then Ret tt else (cmd 501 VAbort ;;; Ret tt)) ;;;
        quit ;;;
        Ret (Err e) in
      match step with
      | inr e => fail e
      | inl NErr => fail EMech
      | inl NDone => Ret (Ok tt)
      | inl (NResp t) =>
          r <- cmd 0 (VResp t) ;;
          match r with
          | Err e => Ret (Err e)
          | Ok rp' => auth_loop f a mech (S k) rp'
          end
      end
  end.

(* Client.Auth *)
Definition auth (fuel : nat) (lh : bool) (a : auth_impl) : prog (res unit) :=
  he <- hello ;;
  match he with
  | Some e => Ret (Err e)
  | None =>
      s <- prim1 PGetCs ;;
      match a_start a (sc_tls s) lh with
      | SErr e => quit ;;; Ret (Err e)
      | SOk mech ir =>
          r <- cmd 0 (VAuth mech ir) ;;
          match r with
          | Err e => Ret (Err e)
          | Ok rp => auth_loop fuel a mech 0 rp
          end
      end
  end.

(* NewClient: read the greeting; on failure close the transport *)
Definition new_client (ssl : bool) : prog (res unit) :=
  r <- prim1 PRead ;;
  match classify 220 r with
  | Err e => prim1 PConnClose ;;; Ret (Err e)
  | Ok _ => (if ssl then prim1 PSetScTls else Ret tt) ;;; prim1 PSetConnected ;;; Ret (Ok tt)
  end.

(* ------------------------------------------------------------------------------------------------ *)
(* mail.Client *)

Inductive policy := Mandatory | Opportunistic | NoTLS.

Record config := mkCfg {
  c_policy   : policy;
  c_ssl      : bool;              (* WithSSL with the stock tls.Dialer (no custom dial function) *)
  c_auth     : bytes;             (* SMTPAuthType (a string) *)
  c_custom   : option auth_impl;  (* WithSMTPAuthCustom *)
  c_host     : bytes;
  c_nonoop   : bool;
  fx_close   : bool;              (* dial closes the client on every error return *)
  fx_quit    : bool;              (* CloseWithSMTPClient closes when QUIT fails *)
  fx_arm     : bool;              (* deadline set after the dial / before NOOP / before QUIT *)
  fx_send    : bool;              (* sendSingleMsg: RSET after a rejected DATA; close when such a RSET fails *)
  c_fallback : bool               (* a fallback port is configured (WithTLSPortPolicy(TLSOpportunistic), WithSSLPort(true)) *)
}.

(* smtp.isLocalhost, translated from the AST of smtp/auth.go (T1): the host string itself is what is tested *)
Definition is_localhost (h : bytes) : bool := Gen.is_localhost h.

(* GetTLSConnectionState *)
Definition tls_state : prog (res bool) :=
  s <- prim1 PGetCs ;;
  Ret (if negb (connected s) then Err ENoConn else if negb (sc_tls s) then Err ENonTLS else Ok true).

(* Client.tls: returns isEncrypted *)
Definition tls_step (cfg : config) : prog (res bool) :=
  if c_ssl cfg then Ret (Ok true)
  else match c_policy cfg with
  | NoTLS => Ret (Ok false)
  | pol =>
      x <- extension (bs "STARTTLS") ;;
      let has := fst x in
      if (match pol with Mandatory => negb has | _ => false end) then Ret (Err ENoStartTLS)
      else
        r <- (if (match pol with Mandatory => true | _ => has end) then start_tls else Ret (Ok tt)) ;;
        match r with
        | Err e => Ret (Err e)
        | Ok _ =>
            t <- tls_state ;;
            Ret (match t with
                 | Err ENonTLS => Ok false
                 | Err e => Err e
                 | Ok b => Ok b
                 end)
        end
  end.

(* authTypeAutoDiscover *)
Definition auto_discover (supported : bytes) (is_enc : bool) : option bytes :=
  match supported with
  | [] => None
  | _ =>
      let prefer := if is_enc then Gen.auth_prefer_encrypted else Gen.auth_prefer_unencrypted in
      let mechs := split_on 32 supported in
      find (fun item => existsb (bytes_eqb item) mechs) prefer
  end.

(* the switch of Client.auth: the mechanism object for an auth type, or the reason why there is none *)
Definition pick_mech (t param : bytes) : prog (res auth_impl) :=
  let need (name : bytes) (k : prog (res auth_impl)) : prog (res auth_impl) :=
    if occurs name param then k else Ret (Err ENoMech) in
  if bytes_eqb t Gen.smtp_auth_plain then need Gen.smtp_auth_plain (Ret (Ok (plain_impl false)))
  else if bytes_eqb t Gen.smtp_auth_plain_noenc then need Gen.smtp_auth_plain (Ret (Ok (plain_impl true)))
  else if bytes_eqb t Gen.smtp_auth_login then need Gen.smtp_auth_login (Ret (Ok (login_impl false)))
  else if bytes_eqb t Gen.smtp_auth_login_noenc then need Gen.smtp_auth_login (Ret (Ok (login_impl true)))
  else if bytes_eqb t Gen.smtp_auth_cram_md5 then need Gen.smtp_auth_cram_md5 (Ret (Ok cram_impl))
  else if bytes_eqb t Gen.smtp_auth_xoauth2 then need Gen.smtp_auth_xoauth2 (Ret (Ok xoauth2_impl))
  else if bytes_eqb t Gen.smtp_auth_scram_sha1 then need Gen.smtp_auth_scram_sha1 (Ret (Ok (scram_impl Gen.smtp_auth_scram_sha1)))
  else if bytes_eqb t Gen.smtp_auth_scram_sha256 then need Gen.smtp_auth_scram_sha256 (Ret (Ok (scram_impl Gen.smtp_auth_scram_sha256)))
  else if bytes_eqb t Gen.smtp_auth_scram_sha1_plus then
    need Gen.smtp_auth_scram_sha1_plus
      (ts <- tls_state ;; Ret (match ts with Err e => Err e | Ok _ => Ok (scram_impl Gen.smtp_auth_scram_sha1_plus) end))
  else if bytes_eqb t Gen.smtp_auth_scram_sha256_plus then
    need Gen.smtp_auth_scram_sha256_plus
      (ts <- tls_state ;; Ret (match ts with Err e => Err e | Ok _ => Ok (scram_impl Gen.smtp_auth_scram_sha256_plus) end))
  else Ret (Err EBadType).

(* Client.auth *)
Definition auth_step (fuel : nat) (cfg : config) (is_enc : bool) : prog (res unit) :=
  let lh := is_localhost (c_host cfg) in
  let custom := if bytes_eqb (c_auth cfg) Gen.smtp_auth_custom then c_custom cfg else None in
  match c_custom cfg with
  | Some _ =>
      (* c.smtpAuth != nil: no detection; used only when the type is CUSTOM *)
      match custom with
      | Some a => r <- auth fuel lh a ;; Ret r
      | None => Ret (Ok tt)
      end
  | None =>
      if bytes_eqb (c_auth cfg) Gen.smtp_auth_noauth then Ret (Ok tt)
      else
        x <- extension (bs "AUTH") ;;
        if negb (fst x) then Ret (Err ENoAuth)
        else
          let param := snd x in
          let chosen : res bytes :=
            if bytes_eqb (c_auth cfg) Gen.smtp_auth_autodiscover
            then match auto_discover param is_enc with Some t => Ok t | None => Err ENoDiscover end
            else Ok (c_auth cfg) in
          match chosen with
          | Err e => Ret (Err e)
          | Ok t =>
              m <- pick_mech t param ;;
              match m with
              | Err e => Ret (Err e)
              | Ok a => auth fuel lh a
              end
          end
  end.

(* closeFailedDial (repair of C19) *)
Definition close_failed (cfg : config) : prog unit :=
  if fx_close cfg then
    (s <- prim1 PGetCs ;; if connected s then prim1 PClientClose else Ret tt)
  else Ret tt.

(* DialToSMTPClientWithContext *)
(* the dial function under the deadline context; when it fails and a fallback port is set it is called once more *)
(* T1: the fallback dial is the primary dial up to network / address: same dial function (the tls.Dialer for implicit
   TLS), same deadline context *)
Definition fb_same_callee : bool := Gen.fallback_dial_same_callee.
Definition fb_same_ctx : bool := Gen.fallback_dial_same_ctx.

Definition connect (cfg : config) : prog (option err) :=
  c <- prim1 (PConnect (c_ssl cfg) true) ;;
  match c with
  | Some e => if c_fallback cfg then prim1 (PConnect (c_ssl cfg && fb_same_callee) fb_same_ctx) else Ret (Some e)
  | None => Ret None
  end.

Definition dial (fuel : nat) (cfg : config) : prog (res unit) :=
  c <- connect cfg ;;
  match c with
  | Some e => Ret (Err e)
  | None =>
      (if fx_arm cfg then (prim1 PArm ;;; Ret tt) else Ret tt) ;;;
      t <- prim1 PConnTls ;;
      n <- new_client t ;;
      match n with
      | Err e => Ret (Err e)
      | Ok _ =>
          h <- hello_named ;;
          match h with
          | Err e => close_failed cfg ;;; Ret (Err e)
          | Ok _ =>
              t <- tls_step cfg ;;
              match t with
              | Err e => close_failed cfg ;;; Ret (Err e)
              | Ok is_enc =>
                  a <- auth_step fuel cfg is_enc ;;
                  match a with
                  | Err e => close_failed cfg ;;; Ret (Err e)
                  | Ok _ => Ret (Ok tt)
                  end
              end
          end
      end
  end.

Definition update_deadline : prog bool := prim1 PArm.

Definition noop : prog (res unit) :=
  he <- hello ;;
  match he with
  | Some e => Ret (Err e)
  | None => r <- cmd 250 VNoop ;; Ret (match r with Err e => Err e | Ok _ => Ok tt end)
  end.

Definition reset : prog (res unit) :=
  he <- hello ;;
  match he with
  | Some e => Ret (Err e)
  | None => r <- cmd 250 VRset ;; Ret (match r with Err e => Err e | Ok _ => Ok tt end)
  end.

(* checkConn *)
Definition check_conn (cfg : config) : prog (res unit) :=
  s <- prim1 PGetCs ;;
  if negb (connected s) then Ret (Err ENotConnected)
  else if fx_arm cfg then
    ok <- update_deadline ;;
    if negb ok then Ret (Err ESend)
    else if c_nonoop cfg then Ret (Ok tt)
    else r <- noop ;; Ret (match r with Err _ => Err ENotConnected | Ok _ => Ok tt end)
  else
    r <- (if c_nonoop cfg then Ret (Ok tt) else noop) ;;
    match r with
    | Err _ => Ret (Err ENotConnected)
    | Ok _ => ok <- update_deadline ;; Ret (if ok then Ok tt else Err ESend)
    end.

(* ResetWithSMTPClient *)
Definition reset_client (cfg : config) : prog (res unit) :=
  c <- check_conn cfg ;;
  match c with
  | Err e => Ret (Err e)
  | Ok _ => reset
  end.

Fixpoint rcpts (n : nat) (bad : bool) : prog bool :=
  match n with
  | O => Ret bad
  | S m => r <- cmd 25 VRcpt ;; rcpts m (match r with Err _ => true | Ok _ => bad end)
  end.

(* NOT what the source does (documentation for C17_time_budget): the deadline renewed before every RCPT *)
Fixpoint rcpts_rearming (n : nat) (bad : bool) : prog bool :=
  match n with
  | O => Ret bad
  | S m => prim1 PArm ;;; r <- cmd 25 VRcpt ;; rcpts_rearming m (match r with Err _ => true | Ok _ => bad end)
  end.

(* a failed RSET after a failed MAIL / RCPT / DATA: the connection is not reused (client.Close()) *)
Definition abort_if_failed (cfg : config) (r : res unit) : prog unit :=
  match r with
  | Err _ => if fx_send cfg then prim1 PClientClose else Ret tt
  | Ok _ => Ret tt
  end.

(* sendSingleMsg for a message with [n] recipients whose rendering succeeds *)
Definition send_single (cfg : config) (n : nat) : prog (res unit) :=
  m <- cmd 250 VMail ;;
  match m with
  | Err e => r <- reset ;; abort_if_failed cfg r ;;; Ret (Err ESend)
  | Ok _ =>
      bad <- rcpts n false ;;
      if bad then r <- reset ;; abort_if_failed cfg r ;;; Ret (Err ESend)
      else
        d <- cmd 354 VData ;;
        match d with
        | Err _ =>
            if fx_send cfg then r <- reset ;; abort_if_failed cfg r ;;; Ret (Err ESend)
            else Ret (Err ESend)
        | Ok _ =>
            (* WriteTo + dataCloser.Close: one flush of content and dot (its failure is ignored), then the reply is read *)
            wc <- prim1 PWriteContent ;;
            match wc with
            | WOk =>
            prim1 (PWrite VEod) ;;;
            r <- prim1 PRead ;;
            match classify 250 r with
            | Err _ => Ret (Err ESend)
            | Ok _ =>
                x <- reset_client cfg ;;
                Ret (match x with Err _ => Err ESend | Ok _ => Ok tt end)
            end
            | _ =>
                (* the content could not be written: the only way out of DATA mode is to drop the connection *)
                (if fx_send cfg then prim1 PClientClose else Ret tt) ;;; Ret (Err ESend)
            end
        end
  end.

Fixpoint send_msgs (cfg : config) (msgs : list nat) (bad : bool) : prog bool :=
  match msgs with
  | [] => Ret bad
  | n :: t => r <- send_single cfg n ;; send_msgs cfg t (match r with Err _ => true | Ok _ => bad end)
  end.

(* SendWithSMTPClient *)
Definition send_batch (cfg : config) (msgs : list nat) : prog (res unit) :=
  c <- check_conn cfg ;;
  match c with
  | Err _ => Ret (Err ESend)
  | Ok _ => bad <- send_msgs cfg msgs false ;; Ret (if bad then Err ESend else Ok tt)
  end.

(* CloseWithSMTPClient *)
Definition close_client (cfg : config) : prog (res unit) :=
  s <- prim1 PGetCs ;;
  if negb (connected s) then Ret (Ok tt)
  else
    (if fx_arm cfg then (update_deadline ;;; Ret tt) else Ret tt) ;;;
    q <- quit ;;
    match q with
    | Ok _ => Ret (Ok tt)
    | Err e =>
        (if fx_quit cfg then (s2 <- prim1 PGetCs ;; if connected s2 then prim1 PClientClose else Ret tt) else Ret tt) ;;;
        Ret (Err e)
    end.

(* which phase of DialAndSend failed *)
Inductive phase := PhDial | PhSend | PhClose.

(* DialAndSendWithContext (the deferred CloseWithSMTPClient runs on every path after a successful dial) *)
Definition dial_and_send (fuel : nat) (cfg : config) (msgs : list nat) : prog (res unit * option phase) :=
  d <- dial fuel cfg ;;
  match d with
  | Err e => Ret (Err e, Some PhDial)
  | Ok _ =>
      s <- send_batch cfg msgs ;;
      match s with
      | Err e => close_client cfg ;;; Ret (Err e, Some PhSend)
      | Ok _ =>
          c <- close_client cfg ;;
          close_client cfg ;;;
          Ret (match c with Err e => (Err e, Some PhClose) | Ok _ => (Ok tt, None) end)
      end
  end.

(* a session through the separate public calls: DialWithContext, Send, Reset, Close *)
Definition session (fuel : nat) (cfg : config) (msgs : list nat) : prog (list (res unit)) :=
  d <- dial fuel cfg ;;
  match d with
  | Err e => Ret [Err e]
  | Ok _ =>
      s <- send_batch cfg msgs ;;
      r <- reset_client cfg ;;
      c <- close_client cfg ;;
      Ret [Ok tt; s; r; c]
  end.

(* QuickSend (quicksend.go): NewClient(host, WithPort, WithTLSPolicy(TLSOpportunistic)), auto-discovered
   authentication if credentials are given, one message, DialAndSend *)
Definition quick_send (fuel : nat) (with_auth : bool) (host : bytes) (fxc fxq fxa fxs : bool) (nrcpt : nat)
  : prog (res unit * option phase) :=
  dial_and_send fuel
    (mkCfg Opportunistic false (if with_auth then Gen.smtp_auth_autodiscover else Gen.smtp_auth_noauth) None host false
           fxc fxq fxa fxs false)
    [nrcpt].

(* the same with a second Send on the persistent connection before Reset *)
Definition session2 (fuel : nat) (cfg : config) (msgs : list nat) : prog (list (res unit)) :=
  d <- dial fuel cfg ;;
  match d with
  | Err e => Ret [Err e]
  | Ok _ =>
      s1 <- send_batch cfg msgs ;;
      s2 <- send_batch cfg msgs ;;
      r <- reset_client cfg ;;
      c <- close_client cfg ;;
      Ret [Ok tt; s1; s2; r; c]
  end.

(* a sequence of dials of one mail.Client (re-dial after Close, DialAndSend twice, a setter in between): the k-th dial
   runs with the k-th configuration against the k-th server; nothing of an earlier dial is remembered -- the dial path
   (DialToSMTPClientWithContext, tls, auth, authTypeAutoDiscover) assigns no field of the Client (T1) *)
Definition dial_sequence (fuel : nat) (l : list (config * srv)) : list (res unit * world) :=
  map (fun cs => run (dial fuel (fst cs)) (mkW (snd cs) conn0 cs0 [] clk0)) l.

(* ------------------------------------------------------------------------------------------------ *)
(* running against a fresh world *)

Definition srv0 (sc : list decision) (mu : option nat) (cp cpt : list bytes) (h : hs_oracle) : srv :=
  mkSrv sc mu cp cpt h true false None false false false [] [] O None.

Definition world0 (s : srv) : world := mkW s conn0 cs0 [] clk0.

(* a bound on the number of AUTH round trips: every trip consumes a decision or a pending prompt, and the
   reply to a continuation line after the script is exhausted is 500 *)
Definition fuel_for (s : srv) : nat := S (S (S (S (S (S (length (script s))))))).

(* the values of the repairs on the working tree (T1) *)
Definition src_fx_close : bool := Gen.dial_error_returns_close.
Definition src_fx_quit : bool := Gen.close_on_quit_failure.
Definition src_fx_arm : bool :=
  Gen.dial_arms_before_greeting && Gen.checkconn_deadline_before_noop && Gen.close_updates_deadline.
Definition src_fx_send : bool := Gen.send_aborts_on_failed_rset.
Definition src_cmd_endresp : bool := Gen.smtp_cmd_endresponse_always.
Definition src_fallback_same : bool := Gen.fallback_dial_same_as_primary.
Definition src_mutex_released : bool := Gen.smtp_mutex_released_always.
(* no other deadline call exists (nothing clears or shortens the deadline) and each one is now + the timeout *)
Definition src_deadline_sites_ok : bool := (Gen.deadline_call_sites =? 2) && Gen.deadline_args_are_timeout.

(* outcome of a call in the sense of DESIGN 1.1: Hang when a read blocked for ever *)
Inductive outcome (A : Type) := Returned (a : A) | Hang.
Arguments Returned {A} _.
Arguments Hang {A}.

Definition outcome_of {A : Type} (x : A * world) : outcome A :=
  if hung (w_conn (snd x)) then Hang else Returned (fst x).

(* projections used by the theorems and the correspondence *)
Definition is_close (e : event) : bool := match e with EClose => true | _ => false end.
Definition closes (w : world) : nat := length (filter is_close (w_trace w)).

Fixpoint last_cmd (t : list event) : option verb :=
  match t with
  | [] => None
  | ECmd v _ :: _ => Some v
  | _ :: r => last_cmd r
  end.

Definition clear_cmds (t : list event) : list verb :=
  flat_map (fun e => match e with ECmd v true => [v] | _ => [] end) t.

Definition reveals_password (v : verb) : bool :=
  match v with
  | VAuth _ (Some TPass) => true
  | VResp TPass => true
  | _ => false
  end.

Definition handshake_free_verb (v : verb) : bool :=
  match v with VEhlo | VHelo | VStartTLS | VQuit => true | _ => false end.

Definition unarmed_read (e : event) : bool :=
  match e with ERead false _ _ => true | EHs false => true | _ => false end.

(* ------------------------------------------------------------------------------------------------ *)
(* entry points and projections for the correspondence check (extracted) *)

Inductive kind := KDial | KDas | KSess | KSess2.

Definition run_case (k : kind) (cfg : config) (s : srv) (msgs : list nat) : list (res unit) * option phase * world :=
  let f := fuel_for s in
  match k with
  | KDial => let (r, w) := run (dial f cfg) (world0 s) in ([r], None, w)
  | KDas => let (rp, w) := run (dial_and_send f cfg msgs) (world0 s) in ([fst rp], snd rp, w)
  | KSess => let (l, w) := run (session f cfg msgs) (world0 s) in (l, None, w)
  | KSess2 => let (l, w) := run (session2 f cfg msgs) (world0 s) in (l, None, w)
  end.

(* the configuration with the repairs as they are on the working tree *)
Definition cfg_src (p : policy) (ssl : bool) (a : bytes) (custom : option auth_impl) (host : bytes) (nonoop fb : bool) : config :=
  mkCfg p ssl a custom host nonoop src_fx_close src_fx_quit src_fx_arm src_fx_send fb.

Definition blocking (k : rkind) : bool := match k with KEof => false | _ => true end.

(* per cleartext read that returned data or waited for it: was a deadline set?  (chronological) *)
Definition arm_clear (t : list event) : list bool :=
  flat_map (fun e => match e with ERead a false k => if blocking k then [a] else [] | _ => [] end) (rev t).

(* reads below TLS (handshake and records): (some armed, some unarmed) *)
Definition arm_tls (t : list event) : bool * bool :=
  fold_left (fun acc e => match e with
                          | EHs a => (fst acc || a, snd acc || negb a)
                          | ERead a true k => if blocking k then (fst acc || a, snd acc || negb a) else acc
                          | _ => acc end) t (false, false).

Definition ended (w : world) : bool := negb (copen (w_conn w)) || negb (sopen (w_srv w)).
