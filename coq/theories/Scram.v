(* Scram.v — smtp/auth_scram.go (scramAuth: Start / Next / reset / initialClientMessage /
   handleServerFirstResponse / handleServerValidationMessage / computeClientProof /
   computeServerSignature / normalizeUsername) and internal/pbkdf2.Key, transliterated.

   Outside calls are parameters of the Section:
     H, HMAC      the hash a.h() and hmac.New(a.h, key)   (theorems hold for every H, HMAC)
     hsize        a.h().Size()
     precis       precis.OpaqueString.String  (None = error, e.g. empty result, control characters)
     cfg          four source-derived facts about the code (Gen.v, T1): does Start reset the state,
                  does handleServerValidationMessage insist on a processed server-first message,
                  does Next(_, more=false) insist on a verified server signature for a running exchange
   Randomness (rand.Reader in initialClientMessage) is an explicit oracle: the list of the 24-byte
   draws still available; every client-first message consumes one (an exhausted list models a
   failing reader). *)
From Coq Require Import String ZArith.
From Verif Require Export Bytes Base64.
From VerifGen Require Import Gen.
Open Scope N_scope.

(* ---- small byte-string helpers (Go stdlib pieces on the path) ---- *)

(* encoding/base64 StdEncoding.Decode / DecodeString: '\r' and '\n' are skipped, everything else is strict *)
Definition go_b64dec (s : bytes) : option bytes := b64dec (filter no_crlf_byte s).

Definition is_digit (c : N) : bool := (48 <=? c) && (c <=? 57).

Fixpoint digits_val (acc : N) (s : bytes) : option N :=
  match s with
  | [] => Some acc
  | c :: t => if is_digit c then digits_val (acc * 10 + (c - 48)) t else None
  end.

(* strconv.Atoi on a 64-bit platform: [+-]?[0-9]+ within the int64 range *)
Definition go_atoi (s : bytes) : option Z :=
  let '(neg, ds) := match s with
                    | 43 :: t => (false, t)
                    | 45 :: t => (true, t)
                    | _ => (false, s)
                    end in
  match ds with
  | [] => None
  | _ => match digits_val 0 ds with
         | None => None
         | Some n =>
             if neg then (if n <=? 9223372036854775808 then Some (- Z.of_N n)%Z else None)
             else (if n <? 9223372036854775808 then Some (Z.of_N n) else None)
         end
  end.

Fixpoint bxor (a b : bytes) : bytes :=
  match a, b with
  | x :: a', y :: b' => N.lxor x y :: bxor a' b'
  | _, _ => []
  end.

Definition be32 (n : N) : bytes :=
  [N.land (N.shiftr n 24) 255; N.land (N.shiftr n 16) 255; N.land (N.shiftr n 8) 255; N.land n 255].

Definition is_nil (s : bytes) : bool := match s with [] => true | _ => false end.

(* strings.NewReplacer("=", "=3D", ",", "=2C").Replace: a byte-wise replacement, no rescan *)
Definition escape_name (u : bytes) : bytes :=
  flat_map (fun c => if c =? 61 then bs "=3D" else if c =? 44 then bs "=2C" else [c]) u.

(* ---- data ---- *)

(* what the code reads from *tls.ConnectionState *)
Record tls_info := { ti_unique : option bytes;      (* TLSUnique; None = nil *)
                     ti_v13 : bool;                 (* Version >= tls.VersionTLS13 *)
                     ti_exporter : option bytes }.  (* ExportKeyingMaterial("EXPORTER-Channel-Binding", {}, 32); None = error *)

Record scram_id := { sid_user : bytes; sid_pass : bytes; sid_algo : bytes;
                     sid_plus : bool; sid_tls : option tls_info }.

Record scram_state := { ss_bare : bytes; ss_nonce : bytes; ss_salted : bytes; ss_authmsg : bytes;
                        ss_iter : Z; ss_bind : bytes; ss_verified : bool }.

(* restart_resets: Next answers an EMPTY challenge by reset() followed by initialClientMessage() (true of the pinned
   tree already; read from the source because the theorems need it: a restart must forget the earlier exchange) *)
Record scram_cfg := { start_resets : bool; final_requires_first : bool; done_requires_verified : bool;
                      restart_resets : bool }.

Definition cfg_fixed : scram_cfg :=
  {| start_resets := true; final_requires_first := true; done_requires_verified := true; restart_resets := true |}.
Definition cfg_old : scram_cfg :=
  {| start_resets := false; final_requires_first := false; done_requires_verified := false; restart_resets := true |}.

Definition ss_zero : scram_state :=
  {| ss_bare := []; ss_nonce := []; ss_salted := []; ss_authmsg := []; ss_iter := 0%Z; ss_bind := []; ss_verified := false |}.

(* reset() clears everything but bindData *)
Definition ss_reset (st : scram_state) : scram_state :=
  {| ss_bare := []; ss_nonce := []; ss_salted := []; ss_authmsg := []; ss_iter := 0%Z;
     ss_bind := ss_bind st; ss_verified := false |}.

(* the well-formedness test of handleServerFirstResponse: split at ',', at least three parts with the
   prefixes r= s= i=, salt in base64, iteration count accepted by Atoi.  Result: combined nonce, salt, iterations *)
Definition sf_parse (msg : bytes) : option (bytes * bytes * Z) :=
  match split_on 44 msg with
  | p0 :: p1 :: p2 :: _ =>
      if is_prefix (bs "r=") p0 && is_prefix (bs "s=") p1 && is_prefix (bs "i=") p2 then
        match go_b64dec (skipn 2 p1), go_atoi (skipn 2 p2) with
        | Some salt, Some it => Some (skipn 2 p0, salt, it)
        | _, _ => None
        end
      else None
  | _ => None
  end.

(* the channel binding initialClientMessage selects: tls-unique unless TLSUnique is nil or the version is TLS 1.3 or
   later, then tls-exporter (None: ExportKeyingMaterial failed) *)
Definition cb_select (ti : tls_info) : option (bytes * bytes) :=
  match (match ti_unique ti with
         | Some d => if ti_v13 ti then None else Some d
         | None => None
         end) with
  | Some d => Some (bs "tls-unique", d)
  | None => match ti_exporter ti with
            | Some d => Some (bs "tls-exporter", d)
            | None => None
            end
  end.

Section Scram.
  Variable H : bytes -> bytes.
  Variable HMAC : bytes -> bytes -> bytes.      (* key, message *)
  Variable hsize : nat.
  Variable precis : bytes -> option bytes.
  Variable cfg : scram_cfg.

  (* ---- internal/pbkdf2.Key ---- *)
  (* one block: T = U_1 ^ ... ^ U_iter, U_1 = PRF(salt || be32 block), U_n = PRF(U_(n-1));
     the Go loop "for n := 2; n <= iter; n++" runs max(iter-1, 0) times *)
  Definition pb_block (pass salt : bytes) (iter : Z) (block : N) : bytes :=
    let u1 := HMAC pass (salt ++ be32 block) in
    fst (N.iter (Z.to_N (iter - 1))
                (fun tu : bytes * bytes => let u' := HMAC pass (snd tu) in (bxor (fst tu) u', u'))
                (u1, u1)).

  Definition pbkdf2_key (pass salt : bytes) (iter : Z) (keylen hashlen : nat) : bytes :=
    let nblocks := ((keylen + hashlen - 1) / hashlen)%nat in
    firstn keylen (concat (map (fun b => pb_block pass salt iter (N.of_nat b)) (seq 1 nblocks))).

  (* ---- proof and signature ---- *)
  Definition client_proof (salted authmsg : bytes) : bytes :=
    let ck := HMAC salted (bs "Client Key") in
    let sk := H ck in
    let cs := HMAC sk authmsg in
    b64enc (bxor ck cs).

  Definition server_sig (salted authmsg : bytes) : bytes :=
    b64enc (HMAC (HMAC salted (bs "Server Key")) authmsg).

  (* ---- initialClientMessage ---- *)
  Definition initial_client_message (id : scram_id) (st : scram_state) (rands : list bytes)
    : scram_state * list bytes * option bytes :=
    match precis (escape_name (sid_user id)) with
    | None => (st, rands, None)
    | Some uname =>
        match rands with
        | [] => (st, [], None)
        | r :: rands' =>
            let nonce := b64enc r in
            let bare := bs "n=" ++ uname ++ bs ",r=" ++ nonce in
            let st1 := {| ss_bare := bare; ss_nonce := nonce; ss_salted := ss_salted st; ss_authmsg := ss_authmsg st;
                          ss_iter := ss_iter st; ss_bind := ss_bind st; ss_verified := ss_verified st |} in
            if sid_plus id then
              match sid_tls id with
              | None => (st1, rands', None)
              | Some ti =>
                  match cb_select ti with
                  | None => (st1, rands', None)
                  | Some (bt, d) =>
                      let st2 := {| ss_bare := bare; ss_nonce := nonce; ss_salted := ss_salted st; ss_authmsg := ss_authmsg st;
                                    ss_iter := ss_iter st; ss_bind := b64enc (bs "p=" ++ bt ++ bs ",," ++ d);
                                    ss_verified := ss_verified st |} in
                      (st2, rands', Some (bs "p=" ++ bt ++ bs ",," ++ bare))
                  end
              end
            else (st1, rands', Some (bs "n,," ++ bare))
        end
    end.

  (* ---- handleServerFirstResponse ---- *)
  Definition msg_without_proof (id : scram_id) (st : scram_state) (combined : bytes) : bytes :=
    if sid_plus id then bs "c=" ++ ss_bind st ++ bs ",r=" ++ combined
    else bs "c=biws,r=" ++ combined.

  Definition handle_server_first (id : scram_id) (st : scram_state) (msg : bytes) : option (scram_state * bytes) :=
    match sf_parse msg with
    | None => None
    | Some (combined, salt, it) =>
        (* the rejection test is the source's condition (T1, Gen.scram_nonce_check):
           len(a.nonce) == 0 || !bytes.HasPrefix(combinedNonce, a.nonce) *)
        if Gen.scram_nonce_check (is_nil (ss_nonce st)) (is_prefix (ss_nonce st) combined) then None
        else match precis (sid_pass id) with
             | None => None
             | Some pw =>
                 let salted := pbkdf2_key pw salt it hsize hsize in
                 let wo := msg_without_proof id st combined in
                 (* the server-first-message as received (T1: Gen.scram_authmsg_uses_raw_server_first); a source that
                    re-joins the three parsed attributes instead drops optional extensions *)
                 let sfm := if Gen.scram_authmsg_uses_raw_server_first then msg
                            else join [44] (firstn 3 (split_on 44 msg)) in
                 let am := ss_bare st ++ bs "," ++ sfm ++ bs "," ++ wo in
                 Some ({| ss_bare := ss_bare st; ss_nonce := combined; ss_salted := salted; ss_authmsg := am;
                          ss_iter := it; ss_bind := ss_bind st; ss_verified := false |},
                       wo ++ bs ",p=" ++ client_proof salted am)
             end
    end.

  (* ---- handleServerValidationMessage ---- *)
  Definition handle_server_final (st : scram_state) (msg : bytes) : option (scram_state * bytes) :=
    if final_requires_first cfg && (is_nil (ss_salted st) || is_nil (ss_authmsg st)) then None
    else if bytes_eqb (skipn 2 msg) (server_sig (ss_salted st) (ss_authmsg st)) then
      Some ({| ss_bare := ss_bare st; ss_nonce := ss_nonce st; ss_salted := ss_salted st; ss_authmsg := ss_authmsg st;
               ss_iter := ss_iter st; ss_bind := ss_bind st; ss_verified := true |}, [])
    else None.

  (* ---- Start / Next ----  result of Next: None = error, Some None = (nil, nil), Some (Some r) = response r *)
  Definition scram_start (id : scram_id) (s : scram_state * list bytes)
    : (scram_state * list bytes) * option (bytes * option bytes) :=
    ((if start_resets cfg then ss_reset (fst s) else fst s, snd s), Some (sid_algo id, None)).

  Definition scram_next (id : scram_id) (s : scram_state * list bytes) (msg : bytes) (more : bool)
    : (scram_state * list bytes) * option (option bytes) :=
    let st := fst s in
    let rands := snd s in
    if more then
      match msg with
      | [] =>
          match initial_client_message id (if restart_resets cfg then ss_reset st else st) rands with
          | (st1, rands1, Some r) => ((st1, rands1), Some (Some r))
          | (st1, rands1, None) => ((st1, rands1), None)
          end
      | _ =>
          if is_prefix (bs "r=") msg then
            match handle_server_first id st msg with
            | Some (st1, r) => ((st1, rands), Some (Some r))
            | None => ((ss_reset st, rands), None)
            end
          else if is_prefix (bs "v=") msg then
            match handle_server_final st msg with
            | Some (st1, r) => ((st1, rands), Some (Some r))
            | None => ((ss_reset st, rands), None)
            end
          else ((ss_reset st, rands), None)
      end
    else if done_requires_verified cfg && negb (is_nil (ss_nonce st)) && negb (ss_verified st) then
      ((ss_reset st, rands), None)
    else (s, Some None).

  (* ---- RFC 5802 side (specification): Hi and the saslname unescaping ---- *)
  (* Hi(str, salt, i) = U1 xor ... xor Ui, U1 = HMAC(str, salt || INT(1)), Uk = HMAC(str, U(k-1)); i >= 1 *)
  Fixpoint hi_from (pass u t : bytes) (n : nat) : bytes :=
    match n with
    | O => t
    | S n' => let u' := HMAC pass u in hi_from pass u' (bxor t u') n'
    end.
  Definition Hi (pass salt : bytes) (i : nat) : bytes :=
    let u1 := HMAC pass (salt ++ [0; 0; 0; 1]) in hi_from pass u1 u1 (i - 1).

End Scram.

(* saslname unescaping at the server (RFC 5802 section 5.1): "=2C" -> ',', "=3D" -> '='; a raw ',' or any
   other use of '=' is an error *)
Fixpoint unescape_name (s : bytes) : option bytes :=
  match s with
  | [] => Some []
  | 61 :: 50 :: 67 :: t => option_map (cons 44) (unescape_name t)
  | 61 :: 51 :: 68 :: t => option_map (cons 61) (unescape_name t)
  | c :: t => if (c =? 61) || (c =? 44) then None else option_map (cons c) (unescape_name t)
  end.
