(* SmtpSend.v — the go-mail client of the send co-simulation, one state-passing function per Go
   function:
     smtp.Client:  cmd, ehlo/helo/hello, Mail, Rcpt, Data, dataCloser.Write/Close, Reset, Noop, Quit,
                   Extension, Close                                  (smtp/smtp.go, smtp/smtp_ehlo.go)
     mail.Client:  checkConn, ResetWithSMTPClient, sendSingleMsg, SendWithSMTPClient,
                   DialToSMTPClientWithContext (NoTLS, no auth), CloseWithSMTPClient,
                   DialAndSendWithContext                              (client.go, client_120.go)
   running against RefServer over one [world] (DESIGN 3.1): remaining script, server state, reply
   queue tagged with causes, trace of events with the reference server's verdict, attribution log,
   commit log.  go-mail never pipelines, so delivering a line to the server at once and queueing the
   reply is exact for a buffered transport.  The renderer is an arbitrary producer
   [render m = (chunks written before it stopped, error if it failed)].
   The recovery actions of sendSingleMsg that the proposed fixes add are switched by [fixes]
   (read from the source by the translator: Gen.ssm_... ), so that the same model describes the
   original and the repaired code.  No proofs here. *)
From Coq Require Import String.
From Verif Require Export Bytes Textproto SendErr RefServer.
Open Scope N_scope.

(* ---------- world ---------- *)
Record event := mkEv { ev_cmd : cmd; ev_legal : bool; ev_code : N (* 0 = connection dropped *) }.

Record world := mkW {
  w_script  : list decision;
  w_srv     : srv;
  w_queue   : list (nat * (N * bytes));      (* replies not yet read, tagged with the index of their cause *)
  w_trace   : list event;                    (* oldest first *)
  w_attr    : list (option nat * nat);       (* (event the client believes the reply answers, actual cause) *)
  w_commits : list commit                    (* oldest first *)
}.

Definition world_init (caps caps_tls : list ext) (script : list decision) : world :=
  mkW script (srv_init caps caps_tls) [] [] [] [].

Definition opt_list {A} (o : option A) : list A := match o with Some a => [a] | None => [] end.

(* a command line (or the end-of-data line) written by the client reaches the server.
   Result: new world and what the line caused: None = the write failed (server gone);
   Some (Some tag) = the event with that index; Some None = no event (the line became content). *)
Definition deliver (w : world) (c : cmd) : world * option (option nat) :=
  let s := w_srv w in
  if negb (s_open s) then (w, None)
  else
    let as_command :=
      let tag := length (w_trace w) in
      match srv_step (w_script w) s c with
      | (script', s', rep, lg, cm) =>
          (mkW script' s'
               (w_queue w ++ match rep with Some r => [(tag, r)] | None => [] end)
               (w_trace w ++ [mkEv c lg (match rep with Some (code, _) => code | None => 0 end)])
               (w_attr w)
               (w_commits w ++ opt_list cm),
           Some (Some tag))
      end in
    match s_data s with
    | None => as_command
    | Some content =>
        match c with
        | CEod => as_command
        | _ =>
            (* data mode: the line is message content; nobody will answer it *)
            (mkW (w_script w) (set_data s (Some (content ++ cmd_bytes c ++ crlf))) (w_queue w) (w_trace w)
                 (w_attr w) (w_commits w), Some None)
        end
    end.

(* message content written through the dot-writer *)
Definition deliver_content (w : world) (chunk : bytes) : world :=
  let s := w_srv w in
  if negb (s_open s) then w
  else match s_data s with
       | Some content =>
           mkW (w_script w) (set_data s (Some (content ++ chunk))) (w_queue w) (w_trace w) (w_attr w) (w_commits w)
       | None =>
           (* content outside data mode: the server sees garbage commands *)
           mkW (w_script w) s (w_queue w) (w_trace w ++ [mkEv CJunk false 0]) (w_attr w) (w_commits w)
       end.

(* the client closed the connection: the server sees EOF and stops serving *)
Definition peer_gone (w : world) : world :=
  mkW (w_script w) (set_closed (w_srv w)) (w_queue w) (w_trace w) (w_attr w) (w_commits w).

(* ---------- smtp.Client ---------- *)
Record cli := mkC {
  c_open : bool;                 (* isConnected and the connection not closed by us *)
  c_dot  : bool;                 (* textproto.Writer.dot != nil: an open dot-writer *)
  c_ext  : option (list ext);    (* c.ext: None = nil map (after HELO), replaced on each EHLO *)
  c_mr   : bytes;                (* dsnmrtype *)
  c_rn   : bytes                 (* dsnrntype *)
}.

Definition cli_init : cli := mkC true false None [] [].
Definition set_dot (c : cli) (d : bool) : cli := mkC (c_open c) d (c_ext c) (c_mr c) (c_rn c).
Definition set_cext (c : cli) (e : option (list ext)) : cli := mkC (c_open c) (c_dot c) e (c_mr c) (c_rn c).
Definition set_mr (c : cli) (v : bytes) : cli := mkC (c_open c) (c_dot c) (c_ext c) v (c_rn c).
Definition set_rn (c : cli) (v : bytes) : cli := mkC (c_open c) (c_dot c) (c_ext c) (c_mr c) v.
Definition set_copen (c : cli) (o : bool) : cli := mkC o (c_dot c) (c_ext c) (c_mr c) (c_rn c).

Definition state := (cli * world)%type.

Inductive res := ROk (code : N) (text : bytes) | RErr (e : err).

(* ReadResponse(expect) for the reply the client believes to be caused by event [tag] *)
Definition read_reply (expect : N) (tag : option nat) (st : state) : state * res :=
  let (c, w) := st in
  if negb (c_open c) then (st, RErr EIO)
  else
    match w_queue w with
    | (t, (code, text)) :: q =>
        let w' := mkW (w_script w) (w_srv w) q (w_trace w) (w_attr w ++ [(tag, t)]) (w_commits w) in
        ((c, w'), if expect_ok expect code then ROk code text else RErr (EReply code text))
    | [] => (st, RErr EIO)      (* EOF, or the deadline expires: no reply *)
    end.

(* Client.cmd = Text.Cmd (PrintfLine: closeDot, line, flush) + ReadResponse *)
Definition do_cmd (expect : N) (line : cmd) (st : state) : state * res :=
  let (c, w) := st in
  let c1 := set_dot c false in
  if negb (c_open c) then ((c1, w), RErr EIO)
  else
    let w1 := if c_dot c then fst (deliver w CEod) else w in
    match deliver w1 line with
    | (w2, None) => ((c1, w2), RErr EIO)
    | (w2, Some tag) => read_reply expect tag (c1, w2)
    end.

(* Client.Close: Text.Close, isConnected = false *)
Definition close_cli (st : state) : state :=
  let (c, w) := st in
  if c_open c then (set_copen c false, peer_gone w) else st.

Definition is_nil {A} (l : list A) : bool := match l with [] => true | _ => false end.

Definition mail_params (c : cli) : list param :=
  match c_ext c with
  | None => []
  | Some l =>
      (if has_ext l E8BITMIME then [PBody8] else []) ++
      (if has_ext l ESMTPUTF8 then [PSmtpUtf8] else []) ++
      (if has_ext l EDSN && negb (is_nil (c_mr c)) then [PRet (c_mr c)] else [])
  end.

Definition rcpt_params (c : cli) : list param :=
  match c_ext c with
  | None => []
  | Some l => if has_ext l EDSN && negb (is_nil (c_rn c)) then [PNotify (c_rn c)] else []
  end.

(* expectCode literals of the Go code; re-read from the source on every run (Gen.exp_ items) and
   handed to the model as a record so that the model stays independent of Gen.v *)
Record expects := mkExp {
  x_greet : N; x_ehlo : N; x_helo : N; x_mail : N; x_rcpt : N; x_data : N; x_eod : N;
  x_rset : N; x_noop : N; x_quit : N; x_starttls : N }.

Definition std_expects : expects := mkExp 220 250 250 250 25 354 250 250 250 221 220.

(* ---------- types of the mail.Client level ---------- *)
Inductive tlspol := TlsNone | TlsOpportunistic | TlsMandatory.

Record config := mkCfg {
  cf_helo   : bytes;
  cf_dsn    : bool;      (* requestDSN *)
  cf_ret    : bytes;     (* dsnReturnType *)
  cf_notify : bytes;     (* strings.Join(dsnRcptNotifyType, ",") *)
  cf_noop   : bool;      (* !noNoop *)
  cf_tls    : tlspol     (* tlspolicy *)
}.

Record fixes := mkFx {
  fx_abort      : bool;  (* WriteTo failure after DATA: client.Close() *)
  fx_data_rset  : bool;  (* rejected DATA: client.Reset() *)
  fx_rc_mail    : bool;  (* failed RSET after a failed MAIL: client.Close() *)
  fx_rc_rcpt    : bool;  (* failed RSET after failed RCPTs: client.Close() *)
  fx_rc_data    : bool;  (* failed RSET after a failed DATA: client.Close() *)
  fx_temp_unwrap : bool; (* isTempError unwraps once *)
  fx_regex      : bytes; (* the pattern of enhancedStatusCode *)
  fx_ehlo_replace : bool (* ehlo() assigns the extension map unconditionally after an accepted EHLO (not a
                            repair: the original code does; false describes a variant that keeps the old map
                            when the reply has no extension line) *)
}.

Definition fixes_all : fixes := mkFx true true true true true true re_anchored true.
Definition fixes_none : fixes := mkFx false false false false false false re_anywhere true.

Record msg := mkMsg {
  m_id    : nat;             (* identity within the batch (used by the renderer only) *)
  m_from  : option bytes;    (* GetSender: None = ErrNoFromAddress *)
  m_rcpts : list bytes;      (* GetRecipients: To ++ Cc ++ Bcc *)
  m_8bit  : bool             (* encoding == NoEncoding *)
}.

Record senderr := mkSE {
  se_reason : N;             (* SendErrReason (iota order of senderror.go) *)
  se_code   : N;
  se_temp   : bool;
  se_esc    : bytes;
  se_rcpts  : list bytes;
  se_nerr   : nat            (* len(errlist) *)
}.

Definition reason_get_sender : N := 0.
Definition reason_get_rcpts : N := 1.
Definition reason_mail_from : N := 2.
Definition reason_rcpt_to : N := 3.
Definition reason_data : N := 4.
Definition reason_data_close : N := 5.
Definition reason_reset : N := 6.
Definition reason_write_content : N := 7.
Definition reason_conn_check : N := 8.
Definition reason_no_unencoded : N := 9.

Definition err_no_active_conn : err := ELocal (bs "no active connection to server").
Definition err_no_from : err := ELocal (bs "no FROM address set").
Definition err_no_rcpt : err := ELocal (bs "no recipient addresses set").
Definition rset_wrap : bytes := bs "failed to send RSET to SMTP client: ".

(* what the client knows about one message after the call: SendError, isDelivered and (for the
   theorems) the code of the reply it read at end-of-data, if it got that far *)
Record mres := mkRes { r_err : option senderr; r_delivered : bool; r_eod : option N }.

Inductive ret := RetNil | RetDial | RetConnCheck | RetJoined (n : nat) | RetClose.

Record outcome := mkOut {
  o_ret     : ret;
  o_results : list mres;
  o_world   : world;
  o_cli     : option cli
}.


Record outcome2 := mkOut2 {
  p_ret1 : ret; p_ret2 : ret;
  p_reset : option bool;          (* Reset returned nil; None = not called (dial failed) *)
  p_results1 : list mres; p_results2 : list mres;
  p_world : world
}.

Section Client.
Variable X : expects.

Definition do_mail (from : bytes) (st : state) : state * res :=
  do_cmd (x_mail X) (CMail from (mail_params (fst st))) st.

Definition do_rcpt (to : bytes) (st : state) : state * res :=
  do_cmd (x_rcpt X) (CRcpt to (rcpt_params (fst st))) st.

(* Client.Data: DATA, then Text.DotWriter() *)
Definition do_data (st : state) : state * res :=
  match do_cmd (x_data X) CData st with
  | ((c, w), ROk code t) => ((set_dot c true, w), ROk code t)
  | r => r
  end.

(* dataCloser.Write *)
Definition dc_write (st : state) (chunk : bytes) : state :=
  let (c, w) := st in
  if c_open c && c_dot c then (c, deliver_content w chunk) else st.

(* dataCloser.Close: close the dot-writer (error ignored), ReadResponse(250) *)
Definition dc_close (st : state) : state * res :=
  let (c, w) := st in
  let c1 := set_dot c false in
  if c_open c && c_dot c then
    match deliver w CEod with
    | (w1, Some tag) => read_reply (x_eod X) tag (c1, w1)
    | (w1, None) => read_reply (x_eod X) None (c1, w1)
    end
  else read_reply (x_eod X) None (c1, w).

Definition do_reset (st : state) : state * res := do_cmd (x_rset X) CRset st.
Definition do_noop (st : state) : state * res := do_cmd (x_noop X) CNoop st.

(* Client.Quit: the connection is closed only after the expected reply *)
Definition do_quit (st : state) : state * res :=
  match do_cmd (x_quit X) CQuit st with
  | (st1, ROk code t) => (close_cli st1, ROk code t)
  | r => r
  end.

(* Client.Extension *)
Definition extension (c : cli) (e : ext) : bool :=
  match c_ext c with Some l => has_ext l e | None => false end.

(* ehlo(): the extension map is REPLACED by what this reply advertises (also by an empty map) *)
Definition do_ehlo (replace : bool) (name : bytes) (st : state) : state * res :=
  match do_cmd (x_ehlo X) (CEhlo name) st with
  | ((c, w), ROk code t) =>
      let adv := s_ext (w_srv w) in
      ((set_cext c (if replace || negb (is_nil adv) then Some adv else c_ext c), w), ROk code t)
  | r => r
  end.

(* hello(): EHLO, on any error HELO (ext dropped) *)
Definition do_hello (replace : bool) (name : bytes) (st : state) : state * res :=
  match do_ehlo replace name st with
  | (st1, ROk code t) => (st1, ROk code t)
  | ((c, w), RErr _) => do_cmd (x_helo X) (CHelo name) (set_cext c None, w)
  end.

(* Client.StartTLS: STARTTLS, TLS handshake (oracle: succeeds), fresh textproto.Conn, EHLO again *)
Definition do_starttls (replace : bool) (name : bytes) (st : state) : state * res :=
  match do_cmd (x_starttls X) CStartTLS st with
  | ((c, w), ROk _ _) => do_ehlo replace name (set_dot c false, w)
  | r => r
  end.

(* ---------- mail.Client ---------- *)
Variable F : fixes.
Variable cfg : config.
Variable render : msg -> list bytes * option err.

Definition mk_se (reason : N) (e : err) (esc : bool) (rc : list bytes) (n : nat) : senderr :=
  mkSE reason (error_code e) (is_temp_error (fx_temp_unwrap F) e) (enhanced_status_code (fx_regex F) e esc) rc n.

(* checkConn: HasConnection, NOOP unless disabled (any failure = ErrNoActiveConnection), UpdateDeadline *)
Definition check_conn (st : state) : state * option err :=
  if negb (c_open (fst st)) then (st, Some err_no_active_conn)
  else if cf_noop cfg then
    match do_noop st with
    | (st1, ROk _ _) => (st1, None)
    | (st1, RErr _) => (st1, Some err_no_active_conn)
    end
  else (st, None).

(* ResetWithSMTPClient *)
Definition reset_with (st : state) : state * option err :=
  match check_conn st with
  | (st1, Some e) => (st1, Some e)
  | (st1, None) =>
      match do_reset st1 with
      | (st2, ROk _ _) => (st2, None)
      | (st2, RErr e) => (st2, Some (EWrap rset_wrap e))
      end
  end.

(* the RSET that abandons a failed transaction; its error is appended to errlist *)
Definition reset_after (close_on_fail : bool) (se : senderr) (st : state) : state * senderr :=
  match do_reset st with
  | (st1, ROk _ _) => (st1, se)
  | (st1, RErr _) =>
      (if close_on_fail then close_cli st1 else st1,
       mkSE (se_reason se) (se_code se) (se_temp se) (se_esc se) (se_rcpts se) (S (se_nerr se)))
  end.

(* the RCPT loop: every recipient is tried; the SendError accumulates *)
Fixpoint rcpt_loop (esc : bool) (rcpts : list bytes) (st : state) (acc : option senderr) : state * option senderr :=
  match rcpts with
  | [] => (st, acc)
  | r :: t =>
      match do_rcpt r st with
      | (st1, ROk _ _) => rcpt_loop esc t st1 acc
      | (st1, RErr e) =>
          let old_rc := match acc with Some a => se_rcpts a | None => [] end in
          let old_n := match acc with Some a => se_nerr a | None => O end in
          rcpt_loop esc t st1 (Some (mk_se reason_rcpt_to e esc (old_rc ++ [r]) (S old_n)))
      end
  end.

Definition write_chunks (st : state) (chunks : list bytes) : state := fold_left dc_write chunks st.

(* sendSingleMsg *)
Definition send_single (m : msg) (st : state) : state * mres :=
  let esc := extension (fst st) EENHANCED in
  if m_8bit m && negb (extension (fst st) E8BITMIME) then
    (st, mkRes (Some (mkSE reason_no_unencoded 0 false [] [] O)) false None)
  else
    match m_from m with
    | None => (st, mkRes (Some (mk_se reason_get_sender err_no_from esc [] 1)) false None)
    | Some from =>
        match m_rcpts m with
        | [] => (st, mkRes (Some (mk_se reason_get_rcpts err_no_rcpt esc [] 1)) false None)
        | rcpts =>
            let st0 := if cf_dsn cfg && negb (is_nil (cf_ret cfg))
                       then (set_mr (fst st) (cf_ret cfg), snd st) else st in
            match do_mail from st0 with
            | (st1, RErr e) =>
                let (st2, se) := reset_after (fx_rc_mail F) (mk_se reason_mail_from e esc [] 1) st1 in
                (st2, mkRes (Some se) false None)
            | (st1, ROk _ _) =>
                let st1' := (set_rn (fst st1) (cf_notify cfg), snd st1) in
                match rcpt_loop esc rcpts st1' None with
                | (st2, Some se) =>
                    let (st3, se') := reset_after (fx_rc_rcpt F) se st2 in (st3, mkRes (Some se') false None)
                | (st2, None) =>
                    match do_data st2 with
                    | (st3, RErr e) =>
                        let se := mk_se reason_data e esc [] 1 in
                        if fx_data_rset F then
                          let (st4, se') := reset_after (fx_rc_data F) se st3 in (st4, mkRes (Some se') false None)
                        else (st3, mkRes (Some se) false None)
                    | (st3, ROk _ _) =>
                        let st4 := write_chunks st3 (fst (render m)) in
                        match snd (render m) with
                        | Some e =>
                            (if fx_abort F then close_cli st4 else st4,
                             mkRes (Some (mk_se reason_write_content e esc [] 1)) false None)
                        | None =>
                            match dc_close st4 with
                            | (st5, RErr e) =>
                                (st5, mkRes (Some (mk_se reason_data_close e esc [] 1)) false
                                            (match e with EReply code _ => Some code | _ => None end))
                            | (st5, ROk code _) =>
                                match reset_with st5 with
                                | (st6, None) => (st6, mkRes None true (Some code))
                                | (st6, Some e) => (st6, mkRes (Some (mk_se reason_reset e esc [] 1)) true (Some code))
                                end
                            end
                        end
                    end
                end
            end
        end
    end.

Fixpoint send_msgs (ms : list msg) (st : state) : state * list mres :=
  match ms with
  | [] => (st, [])
  | m :: t =>
      let (st1, r) := send_single m st in
      let (st2, rs) := send_msgs t st1 in (st2, r :: rs)
  end.

Definition has_err (r : mres) : bool := match r_err r with Some _ => true | None => false end.
Definition count_errors (rs : list mres) : nat := length (filter has_err rs).

Definition untouched (ms : list msg) : list mres := map (fun _ => mkRes None false None) ms.

(* SendWithSMTPClient: connection check, then every message; errors.Join of the SendErrors *)
Definition send_batch (ms : list msg) (st : state) : state * (ret * list mres) :=
  match check_conn st with
  | (st1, Some _) => (st1, (RetConnCheck, untouched ms))
  | (st1, None) =>
      let (st2, rs) := send_msgs ms st1 in
      (st2, (match count_errors rs with O => RetNil | n => RetJoined n end, rs))
  end.

(* Client.tls: STARTTLS according to the policy; false = the dial fails *)
Definition tls_step (st : state) : state * bool :=
  let run := match do_starttls (fx_ehlo_replace F) (cf_helo cfg) st with
             | (st1, ROk _ _) => (st1, true)
             | (st1, RErr _) => (st1, false)
             end in
  match cf_tls cfg with
  | TlsNone => (st, true)
  | TlsMandatory => if extension (fst st) ESTARTTLS then run else (st, false)
  | TlsOpportunistic => if extension (fst st) ESTARTTLS then run else (st, true)
  end.

(* NewClient (greeting) + Hello + STARTTLS per policy; no authentication *)
Definition dial (w : world) : world * option cli :=
  let (w1, tag) := deliver w CGreet in
  match read_reply (x_greet X) (match tag with Some t => t | None => None end) (cli_init, w1) with
  | ((c, w2), RErr _) => (snd (close_cli (c, w2)), None)
  | (st, ROk _ _) =>
      match do_hello (fx_ehlo_replace F) (cf_helo cfg) st with
      | (st3, ROk _ _) =>
          match tls_step st3 with
          | ((c, w4), true) => (w4, Some c)
          | ((c, w4), false) => (w4, None)
          end
      | ((c, w3), RErr _) => (w3, None)
      end
  end.

(* CloseWithSMTPClient *)
Definition close_with (st : state) : state * bool :=
  if negb (c_open (fst st)) then (st, true)
  else match do_quit st with
       | (st1, ROk _ _) => (st1, true)
       | (st1, RErr _) => (st1, false)
       end.

(* DialAndSendWithContext (up to the first QUIT); the same dialogue as DialAndSend and as
   DialWithContext + Send + Close; SendWithSMTPClient on a client from DialToSMTPClientWithContext followed by
   CloseWithSMTPClient is the same program per connection *)
Definition dial_and_send (ms : list msg) (w : world) : outcome :=
  match dial w with
  | (w1, None) => mkOut RetDial (untouched ms) w1 None
  | (w1, Some c) =>
      match send_batch ms (c, w1) with
      | (st2, (r, rs)) =>
          let (st3, closed) := close_with st2 in
          mkOut (match r with RetNil => if closed then RetNil else RetClose | _ => r end) rs (snd st3) (Some (fst st3))
      end
  end.

(* a second program over the same functions: DialWithContext; Send(ms1); [Reset;] Send(ms2); Close.
   Without the Reset it is also what two CONCURRENT Send calls on one dialled Client amount to: Client.Send holds
   sendMutex across SendWithSMTPClient, so the dialogues are serialised (C13_shared_conn_exclusive; T1: Gen.send_paths). *)
Definition dial_send_reset_send (do_reset : bool) (ms1 ms2 : list msg) (w : world) : outcome2 :=
  match dial w with
  | (w1, None) => mkOut2 RetDial RetDial None (untouched ms1) (untouched ms2) w1
  | (w1, Some c) =>
      match send_batch ms1 (c, w1) with
      | (st2, (r1, rs1)) =>
          match (if do_reset then reset_with st2 else (st2, None)) with
          | (st3, re) =>
              match send_batch ms2 st3 with
              | (st4, (r2, rs2)) =>
                  let (st5, closed) := close_with st4 in
                  mkOut2 r1 r2 (if do_reset then Some (match re with None => true | Some _ => false end) else None)
                         rs1 rs2 (snd st5)
              end
          end
      end
  end.

End Client.

(* ---------- projections used by the correspondence and the theorems ---------- *)
Definition all_legal (w : world) : bool := forallb ev_legal (w_trace w).

Definition attr_match (p : option nat * nat) : bool :=
  match fst p with Some t => Nat.eqb t (snd p) | None => false end.
Definition all_attributed (w : world) : bool := forallb attr_match (w_attr w).

Definition run_two_sends (do_reset : bool) (X : expects) (F : fixes) (cfg : config) (caps caps_tls : list ext)
           (script : list decision) (ms1 ms2 : list msg) (render : msg -> list bytes * option err) : outcome2 :=
  dial_send_reset_send X F cfg render do_reset ms1 ms2 (world_init caps caps_tls script).

Definition run_reset := run_two_sends true.
(* Send(ms1) and Send(ms2) called concurrently on one dialled Client, serialised by sendMutex *)
Definition run_serialised := run_two_sends false.

(* nil entries of a batch: SendWithSMTPClient skips them silently (no sendSingleMsg, no error, not counted in the
   joined error); the results stay aligned with the positions of the batch.  A batch with nil entries is a list of
   option msg: the run is the run of its non-nil messages, [align] puts the results back at their positions. *)
Definition somes (oms : list (option msg)) : list msg := flat_map opt_list oms.

Fixpoint align (oms : list (option msg)) (rs : list mres) : list mres :=
  match oms with
  | [] => []
  | None :: t => mkRes None false None :: align t rs
  | Some _ :: t =>
      match rs with
      | r :: rt => r :: align t rt
      | [] => mkRes None false None :: align t []
      end
  end.

Definition run_case (X : expects) (F : fixes) (cfg : config) (caps caps_tls : list ext) (script : list decision)
           (ms : list msg) (render : msg -> list bytes * option err) : outcome :=
  dial_and_send X F cfg render ms (world_init caps caps_tls script).
