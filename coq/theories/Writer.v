(* Writer.v — msgWriter (msgwriter.go) and the pieces of mime/multipart.Writer it drives,
   over fault-injecting sinks and producers.  State-passing transliteration; a Go panic
   (nil part writer) is the explicit flag [panicked]. *)
From Coq Require Import String.
From Verif Require Export Bytes Base64 LineBreaker QP HeaderFold WordEnc.
From VerifGen Require Import Gen.
Open Scope nat_scope.

(* ---------- sinks ---------- *)
(* The destination accepts [cap] more bytes (None: unlimited).  The Write call that does not
   fit accepts what fits and returns an error.  Afterwards a recovering sink accepts
   everything again; a non-recovering one rejects every further call. *)
Record sink := mksink { cap : option nat; recover : bool; failed : bool; accepted : bytes }.

Definition sink_write (k : sink) (p : bytes) : sink * nat * bool :=
  if failed k && negb (recover k) then (k, 0, true)
  else
    match cap k with
    | None => (mksink None (recover k) (failed k) (accepted k ++ p), length p, false)
    | Some r =>
        if Nat.leb (length p) r
        then (mksink (Some (r - length p)) (recover k) (failed k) (accepted k ++ p), length p, false)
        else (mksink (if recover k then None else Some 0) (recover k) true (accepted k ++ firstn r p), r, true)
    end.

(* ---------- producers ---------- *)
(* a body / file content producer: writes its chunks, then returns an error iff [pfail] *)
Record producer := mkprod { pchunks : list bytes; pfail : bool }.

Inductive enc := EncQP | EncB64 | Enc8bit | EncOther (name : bytes).

Definition enc_name (e : enc) : bytes :=
  match e with
  | EncQP => Gen.enc_qp | EncB64 => Gen.enc_b64 | Enc8bit => Gen.enc_none | EncOther n => n
  end.

Definition enc_of_name (n : bytes) : enc :=
  if bytes_eqb n Gen.enc_qp then EncQP
  else if bytes_eqb n Gen.enc_b64 then EncB64
  else if bytes_eqb n Gen.enc_none then Enc8bit
  else EncOther n.

(* ---------- multipart.Writer ---------- *)
Record mpart := mkmpart { pclosed : bool; pwe : bool }.
Record mpw := mkmpw { boundary : bytes; lastpart : option mpart }.

(* ---------- msgWriter ---------- *)
Record mw := mkmw {
  snk : sink;
  bw : nat;                 (* bytesWritten *)
  err : bool;               (* mw.err != nil *)
  depth : nat;
  mps : list mpw;           (* multiPartWriter[0..depth-1] *)
  pw : option nat;          (* partWriter: Some i = current part of writer i, None = nil *)
  hcount : nat;             (* msg.headerCount contribution of this render *)
  panicked : bool
}.

Definition set_snk st k n e := mkmw k (bw st + n) e (depth st) (mps st) (pw st) (hcount st) (panicked st).
Definition set_err st e := mkmw (snk st) (bw st) e (depth st) (mps st) (pw st) (hcount st) (panicked st).
Definition set_depth st d := mkmw (snk st) (bw st) (err st) d (mps st) (pw st) (hcount st) (panicked st).
Definition set_mps st l := mkmw (snk st) (bw st) (err st) (depth st) l (pw st) (hcount st) (panicked st).
Definition set_pw st p := mkmw (snk st) (bw st) (err st) (depth st) (mps st) p (hcount st) (panicked st).
Definition add_hcount st n := mkmw (snk st) (bw st) (err st) (depth st) (mps st) (pw st) (hcount st + n) (panicked st).
Definition set_panic st := mkmw (snk st) (bw st) (err st) (depth st) (mps st) (pw st) (hcount st) true.

(* sequencing that stops at a panic *)
Definition andthen (st : mw) (f : mw -> mw) : mw := if panicked st then st else f st.
Notation "st |> f" := (andthen st f) (at level 50, left associativity).

(* msgWriter.Write: sticky error; returns the state and whether the call returned an error *)
Definition mw_write (st : mw) (p : bytes) : mw * bool :=
  if err st then (st, true)
  else let '(k, n, e) := sink_write (snk st) p in (set_snk st k n e, e).

(* msgWriter.writeString *)
Definition write_string (s : bytes) (st : mw) : mw :=
  if err st then st
  else let '(k, n, e) := sink_write (snk st) s in set_snk st k n e.

(* msgWriter.writeHeader: two writeString calls; returns the line count *)
Definition mw_write_header (key : bytes) (values : list bytes) (st : mw) : mw * nat :=
  match values with
  | [] => (st, 0)            (* nothing written, nothing counted (after fix ee76554) *)
  | _ => let s := wh_buffer key values in
         (write_string crlf (write_string s st), S (count_crlf s))
  end.

Definition write_header_counted (key : bytes) (values : list bytes) (st : mw) : mw :=
  let '(st', n) := mw_write_header key values st in add_hcount st' n.
Definition write_header_uncounted (key : bytes) (values : list bytes) (st : mw) : mw :=
  fst (mw_write_header key values st).

Fixpoint update_nth {A} (n : nat) (x : A) (l : list A) : list A :=
  match l, n with
  | [], _ => []
  | _ :: t, O => x :: t
  | h :: t, S m => h :: update_nth m x t
  end.

Definition dashdash : bytes := bs "--".

(* header lines of a part as CreatePart writes them: "k: v\r\n" for keys in sorted order *)
Fixpoint bytes_leb (a b : bytes) : bool :=
  match a, b with
  | [], _ => true
  | _ :: _, [] => false
  | x :: a', y :: b' => if N.ltb x y then true else if N.ltb y x then false else bytes_leb a' b'
  end.

Fixpoint insert_kv {V} (kv : bytes * V) (l : list (bytes * V)) : list (bytes * V) :=
  match l with
  | [] => [kv]
  | h :: t => if bytes_leb (fst kv) (fst h) then kv :: l else h :: insert_kv kv t
  end.
Definition sort_kv {V} (l : list (bytes * V)) : list (bytes * V) := fold_right insert_kv [] l.

Definition part_header_lines (hdrs : list (bytes * list bytes)) : bytes :=
  flat_map (fun kv => flat_map (fun v => fst kv ++ bs ": " ++ v ++ crlf) (snd kv)) (sort_kv hdrs).

(* multipart.Writer.CreatePart on writer i, followed by the assignment
   mw.partWriter, mw.err = … of msgWriter.newPart *)
Definition create_part (i : nat) (hdrs : list (bytes * list bytes)) (st : mw) : mw :=
  match nth_error (mps st) i with
  | None => set_panic st                      (* index out of range: unreachable *)
  | Some w =>
      let prev_err := match lastpart w with Some p => pwe p | None => false end in
      (* w.lastpart.close() marks the previous part closed *)
      let w1 := match lastpart w with
                | Some p => mkmpw (boundary w) (Some (mkmpart true (pwe p)))
                | None => w end in
      let st1 := set_mps st (update_nth i w1 (mps st)) in
      if prev_err then set_err (set_pw st1 None) true
      else
        let delim := (match lastpart w with Some _ => crlf | None => [] end)
                     ++ dashdash ++ boundary w ++ crlf in
        let '(st2, e) := mw_write st1 (delim ++ part_header_lines hdrs ++ crlf) in
        if e then set_err (set_pw st2 None) true
        else
          let w2 := mkmpw (boundary w) (Some (mkmpart false false)) in
          set_err (set_pw (set_mps st2 (update_nth i w2 (mps st2))) (Some i)) false
  end.

(* msgWriter.newPart *)
Definition new_part (hdrs : list (bytes * list bytes)) (st : mw) : mw :=
  create_part (depth st - 1) hdrs st.

(* multipart.Writer.Close on writer i; returns the error flag *)
Definition mp_close (i : nat) (st : mw) : mw * bool :=
  match nth_error (mps st) i with
  | None => (set_panic st, true)
  | Some w =>
      let prev_err := match lastpart w with Some p => pwe p | None => false end in
      if prev_err then
        (set_mps st (update_nth i (mkmpw (boundary w)
            (match lastpart w with Some p => Some (mkmpart true (pwe p)) | None => None end)) (mps st)), true)
      else
        let st1 := set_mps st (update_nth i (mkmpw (boundary w) None) (mps st)) in
        mw_write st1 (crlf ++ dashdash ++ boundary w ++ dashdash ++ crlf)
  end.

(* part.Write through mw.partWriter *)
Definition part_write (i : nat) (p : bytes) (st : mw) : mw * bool :=
  match nth_error (mps st) i with
  | None => (set_panic st, true)
  | Some w =>
      match lastpart w with
      | None => (st, true)                      (* unreachable: no current part *)
      | Some pt =>
          if pclosed pt then (st, true)         (* "can't write to finished part" *)
          else
            let '(st1, e) := mw_write st p in
            if e then (set_mps st1 (update_nth i (mkmpw (boundary w) (Some (mkmpart false true))) (mps st1)), true)
            else (st1, false)
      end
  end.

(* multipart.Writer.SetBoundary validity *)
Definition boundary_char_ok (last : bool) (b : N) : bool :=
  ((65 <=? b) && (b <=? 90) || (97 <=? b) && (b <=? 122) || (48 <=? b) && (b <=? 57))%N
  || existsb (N.eqb b) [39; 40; 41; 43; 95; 44; 45; 46; 47; 58; 61; 63]%N
  || (N.eqb b 32 && negb last).

Fixpoint boundary_chars_ok (s : bytes) : bool :=
  match s with
  | [] => true
  | [b] => boundary_char_ok true b
  | b :: t => boundary_char_ok false b && boundary_chars_ok t
  end.

Definition boundary_valid (s : bytes) : bool :=
  Nat.leb 1 (length s) && Nat.leb (length s) 70 && boundary_chars_ok s.

(* which boundary startMP ends up with: the cached one if SetBoundary accepts it, otherwise the
   random one multipart.NewWriter drew; the flag says that SetBoundary returned an error *)
Definition pick_boundary (cached rb : bytes) : bytes * bool :=
  match cached with
  | [] => (rb, false)
  | _ => if boundary_valid cached then (cached, false) else (rb, true)
  end.

(* msgWriter.startMP with the boundary already resolved *)
Definition start_mp (mime : bytes) (b : bytes) (bad : bool) (st : mw) : mw :=
  (* after the fix a SetBoundary error is recorded, a success leaves mw.err alone *)
  let st1 := if bad then set_err st true else st in
  let ctype := bs "multipart/" ++ mime ++ bs ";" ++ crlf ++ bs " boundary=" ++ b in
  let w := mkmpw b None in
  let st2 := set_mps st1 (firstn (depth st1) (mps st1) ++ [w]) in
  let st3 := if Nat.eqb (depth st2) 0
             then write_string (bs "Content-Type: " ++ ctype) st2
             else new_part [(bs "Content-Type", [ctype])] st2 in
  if panicked st3 then st3 else set_depth st3 (S (depth st3)).

(* msgWriter.stopMP *)
Definition stop_mp (st : mw) : mw :=
  match depth st with
  | O => st
  | S d => let '(st1, e) := mp_close d st in
           if panicked st1 then st1 else set_depth (set_err st1 e) d
  end.

(* what the encoded writer leaves in the intermediate buffer *)
Definition encode_body (e : enc) (p : producer) : bytes :=
  match e with
  | EncB64 => match lb_run [b64enc (concat (pchunks p))] with Some o => o | None => [] end
  | Enc8bit => concat (pchunks p)
  | EncQP | EncOther _ => qp_run (pchunks p)
  end.

(* msgWriter.writeBody (after the fix the default branch also encodes into the buffer) *)
Definition write_body (p : producer) (e : enc) (st : mw) : mw :=
  let st1 := if pfail p then set_err st true else st in
  let buf := encode_body e p in
  match buf with
  | [] => st1                                   (* bytes.Buffer.WriteTo writes nothing *)
  | _ =>
      if Nat.eqb (depth st1) 0 then
        (* io.Copy straight into mw.writer; the count is added by hand *)
        let '(k, n, e2) := sink_write (snk st1) buf in
        mkmw k (bw st1 + n) (err st1 || e2) (depth st1) (mps st1) (pw st1) (hcount st1) (panicked st1)
      else
        match pw st1 with
        | None => set_panic st1                 (* nil io.Writer *)
        | Some i => let '(st2, e2) := part_write i buf st1 in
                    if err st1 then st2 else set_err st2 (err st2 || e2)
        end
  end.

(* ---------- messages ---------- *)
Record part := mkpart {
  p_ctype : bytes; p_charset : bytes; p_enc : enc; p_desc : bytes; p_prod : producer }.

Record file := mkfile {
  f_name : bytes;
  f_mime : bytes;            (* result of the mime-type derivation (oracle: TypeByExtension / ContentType) *)
  f_enc : option enc;        (* File.Enc, None = "" *)
  f_desc : bytes;
  f_hdr : list (bytes * bytes);   (* File.Header (canonical keys, single values): the cache *)
  f_prod : producer }.

Record msg := mkmsg {
  m_charset : bytes;
  m_wenc : N;                                  (* 113 = Q, 98 = B word encoder *)
  m_gen : list (bytes * list bytes);           (* genHeader, values already encoded by SetGenHeader *)
  m_preform : list (bytes * bytes);
  m_from : option bytes;                       (* From (or envelope-from) as Address.String() gives it *)
  m_addr : list (bytes * list bytes);          (* present To / Cc / Reply-To keys with formatted addresses *)
  m_parts : list part;
  m_embeds : list file;
  m_attach : list file;
  m_bmixed : bytes; m_brelated : bytes; m_balt : bytes   (* multiPartBoundary cache, [] = unset *)
}.

Definition has_alt (m : msg) : bool := Nat.ltb 1 (length (m_parts m)).
Definition has_mixed (m : msg) : bool :=
  ((Nat.ltb 0 (length (m_parts m)) || Nat.ltb 0 (length (m_embeds m))) && Nat.ltb 0 (length (m_attach m)))
  || Nat.ltb 1 (length (m_attach m)).
Definition has_related (m : msg) : bool :=
  (Nat.ltb 0 (length (m_parts m)) && Nat.ltb 0 (length (m_embeds m))) || Nat.ltb 1 (length (m_embeds m)).

Definition lookup (k : bytes) (l : list (bytes * bytes)) : option bytes :=
  match find (fun kv => bytes_eqb (fst kv) k) l with Some kv => Some (snd kv) | None => None end.

(* File.getHeader: present and non-empty *)
Definition get_hdr (k : bytes) (f : file) : option bytes :=
  match lookup k (f_hdr f) with Some [] => None | x => x end.

Fixpoint set_kv (k v : bytes) (l : list (bytes * bytes)) : list (bytes * bytes) :=
  match l with
  | [] => [(k, v)]
  | h :: t => if bytes_eqb (fst h) k then (k, v) :: t else h :: set_kv k v t
  end.
Definition set_hdr (k v : bytes) (f : file) : file :=
  mkfile (f_name f) (f_mime f) (f_enc f) (f_desc f) (set_kv k v (f_hdr f)) (f_prod f).

Definition sanitize (s : bytes) : bytes := map (fun b => if Gen.sanitize_bad b then 95%N else b) s.

Definition h_ctype := bs "Content-Type".
Definition h_cte := bs "Content-Transfer-Encoding".
Definition h_cdesc := bs "Content-Description".
Definition h_cdisp := bs "Content-Disposition".
Definition h_cid := bs "Content-Id".      (* textproto canonical form of Content-ID *)

(* MIMEHeader.Get on the cache: present and non-empty *)
Definition get_h (k : bytes) (h : list (bytes * bytes)) : option bytes :=
  match lookup k h with Some [] => None | x => x end.

(* "if _, ok := file.getHeader(k); !ok { file.setHeader(k, v) }" *)
Definition ensure (k v : bytes) (h : list (bytes * bytes)) : list (bytes * bytes) :=
  match get_h k h with Some _ => h | None => set_kv k v h end.

(* "if v, ok := file.getHeader(k); ok { file.setHeader(k, encoder.Encode(charset, v)) }" *)
Definition reencode (k : bytes) (wenc : N) (h : list (bytes * bytes)) : list (bytes * bytes) :=
  match get_h k h with Some v => set_kv k (word_encode wenc v) h | None => h end.

(* the body encoding addFiles uses (after the fix: taken from the cached header when present) *)
Definition file_enc (f : file) (h1 : list (bytes * bytes)) : enc :=
  match get_h h_cte h1 with
  | Some v => enc_of_name v
  | None => match f_enc f with Some e => e | None => EncB64 end
  end.

(* the header synthesis of addFiles for one file, on the header cache; returns the filled
   cache and the encoding used for the body *)
Definition file_hdrs (wenc : N) (is_attachment : bool) (f : file) : list (bytes * bytes) * enc :=
  let quoted := bs """" in
  let encname := word_encode wenc (sanitize (f_name f)) in
  let h1 := ensure h_ctype (f_mime f ++ bs "; name=" ++ quoted ++ encname ++ quoted) (f_hdr f) in
  let e := file_enc f h1 in
  let h2 := ensure h_cte (enc_name e) h1 in
  let h3 := match f_desc f with
            | [] => h2
            | d => ensure h_cdesc (word_encode wenc d) h2
            end in
  let h4 := ensure h_cdisp ((if is_attachment then bs "attachment" else bs "inline")
                            ++ bs "; filename=" ++ quoted ++ encname ++ quoted) h3 in
  let h5 := if is_attachment then h4
            else ensure h_cid (bs "<" ++ sanitize (f_name f) ++ bs ">") h4 in
  (reencode h_cid wenc h5, e).

Definition with_hdr (f : file) (h : list (bytes * bytes)) : file :=
  mkfile (f_name f) (f_mime f) (f_enc f) (f_desc f) h (f_prod f).

Definition file_headers (wenc : N) (is_attachment : bool) (f : file) : file * enc :=
  (with_hdr f (fst (file_hdrs wenc is_attachment f)), snd (file_hdrs wenc is_attachment f)).

(* msgWriter.writePartHeader: the header section of an entity at depth 0 in the form
   multipart.Writer.CreatePart uses (sorted keys, one unfolded line per value, empty line);
   used by the S/MIME pre-render (msgWriter.enclosedForm) *)
Definition write_part_header (hdrs : list (bytes * list bytes)) (st : mw) : mw :=
  write_string crlf
    (fold_left (fun s kv => fold_left (fun s2 v => write_string (fst kv ++ bs ": " ++ v ++ crlf) s2) (snd kv) s)
               (sort_kv hdrs) st).

(* msgWriter.addFiles over files whose headers are already synthesised (file, body encoding) *)
Fixpoint add_files (encl : bool) (files : list (file * enc)) (st : mw) : mw :=
  match files with
  | [] => st
  | (f', e) :: rest =>
      if panicked st then st
      else
        let hdrs := map (fun kv => (fst kv, [snd kv])) (f_hdr f') in
        let st1 := if Nat.eqb (depth st) 0
                   then (if encl then write_part_header hdrs st
                         else write_string crlf
                                (fold_left (fun s kv => write_header_uncounted (fst kv) (snd kv) s) (sort_kv hdrs) st))
                   else new_part hdrs st in
        let st2 := if err st1 then st1 else st1 |> write_body (f_prod f') e in
        add_files encl rest st2
  end.

(* msgWriter.writePart *)
Definition write_part (encl : bool) (wenc : N) (msg_charset : bytes) (p : part) (st : mw) : mw :=
  let cs := match p_charset p with [] => msg_charset | c => c end in
  let ctype := p_ctype p ++ bs "; charset=" ++ cs in
  let cte := enc_name (p_enc p) in
  let hdrs := (match p_desc p with [] => [] | d => [(h_cdesc, [word_encode wenc d])] end)
              ++ [(h_cte, [cte]); (h_ctype, [ctype])] in
  let st1 :=
    if Nat.eqb (depth st) 0 then
      (if encl then write_part_header hdrs st
       else write_string crlf (write_header_uncounted h_ctype [ctype] (write_header_uncounted h_cte [cte] st)))
    else new_part hdrs st in
  if err st1 then st1 else st1 |> write_body (p_prod p) (p_enc p).

Definition mime_version_hdr : bytes * list bytes := (bs "MIME-Version", [bs "1.0"]).
Definition user_agent : bytes := bs "go-mail v" ++ Gen.version ++ bs " // https://github.com/wneessen/go-mail".

Definition has_key (k : bytes) (l : list (bytes * list bytes)) : bool :=
  existsb (fun kv => bytes_eqb (fst kv) k) l.
Fixpoint set_gen (k : bytes) (v : list bytes) (l : list (bytes * list bytes)) : list (bytes * list bytes) :=
  match l with
  | [] => [(k, v)]
  | h :: t => if bytes_eqb (fst h) k then (k, v) :: t else h :: set_gen k v t
  end.

(* addDefaultHeader + checkUserAgent; Date and Message-ID come from oracles when unset *)
Definition add_defaults (date msgid : bytes) (m : msg) : list (bytes * list bytes) :=
  let g0 := m_gen m in
  let g1 := if has_key (bs "Date") g0 then g0 else set_gen (bs "Date") [date] g0 in
  let g2 := if has_key (bs "Message-ID") g1 then g1 else set_gen (bs "Message-ID") [msgid] g1 in
  let g3 := set_gen (fst mime_version_hdr) (snd mime_version_hdr) g2 in
  if has_key (bs "User-Agent") g3 || has_key (bs "X-Mailer") g3 then g3
  else set_gen (bs "X-Mailer") [user_agent] (set_gen (bs "User-Agent") [user_agent] g3).

Definition with_gen (m : msg) (g : list (bytes * list bytes)) : msg :=
  mkmsg (m_charset m) (m_wenc m) g (m_preform m) (m_from m) (m_addr m) (m_parts m) (m_embeds m)
        (m_attach m) (m_bmixed m) (m_brelated m) (m_balt m).

Definition count_nl (s : bytes) : nat := count_crlf s.

(* ---------- resolution: everything writeMsg derives from the Msg and caches in it ---------- *)
Record rmsg := mkrmsg {
  z_msg : msg;                  (* the Msg as it is after the render: defaults, file header caches, boundaries *)
  z_embeds : list (file * enc);
  z_attach : list (file * enc);
  z_bad_mixed : bool; z_bad_related : bool; z_bad_alt : bool   (* SetBoundary rejected the cached boundary *)
}.

Definition nth_rb (n : nat) (rb : list bytes) : bytes := nth n rb [].

Definition resolve (date msgid : bytes) (rb : list bytes) (m : msg) : rmsg :=
  let gen := add_defaults date msgid m in
  let i_rel := if has_mixed m then 1 else 0 in
  let i_alt := i_rel + (if has_related m then 1 else 0) in
  let '(bm, badm) := if has_mixed m then pick_boundary (m_bmixed m) (nth_rb 0 rb) else (m_bmixed m, false) in
  let '(br, badr) := if has_related m then pick_boundary (m_brelated m) (nth_rb i_rel rb) else (m_brelated m, false) in
  let '(ba, bada) := if has_alt m then pick_boundary (m_balt m) (nth_rb i_alt rb) else (m_balt m, false) in
  let embeds := map (file_headers (m_wenc m) false) (m_embeds m) in
  let attach := map (file_headers (m_wenc m) true) (m_attach m) in
  mkrmsg (mkmsg (m_charset m) (m_wenc m) gen (m_preform m) (m_from m) (m_addr m) (m_parts m)
                (map fst embeds) (map fst attach) bm br ba)
         embeds attach badm badr bada.

(* one "if msg.hasX() { boundary = startMP(...); if mw.depth == 1 { writeString(DoubleNewLine) } }" block *)
Definition open_mp (c : bool) (mime b : bytes) (bad : bool) (st : mw) : mw :=
  if c then
    if panicked st then st
    else let s := start_mp mime b bad st in
         if Nat.eqb (depth s) 1 then s |> write_string Gen.double_newline else s
  else st.

Definition close_mp (c : bool) (st : mw) : mw := if c then st |> stop_mp else st.

Definition write_gen_headers (gen : list (bytes * list bytes)) (st : mw) : mw :=
  fold_left (fun s kv => write_header_counted (fst kv) (snd kv) s) (sort_kv gen) st.

Definition write_preformatted (pre : list (bytes * bytes)) (st : mw) : mw :=
  fold_left (fun s kv =>
               let line := fst kv ++ bs ": " ++ snd kv ++ crlf in
               add_hcount (write_string line s) (count_nl line)) (sort_kv pre) st.

Definition write_addr_headers (m : msg) (st : mw) : mw :=
  let st3 := match m_from m with
             | Some f => write_header_counted Gen.hdr_from [f] st
             | None => st
             end in
  fold_left (fun s k =>
               match find (fun kv => bytes_eqb (fst kv) k) (m_addr m) with
               | Some kv => write_header_counted k (snd kv) s
               | None => s
               end) Gen.render_addr_headers st3.

Definition write_parts (encl : bool) (m : msg) (st : mw) : mw :=
  fold_left (fun s p => s |> write_part encl (m_wenc m) (m_charset m) p) (m_parts m) st.

Definition add_files_safe (encl : bool) (files : list (file * enc)) (st : mw) : mw :=
  if panicked st then st else add_files encl files st.

Definition write_top_headers (z : rmsg) (st : mw) : mw :=
  let m := z_msg z in
  write_addr_headers m (write_preformatted (m_preform m) (write_gen_headers (m_gen m) st)).

(* the body entity: multipart layers, parts, embeds, attachments *)
Definition write_entity (encl : bool) (z : rmsg) (st4 : mw) : mw :=
  let m := z_msg z in
  let st5 := open_mp (has_mixed m) Gen.mime_mixed (m_bmixed m) (z_bad_mixed z) st4 in
  let st6 := open_mp (has_related m) Gen.mime_related (m_brelated m) (z_bad_related z) st5 in
  let st7 := open_mp (has_alt m) Gen.mime_alternative (m_balt m) (z_bad_alt z) st6 in
  let st9 := close_mp (has_alt m) (write_parts encl m st7) in
  let st10 := add_files_safe encl (z_embeds z) st9 in
  let st11 := close_mp (has_related m) st10 in
  let st12 := add_files_safe encl (z_attach z) st11 in
  close_mp (has_mixed m) st12.

(* msgWriter.writeMsg (without S/MIME wrapper) on the resolved message; encl = msgWriter.enclosedForm *)
Definition write_resolved_gen (encl : bool) (z : rmsg) (st : mw) : mw :=
  write_entity encl z (write_top_headers z st).

Definition write_resolved (z : rmsg) (st : mw) : mw := write_resolved_gen false z st.

Definition write_msg (date msgid : bytes) (rb : list bytes) (m : msg) (st : mw) : mw * msg :=
  let z := resolve date msgid rb m in
  (write_resolved z st, z_msg z).

Definition mw_init (k : sink) : mw := mkmw k 0 false 0 [] None 0 false.

(* Msg.WriteTo (no S/MIME, no middleware): bytes accepted, returned count, error, panic, new message *)
Record result := mkres { r_out : bytes; r_n : nat; r_err : bool; r_panic : bool; r_msg : msg; r_hcount : nat }.

Definition write_to (date msgid : bytes) (rb : list bytes) (m : msg) (k : sink) : result :=
  let '(st, m') := write_msg date msgid rb m (mw_init k) in
  mkres (accepted (snk st)) (bw st) (err st) (panicked st) m' (hcount st).

Definition unlimited : sink := mksink None false false [].
Definition fail_at (k : nat) (rec : bool) : sink := mksink (Some k) rec false [].
