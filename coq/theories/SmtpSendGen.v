(* SmtpSendGen.v — the instance of the send model that follows the source: expectCode literals, the
   recovery actions of sendSingleMsg, isTempError's unwrapping and the pattern of enhancedStatusCode are
   the values the translator read from the working tree (T1, coq/gen/Gen.v).  This is the model the
   correspondence check runs; the property theorems are proved for [std_expects] / [fixes_all] and
   props/C03.v, C04.v, C20.v contain the obligations [gen_expects = std_expects], [gen_fixes = fixes_all]. *)
From Coq Require Import String.
From Verif Require Export SmtpSend.
From VerifGen Require Import Gen.

Definition gen_expects : expects :=
  mkExp Gen.exp_greet Gen.exp_ehlo Gen.exp_helo Gen.exp_mail Gen.exp_rcpt Gen.exp_data Gen.exp_eod
        Gen.exp_rset Gen.exp_noop Gen.exp_quit Gen.exp_starttls.

Definition gen_fixes : fixes :=
  mkFx Gen.ssm_write_fail_closes Gen.ssm_data_fail_resets Gen.ssm_rset_fail_closes_mail
       Gen.ssm_rset_fail_closes_rcpt Gen.ssm_rset_fail_closes_data Gen.is_temp_error_unwraps Gen.esc_regex
       Gen.ehlo_replaces_ext.

(* isTempError / errorCode / enhancedStatusCode look at the length of the error text before indexing into it;
   the model's classifiers are total functions that agree with the guarded code on empty and short texts *)
Definition gen_len_guards : bool := Gen.senderr_guard_temp && Gen.senderr_guard_code && Gen.senderr_guard_esc.

Definition gen_reasons : list bytes := Gen.send_err_reasons.

Definition std_reasons : list bytes :=
  [bs "ErrGetSender"; bs "ErrGetRcpts"; bs "ErrSMTPMailFrom"; bs "ErrSMTPRcptTo"; bs "ErrSMTPData";
   bs "ErrSMTPDataClose"; bs "ErrSMTPReset"; bs "ErrWriteContent"; bs "ErrConnCheck"; bs "ErrNoUnencoded";
   bs "ErrAmbiguous"].

Definition run_gen (cfg : config) (caps caps_tls : list ext) (script : list decision) (ms : list msg)
           (render : msg -> list bytes * option err) : outcome :=
  run_case gen_expects gen_fixes cfg caps caps_tls script ms render.

Definition run_reset_gen (do_reset : bool) (cfg : config) (caps caps_tls : list ext) (script : list decision)
           (ms1 ms2 : list msg) (render : msg -> list bytes * option err) : outcome2 :=
  run_two_sends do_reset gen_expects gen_fixes cfg caps caps_tls script ms1 ms2 render.
