(* HeaderScan.v — a strict RFC 5322 header-section scanner: the names of the fields of a header
   section, in order.  Written from RFC 5322 2.2 / 2.2.3 only (no knowledge of the writer):
   the section is a sequence of lines ending in CRLF; a line that starts with SP or TAB continues
   the previous field (there must be one); every other line starts a field "name:" whose name
   consists of printable characters other than ':' and space; a bare CR or LF is malformed; an
   empty line ends the section (what follows is the body and is not looked at); the text must
   not stop in the middle of a line. *)
From Verif Require Export Bytes.
Open Scope N_scope.

Definition is_wsp (b : N) : bool := (b =? 32) || (b =? 9).
Definition name_char (b : N) : bool := (33 <=? b) && (b <=? 126) && negb (b =? 58).

Inductive fstate :=
| FLine (have : bool)      (* at the beginning of a line; have: a field has been seen *)
| FEmptyCR                 (* a line began with CR *)
| FName (acc : bytes)      (* inside a field name *)
| FBody (pend : nat).      (* inside a field body; pend = 1: after CR *)

Fixpoint fscan (st : fstate) (s : bytes) : option (list bytes) :=
  match s with
  | [] => match st with FLine _ => Some [] | _ => None end
  | b :: t =>
      match st with
      | FLine have =>
          if is_wsp b then (if have then fscan (FBody 0) t else None)
          else if b =? 13 then fscan FEmptyCR t
          else if name_char b then fscan (FName [b]) t else None
      | FEmptyCR => if b =? 10 then Some [] else None
      | FName acc =>
          if b =? 58 then match fscan (FBody 0) t with Some ns => Some (acc :: ns) | None => None end
          else if name_char b then fscan (FName (acc ++ [b])) t else None
      | FBody O => if b =? 13 then fscan (FBody 1) t else if b =? 10 then None else fscan (FBody 0) t
      | FBody _ => if b =? 10 then fscan (FLine true) t else None
      end
  end.

Definition field_names (s : bytes) : option (list bytes) := fscan (FLine false) s.
