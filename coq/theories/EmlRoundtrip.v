(* EmlRoundtrip.v — C10: the statement side of "parse (render m) shows the message m again":
   the feature set, the observables of the property text on both sides, and the canonical field tree
   (what textproto makes of the header blocks the writer produces). *)
From Coq Require Import String.
From Verif Require Import Bytes Base64 LineBreaker QP HeaderFold WordEnc Writer MimeTree Render.
From Verif Require Import Eml EmlFront.
From VerifGen Require Import Gen.

(* ---------- the observables of the property text ---------- *)
Record proj := mkproj {
  pj_subject : option bytes;                      (* the Subject value as stored (RFC 2047 form) *)
  pj_from : list bytes; pj_to : list bytes; pj_cc : list bytes;   (* formatted addresses *)
  pj_date : option bytes;
  pj_parts : list (bytes * bytes * bytes);        (* type, charset, content *)
  pj_atts : list (bytes * bytes);                 (* name, bytes *)
  pj_embs : list (bytes * bytes)
}.

(* … of a parsed message (the getters of the Msg the parser filled) *)
Definition project_parsed (st : mstate) : proj :=
  mkproj (map_get (Eml.m_gen st) hdr_subject)
         (a_from (m_addrs st)) (a_to (m_addrs st)) (a_cc (m_addrs st))
         (map_get (Eml.m_gen st) hdr_date)
         (map (fun p => (p_ct p, p_cs p, p_content p)) (Eml.m_parts st))
         (map (fun f => (fo_name f, fo_bytes f)) (m_atts st))
         (map (fun f => (fo_name f, fo_bytes f)) (m_embs st)).

(* … of the message that was built (Writer.msg) rendered on date [d] *)
Definition content_of (p : producer) : bytes := concat (pchunks p).
Definition expected_content (e : Writer.enc) (c : bytes) : bytes :=
  match e with EncQP => canon_crlf c | _ => c end.
Definition addr_list (k : bytes) (m : Writer.msg) : list bytes :=
  match find (fun kv => bytes_eqb (fst kv) k) (m_addr m) with Some kv => snd kv | None => [] end.
Definition gen_value (k : bytes) (m : Writer.msg) : option bytes :=
  match find (fun kv => bytes_eqb (fst kv) k) (Writer.m_gen m) with
  | Some (_, v :: _) => Some v
  | _ => None
  end.

Definition project_built (d : bytes) (m : Writer.msg) : proj :=
  mkproj (gen_value hdr_subject m)
         (match m_from m with Some f => [f] | None => [] end) (addr_list hdr_to m) (addr_list hdr_cc m)
         (Some d)
         (map (fun p => (Writer.p_ctype p, part_cs (Writer.m_charset m) p,
                         expected_content (Writer.p_enc p) (content_of (p_prod p)))) (Writer.m_parts m))
         (map (fun f => (f_name f, content_of (f_prod f))) (m_attach m))
         (map (fun f => (f_name f, content_of (f_prod f))) (m_embeds m)).

(* ---------- the feature set ---------- *)
(* header values: printable ASCII and single blanks between non-empty words (what survives
   textproto's trimming of folded lines); non-empty *)
Definition word_byte (b : N) : bool := (33 <=? b)%N && (b <=? 126)%N.
Definition good_word (w : bytes) : bool := negb (is_empty w) && forallb word_byte w.
Definition good_value (v : bytes) : bool := forallb good_word (split_on 32 v).

(* a body part: text/plain or text/html, charset = the message's (UTF-8), no description,
   quoted-printable / base64 / 8bit, producer that does not fail, well-formed bytes,
   CRLF/LF text for quoted-printable *)
Definition part_ok (p : Writer.part) : bool :=
  (bytes_eqb (Writer.p_ctype p) type_text_plain || bytes_eqb (Writer.p_ctype p) type_text_html)
  && (is_empty (p_charset p) || bytes_eqb (p_charset p) charset_utf8)
  && is_empty (p_desc p)
  && match Writer.p_enc p with
     | EncQP => no_bare_cr (content_of (p_prod p))
     | EncB64 | Enc8bit => true
     | EncOther _ => false
     end
  && negb (pfail (p_prod p)) && wf_bytes (content_of (p_prod p)).

(* a file as AttachReader / EmbedReader create it (empty header cache, base64), with a name the
   writer puts on the wire unchanged (no byte sanitized, no RFC 2047 encoding, no ';') and a media
   type that is a plain token/token *)
Definition name_ok (n : bytes) : bool :=
  negb (is_empty n) && forallb (fun b => (32 <=? b)%N && (b <=? 126)%N && negb (sanitize_bad b) && negb (N.eqb b 59)) n
  && good_value n.
Definition mime_ok (t : bytes) : bool :=
  good_word t && forallb (fun b => negb (N.eqb b 59) && negb (N.eqb b 61)) t
  && negb (eqfold t type_multipart_related) && negb (eqfold t type_multipart_alternative).
Definition file_ok (f : Writer.file) : bool :=
  name_ok (f_name f) && mime_ok (f_mime f) && match f_hdr f with [] => true | _ => false end && is_empty (f_desc f)
  && match f_enc f with None => true | Some _ => false end
  && negb (pfail (f_prod f)) && wf_bytes (content_of (f_prod f)).

(* the address fields: From, a non-empty To, optionally a non-empty Cc (Reply-To is not parsed) *)
Definition addr_ok (m : Writer.msg) : bool :=
  match m_from m with Some f => good_value f | None => false end
  && match m_addr m with
     | [(k1, tos)] => bytes_eqb k1 hdr_to && negb (Nat.eqb (length tos) 0) && good_value (join (bs ", ") tos)
     | [(k1, tos); (k2, ccs)] =>
         bytes_eqb k1 hdr_to && negb (Nat.eqb (length tos) 0) && good_value (join (bs ", ") tos)
         && bytes_eqb k2 hdr_cc && negb (Nat.eqb (length ccs) 0) && good_value (join (bs ", ") ccs)
     | _ => false
     end.

Definition in_feature_set (m : Writer.msg) : bool :=
  bytes_eqb (Writer.m_charset m) charset_utf8
  && match Writer.m_gen m with
     | [(k, [sv])] => bytes_eqb k hdr_subject && good_value sv
     | _ => false
     end
  && match m_preform m with [] => true | _ => false end
  && addr_ok m
  && negb (Nat.eqb (length (Writer.m_parts m)) 0) && forallb part_ok (Writer.m_parts m)
  && forallb file_ok (m_embeds m) && forallb file_ok (m_attach m)
  && is_empty (m_bmixed m) && is_empty (m_brelated m) && is_empty (m_balt m).

(* ---------- the canonical field tree of a resolved message ---------- *)
Definition fld (k v : bytes) : bytes * bytes := (canon k, v).

Definition cpart_fields (m : Writer.msg) (p : Writer.part) : hdr :=
  [fld h_cte (enc_name (Writer.p_enc p)); fld h_ctype (part_ctype (Writer.m_charset m) p)].

Definition cfile_fields (f : Writer.file) : hdr :=
  map (fun kv => fld (fst kv) (snd kv)) (sort_kv (f_hdr f)).

Definition mp_ctype (mime b : bytes) : bytes := bs "multipart/" ++ mime ++ bs "; boundary=" ++ b.

Definition cpart_leaf (m : Writer.msg) (p : Writer.part) : fnode :=
  FLeaf (cpart_fields m p) (encode_body (Writer.p_enc p) (p_prod p)).
Definition cfile_leaf (fe : Writer.file * Writer.enc) : fnode :=
  FLeaf (cfile_fields (fst fe)) (encode_body (snd fe) (f_prod (fst fe))).

Definition cnest (c : bool) (mime b : bytes) (kids : list fnode) : list fnode :=
  if c then [FMulti [fld h_ctype (mp_ctype mime b)] kids] else kids.

(* mirrors C01Proofs.expected_forest: alternative layer iff >= 2 parts, related iff >= 1 embed,
   mixed iff >= 1 attachment *)
Definition cforest (z : rmsg) : list fnode :=
  let m := z_msg z in
  let alt := cnest (Nat.leb 2 (length (Writer.m_parts m))) mime_alternative (m_balt m)
                   (map (cpart_leaf m) (Writer.m_parts m)) in
  let rel := cnest (Nat.leb 1 (length (z_embeds z))) mime_related (m_brelated m)
                   (alt ++ map cfile_leaf (z_embeds z)) in
  cnest (Nat.leb 1 (length (z_attach z))) mime_mixed (m_bmixed m) (rel ++ map cfile_leaf (z_attach z)).

Definition fprepend (top : hdr) (f : fnode) : fnode :=
  match f with
  | FLeaf h b => FLeaf (top ++ h) b
  | FMulti h k => FMulti (top ++ h) k
  end.

Definition gen_fields (gen : list (bytes * list bytes)) : hdr :=
  map (fun kv => fld (fst kv) (join (bs ", ") (snd kv))) (sort_kv gen).
Definition addr_fields (m : Writer.msg) : hdr :=
  (match m_from m with Some f => [fld hdr_from f] | None => [] end) ++
  flat_map (fun k => match find (fun kv => bytes_eqb (fst kv) k) (m_addr m) with
                     | Some kv => [fld k (join (bs ", ") (snd kv))]
                     | None => []
                     end) render_addr_headers.
Definition ctop_fields (m : Writer.msg) : hdr := gen_fields (Writer.m_gen m) ++ addr_fields m.

(* the message as one entity *)
Definition ctree (z : rmsg) : fnode :=
  match cforest z with
  | [t] => fprepend (ctop_fields (z_msg z)) t
  | _ => FLeaf [] []
  end.

(* ---------- hypotheses of the round-trip theorem that are not properties of the message ---------- *)
(* H-addr / H-date (net/mail, oracle): parsing a formatted address (list) gives the addresses whose
   formatted form it is; parsing the Date go-mail wrote and formatting it RFC1123Z gives it again *)
Definition oracles_ok (pa pl : bytes -> ares) (pd : bytes -> dres) (d : bytes) (m : Writer.msg) : Prop :=
  (forall f, m_from m = Some f -> pa f = AOk [f]) /\
  (forall k l, In (k, l) (m_addr m) -> pl (join (bs ", ") l) = AOk l) /\
  pd d = DOk d.

(* H-rand': the boundaries in use are RFC 2045 tokens (Go's random boundaries are hex digits) *)
Definition boundaries_ok (z : rmsg) : bool :=
  let m := z_msg z in
  (negb (Nat.leb 2 (length (Writer.m_parts m))) || is_token (m_balt m))
  && (negb (Nat.leb 1 (length (z_embeds z))) || is_token (m_brelated m))
  && (negb (Nat.leb 1 (length (z_attach z))) || is_token (m_bmixed m)).

(* ---------- the parsed state, in full ---------- *)
Definition part_obs (m : Writer.msg) (p : Writer.part) : pobs :=
  mkp (Writer.p_ctype p) charset_utf8 (enc_name (Writer.p_enc p))
      (expected_content (Writer.p_enc p) (content_of (p_prod p))).
Definition file_obs (is_att : bool) (f : Writer.file) : fobs :=
  mkf (f_name f) (if is_att then [] else bs "<" ++ f_name f ++ bs ">") (content_of (f_prod f)).

(* the generic headers parseEMLHeaders stores for a rendering of a feature-set message *)
Definition parsed_gen (d i sv : bytes) : list (bytes * bytes) :=
  [(hdr_date, d); (hdr_message_id, i); (hdr_mime_version, bs "1.0"); (hdr_subject, sv);
   (hdr_user_agent, user_agent); (hdr_x_mailer, user_agent)].

(* Msg.encoding after the parse: the part's for a single-part message, the default otherwise *)
Definition expected_enc (m : Writer.msg) : bytes :=
  match Writer.m_parts m, m_embeds m, m_attach m with
  | [p], [], [] => enc_name (Writer.p_enc p)
  | _, _, _ => enc_qp
  end.

Definition parsed_as (d i : bytes) (m : Writer.msg) (st : mstate) : Prop :=
  Eml.m_charset st = charset_utf8 /\ m_enc st = expected_enc m /\
  Eml.m_parts st = map (part_obs m) (Writer.m_parts m) /\
  m_embs st = map (file_obs false) (m_embeds m) /\
  m_atts st = map (file_obs true) (m_attach m) /\
  (exists sv, gen_value hdr_subject m = Some sv /\ Eml.m_gen st = parsed_gen d i sv) /\
  m_addrs st = mka (match m_from m with Some f => [f] | None => [] end) (addr_list hdr_to m) (addr_list hdr_cc m) [].
