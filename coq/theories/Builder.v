(* The part / file builder calls of msg.go as operations on the message value.
   SetBodyString/Writer/...Template   -> m.parts = []*Part{p}
   AddAlternativeString/Writer/...    -> m.parts = append(m.parts, p)
   Attach* / Embed*                   -> appendFile(m.attachments / m.embeds, f)
   SetAttachments / SetEmbeds         -> replace the list
   UnsetAllAttachments / UnsetAllEmbeds -> nil
   UnsetAllParts                      -> UnsetAllAttachments + UnsetAllEmbeds  (sic: the body parts stay)
   Reset                              -> address and generic headers, attachments, embeds and parts are dropped
   newPart: the part takes the message's charset and encoding unless an option overrides them. *)
From Verif Require Import Bytes Writer.
From Coq Require Import List.
Import ListNotations.

Record bstate := mkb { b_enc : enc; b_msg : msg }.

Inductive bop :=
| BSetBody (ct : bytes) (e : option enc) (cs : option bytes) (desc : bytes) (pr : producer)
| BAddAlt (ct : bytes) (e : option enc) (cs : option bytes) (desc : bytes) (pr : producer)
| BAttach (f : file)
| BEmbed (f : file)
| BSetAttach (fs : list file)
| BSetEmbeds (fs : list file)
| BUnsetAttach
| BUnsetEmbeds
| BUnsetParts
| BReset.

Definition or_default {A} (o : option A) (d : A) : A := match o with Some x => x | None => d end.

Definition new_part (st : bstate) (ct : bytes) (e : option enc) (cs : option bytes) (desc : bytes) (pr : producer) : part :=
  mkpart ct (or_default cs (m_charset (b_msg st))) (or_default e (b_enc st)) desc pr.

Definition with_parts (m : msg) (ps : list part) : msg :=
  mkmsg (m_charset m) (m_wenc m) (m_gen m) (m_preform m) (m_from m) (m_addr m) ps (m_embeds m) (m_attach m)
        (m_bmixed m) (m_brelated m) (m_balt m).
Definition with_embeds (m : msg) (fs : list file) : msg :=
  mkmsg (m_charset m) (m_wenc m) (m_gen m) (m_preform m) (m_from m) (m_addr m) (m_parts m) fs (m_attach m)
        (m_bmixed m) (m_brelated m) (m_balt m).
Definition with_attach (m : msg) (fs : list file) : msg :=
  mkmsg (m_charset m) (m_wenc m) (m_gen m) (m_preform m) (m_from m) (m_addr m) (m_parts m) (m_embeds m) fs
        (m_bmixed m) (m_brelated m) (m_balt m).
Definition reset_msg (m : msg) : msg :=
  mkmsg (m_charset m) (m_wenc m) [] (m_preform m) None [] [] [] [] (m_bmixed m) (m_brelated m) (m_balt m).

Definition on_msg (st : bstate) (f : msg -> msg) : bstate := mkb (b_enc st) (f (b_msg st)).

Definition apply_bop (st : bstate) (o : bop) : bstate :=
  match o with
  | BSetBody ct e cs d pr => on_msg st (fun m => with_parts m [new_part st ct e cs d pr])
  | BAddAlt ct e cs d pr => on_msg st (fun m => with_parts m (m_parts m ++ [new_part st ct e cs d pr]))
  | BAttach f => on_msg st (fun m => with_attach m (m_attach m ++ [f]))
  | BEmbed f => on_msg st (fun m => with_embeds m (m_embeds m ++ [f]))
  | BSetAttach fs => on_msg st (fun m => with_attach m fs)
  | BSetEmbeds fs => on_msg st (fun m => with_embeds m fs)
  | BUnsetAttach => on_msg st (fun m => with_attach m [])
  | BUnsetEmbeds => on_msg st (fun m => with_embeds m [])
  | BUnsetParts => on_msg st (fun m => with_embeds (with_attach m []) [])
  | BReset => on_msg st reset_msg
  end.

Definition build (st : bstate) (ops : list bop) : bstate := fold_left apply_bop ops st.

(* ---- what the caller asked for, list by list (each looks only at the calls that concern it) ---- *)
Definition parts_step (e : enc) (cs : bytes) (acc : list part) (o : bop) : list part :=
  match o with
  | BSetBody ct oe ocs d pr => [mkpart ct (or_default ocs cs) (or_default oe e) d pr]
  | BAddAlt ct oe ocs d pr => acc ++ [mkpart ct (or_default ocs cs) (or_default oe e) d pr]
  | BReset => []
  | _ => acc
  end.
Definition attach_step (acc : list file) (o : bop) : list file :=
  match o with
  | BAttach f => acc ++ [f]
  | BSetAttach fs => fs
  | BUnsetAttach | BUnsetParts | BReset => []
  | _ => acc
  end.
Definition embeds_step (acc : list file) (o : bop) : list file :=
  match o with
  | BEmbed f => acc ++ [f]
  | BSetEmbeds fs => fs
  | BUnsetEmbeds | BUnsetParts | BReset => []
  | _ => acc
  end.

Definition parts_asked (st : bstate) (ops : list bop) : list part :=
  fold_left (parts_step (b_enc st) (m_charset (b_msg st))) ops (m_parts (b_msg st)).
Definition attach_asked (st : bstate) (ops : list bop) : list file := fold_left attach_step ops (m_attach (b_msg st)).
Definition embeds_asked (st : bstate) (ops : list bop) : list file := fold_left embeds_step ops (m_embeds (b_msg st)).

(* an empty message with the given defaults and headers *)
Definition empty_state (e : enc) (m0 : msg) : bstate := mkb e (with_attach (with_embeds (with_parts m0 []) []) []).
