(* EmlFront.v — the Go standard library in front of the EML parser, as executable Gallina, for
   go-mail's own renderings (C10).

   Eml.v takes the results of the stdlib as oracle arguments (an [entity] tree).  Here those results
   are COMPUTED from the bytes, so that "parse (render m)" is one Gallina function:

     bytes --MimeRead.read_tree--> node  --fnode_of_node--> fnode --entity_of_fnode--> entity --> Eml.parse_eml
              (RFC 5322/2046 reader)       (textproto.ReadMIMEHeader)  (mime.ParseMediaType, multipart.Part's
                                                                        transparent quoted-printable decoding,
                                                                        the transfer decoders)

   Every stage models what the stdlib does on well-formed input and refuses (None / MTErr) otherwise.
   It is tied to the real net/mail + mime + multipart + go-mail parser by the correspondence kind
   "front" of harness/c10 (eml_parse on the rendered bytes vs the getters of the really parsed Msg).
   net/mail's address and date parsers stay oracles (functions handed in). *)
From Coq Require Import String.
From Verif Require Export Bytes Base64 QP MimeTree MimeRead Eml.
From VerifGen Require Import Gen.

(* ---------- textproto.Reader.ReadMIMEHeader ---------- *)
Definition is_sptab (b : N) : bool := N.eqb b 32 || N.eqb b 9.

Fixpoint trim_left (s : bytes) : bytes :=
  match s with
  | b :: t => if is_sptab b then trim_left t else s
  | [] => []
  end.
(* strip trailing SP / TAB *)
Fixpoint trim_right (s : bytes) : bytes :=
  match s with
  | [] => []
  | b :: t => match trim_right t with
              | [] => if is_sptab b then [] else [b]
              | r => b :: r
              end
  end.
Definition trim (s : bytes) : bytes := trim_right (trim_left s).

(* the physical lines of a block of complete lines (each ends in CRLF) *)
Fixpoint block_lines (cur : bytes) (s : bytes) : option (list bytes) :=
  match s with
  | [] => match cur with [] => Some [] | _ => None end           (* an unterminated line: refused *)
  | b :: t =>
      if N.eqb b 13 then
        match t with
        | c :: t' => if N.eqb c 10
                     then match block_lines [] t' with Some ls => Some (rev cur :: ls) | None => None end
                     else None                                      (* bare CR *)
        | [] => None
        end
      else if N.eqb b 10 then None else block_lines (b :: cur) t
  end.

(* key: value — split at the first ':' *)
Fixpoint cut_colon (s : bytes) : option (bytes * bytes) :=
  match s with
  | [] => None
  | b :: t => if N.eqb b 58 then Some ([], t)
              else match cut_colon t with Some (k, v) => Some (b :: k, v) | None => None end
  end.

Definition key_char (b : N) : bool := (33 <=? b)%N && (b <=? 126)%N && negb (N.eqb b 58).

Fixpoint sequence_o {A : Type} (l : list (option A)) : option (list A) :=
  match l with
  | [] => Some []
  | Some x :: r => match sequence_o r with Some xs => Some (x :: xs) | None => None end
  | None :: _ => None
  end.

(* readContinuedLineSlice: a line starting with SP/TAB continues the previous one; the logical line
   is the trimmed first line followed, for every continuation, by one blank and the trimmed text *)
Fixpoint logical_lines (ls : list bytes) (acc : list bytes) : option (list bytes) :=
  match ls with
  | [] => Some (rev acc)
  | l :: rest =>
      match l with
      | [] => None                                                  (* empty line inside a block *)
      | b :: _ =>
          if is_sptab b then
            match acc with
            | cur :: acc' => logical_lines rest ((cur ++ 32%N :: trim l) :: acc')
            | [] => None
            end
          else logical_lines rest (trim l :: acc)
      end
  end.

(* key ":" value; the key is canonicalised, the value loses its leading blanks *)
Definition field_of_line (l : bytes) : option (bytes * bytes) :=
  match cut_colon l with
  | Some (k, v) =>
      if forallb key_char k && negb (is_empty k) then Some (canon k, trim_left v) else None
  | None => None
  end.

Definition fields_of_lines (ls : list bytes) : option (list (bytes * bytes)) :=
  match logical_lines ls [] with
  | Some lls => sequence_o (map field_of_line lls)
  | None => None
  end.

Definition fields_of_block (h : bytes) : option hdr :=
  match block_lines [] h with
  | Some ls => fields_of_lines ls
  | None => None
  end.

(* ---------- mime.ParseMediaType ---------- *)
(* RFC 2045 token characters *)
Definition tspecial (b : N) : bool :=
  existsb (N.eqb b) [40; 41; 60; 62; 64; 44; 59; 58; 92; 34; 47; 91; 93; 63; 61]%N.
Definition token_char (b : N) : bool := (33 <=? b)%N && (b <=? 126)%N && negb (tspecial b).

Fixpoint take_token (s : bytes) : bytes * bytes :=
  match s with
  | b :: t => if token_char b then let '(a, r) := take_token t in (b :: a, r) else ([], s)
  | [] => ([], [])
  end.

(* the text of a quoted-string after its opening quote: (value, rest after the closing quote) *)
Fixpoint take_quoted (s : bytes) : option (bytes * bytes) :=
  match s with
  | [] => None
  | b :: t =>
      if N.eqb b 34 then Some ([], t)
      else if N.eqb b 92 then
        match t with
        | c :: t' => match take_quoted t' with Some (a, r) => Some (c :: a, r) | None => None end
        | [] => None
        end
      else if N.eqb b 13 || N.eqb b 10 then None
      else match take_quoted t with Some (a, r) => Some (b :: a, r) | None => None end
  end.

Definition lower_bytes (s : bytes) : bytes := map lower_ascii s.

(* "; name=value" repeated; only white space may follow the last parameter *)
Fixpoint media_params (fuel : nat) (s : bytes) (acc : pmap) : option pmap :=
  match fuel with
  | O => None
  | S f =>
      match trim_left s with
      | [] => Some acc
      | c0 :: t =>
          if negb (N.eqb c0 59) then None
          else
            let '(name, r1) := take_token (trim_left t) in
            match name, r1 with
            | [], [] => Some acc                                     (* trailing ';' *)
            | [], _ => None
            | _ :: _, [] => None
            | _ :: _, c1 :: r2 =>
                if negb (N.eqb c1 61) then None
                else
                  let key := lower_bytes name in
                  match map_get acc key with
                  | Some _ => None                                   (* duplicate parameter *)
                  | None =>
                      let quoted := match r2 with c2 :: _ => N.eqb c2 34 | [] => false end in
                      if quoted then
                        match take_quoted (tl r2) with
                        | Some (v, r3) => media_params f r3 (acc ++ [(key, v)])
                        | None => None
                        end
                      else
                        let '(v, r3) := take_token r2 in
                        if is_empty v then None else media_params f r3 (acc ++ [(key, v)])
                  end
            end
      end
  end.

Fixpoint cut_semi (s : bytes) : bytes * bytes :=
  match s with
  | [] => ([], [])
  | b :: t => if N.eqb b 59 then ([], s) else let '(a, r) := cut_semi t in (b :: a, r)
  end.

Fixpoint cut_slash (s : bytes) : option (bytes * bytes) :=
  match s with
  | [] => None
  | b :: t => if N.eqb b 47 then Some ([], t)
              else match cut_slash t with Some (a, r) => Some (b :: a, r) | None => None end
  end.

Definition is_token (s : bytes) : bool := negb (is_empty s) && forallb token_char s.

Definition media_type (v : bytes) : mtres :=
  let '(base, rest) := cut_semi v in
  let mt := lower_bytes (trim base) in
  if is_empty mt then MTNone
  else
    let valid := match cut_slash mt with
                 | Some (a, b) => is_token a && is_token b
                 | None => is_token mt
                 end in
    if negb valid then MTErr
    else match media_params (S (length rest)) rest [] with
         | Some ps => MTOk mt (map_get ps (bs "charset")) (is_some (map_get ps (bs "boundary")))
         | None => MTErr
         end.

(* ---------- the transfer decoders ---------- *)
(* base64.NewDecoder / DecodeString ignore CR and LF *)
Definition dec_b64 (s : bytes) : option bytes := b64dec (strip_crlf s).
(* quotedprintable.Reader *)
Definition dec_qp (s : bytes) : option bytes := qp_decode s.

Definition bits_of_body (body : bytes) : bits :=
  mkbits true body (dec_qp body) (dec_b64 body) (dec_b64 body).

(* ---------- stage A: header blocks become field lists ---------- *)
Inductive fnode :=
| FLeaf (h : hdr) (body : bytes)
| FMulti (h : hdr) (kids : list fnode).

Fixpoint fnode_of_node (t : node) : option fnode :=
  match t with
  | Leaf h body => match fields_of_block h with Some f => Some (FLeaf f body) | None => None end
  | Multi h _ kids =>
      match fields_of_block h, sequence_o (map fnode_of_node kids) with
      | Some f, Some ks => Some (FMulti f ks)
      | _, _ => None
      end
  end.

(* ---------- stage B: what the parser is handed ---------- *)
Definition fhdr (f : fnode) : hdr := match f with FLeaf h _ => h | FMulti h _ => h end.

Fixpoint drop_key (k : bytes) (h : hdr) : hdr :=
  match h with
  | [] => []
  | (k', v) :: t => if bytes_eqb k' k then drop_key k t else (k', v) :: drop_key k t
  end.

(* multipart.Reader.NextPart: a part whose Content-Transfer-Encoding is quoted-printable is decoded
   transparently and loses that header field.  [is_part] = false for the message itself. *)
Definition part_view (is_part : bool) (h : hdr) (body : bytes) : hdr * bytes * bool :=
  if is_part && eqfold (hget h hdr_content_transfer_enc) enc_qp then
    match dec_qp body with
    | Some d => (drop_key (canon hdr_content_transfer_enc) h, d, true)
    | None => (drop_key (canon hdr_content_transfer_enc) h, [], false)     (* the read fails *)
    end
  else (h, body, true).

Definition container_bits : bits := mkbits true [] None None None.

Fixpoint entity_of_fnode (is_part : bool) (f : fnode) : entity :=
  match f with
  | FLeaf h body =>
      let '(h', body', ok) := part_view is_part h body in
      let b := bits_of_body body' in
      Entity h' (media_type (hget h hdr_content_type))
             (mkbits ok (raw b) (qp_dec b) (b64s_dec b) (b64d_dec b)) [] true
  | FMulti h kids =>
      Entity h (media_type (hget h hdr_content_type)) container_bits
             (map (entity_of_fnode true) kids) true
  end.

(* ---------- the whole parser on bytes ---------- *)
Section Oracles.
(* net/mail: ParseAddress (From), ParseAddressList (To, Cc, Bcc), Header.Date *)
Context (parse_addr parse_list : bytes -> ares) (parse_date : bytes -> dres).

Definition addr_field (p : bytes -> ares) (h : hdr) (k : bytes) : ares :=
  let v := hget h k in if is_empty v then ANone else p v.

Definition top_of_fnode (f : fnode) : top :=
  let h := fhdr f in
  mktop true (addr_field parse_addr h hdr_from) (addr_field parse_list h hdr_to)
        (addr_field parse_list h hdr_cc) (addr_field parse_list h hdr_bcc)
        (if is_empty (hget h hdr_date) then DNone else parse_date (hget h hdr_date))
        (entity_of_fnode false f).

Definition eml_parse_tree (t : node) : outcome mstate :=
  match fnode_of_node t with
  | Some f => parse_eml_fixed (top_of_fnode f)
  | None => Err
  end.

Definition eml_parse (s : bytes) : outcome mstate :=
  match read_tree s with
  | Some t => eml_parse_tree t
  | None => Err
  end.
End Oracles.
