(* Locks.v — C13: mutex / goroutine small-step interleaving semantics, lock programs taken from the
   source (Gen.v, T1e), the static disciplines (bracket, lockset) and the executable stream
   functions used by the correspondence check.  Definitions only; proofs are in
   proofs/LocksProofs.v.

   Semantics.  A goroutine is a list of events, a pool maps goroutine ids (nat) to the events
   they still have to execute (ids beyond the started goroutines map to []), a schedule is a
   list of goroutine ids.  CHOICE: a scheduled goroutine whose next event is not enabled
   (Lock on a held mutex, RLock on an exclusively held mutex, Unlock/RUnlock of a mutex that is not
   held — a fatal error in Go) or that has terminated is SKIPPED (the step is a no-op), so every
   list of ids is a schedule and "for all schedules" is literally [forall s : list nat].
   sync.RWMutex is modelled by (exclusive flag, reader count); Go's writer preference (a
   pending Lock blocks new RLocks) is not modelled: the model has MORE behaviours than the
   runtime, which is the safe direction for the safety theorems proved about it. *)
From Coq Require Import String.
From Verif Require Export Bytes.
From VerifGen Require Import Gen.

Inductive rw : Type := R | W.

Inductive event : Type :=
  | Lock (m : N) | RLock (m : N) | Unlock (m : N) | RUnlock (m : N)
  | Conn (k : N) (c : bytes)          (* command (or data block) c written to / answered on connection k *)
  | Acc (o : N) (a : rw).             (* access to shared memory object o *)

Record mst : Type := { excl : bool; rdrs : nat }.
Definition mmap : Type := N -> mst.
Definition m0 : mmap := fun _ => {| excl := false; rdrs := 0%nat |}.
Definition mupd (mu : mmap) (m : N) (v : mst) : mmap := fun x => if N.eqb x m then v else mu x.

Definition enabled (mu : mmap) (e : event) : bool :=
  match e with
  | Lock m => negb (excl (mu m)) && Nat.eqb (rdrs (mu m)) 0
  | RLock m => negb (excl (mu m))
  | Unlock m => excl (mu m)
  | RUnlock m => negb (Nat.eqb (rdrs (mu m)) 0)
  | _ => true
  end.

Definition apply_ev (mu : mmap) (e : event) : mmap :=
  match e with
  | Lock m => mupd mu m {| excl := true; rdrs := rdrs (mu m) |}
  | RLock m => mupd mu m {| excl := excl (mu m); rdrs := S (rdrs (mu m)) |}
  | Unlock m => mupd mu m {| excl := false; rdrs := rdrs (mu m) |}
  | RUnlock m => mupd mu m {| excl := excl (mu m); rdrs := pred (rdrs (mu m)) |}
  | _ => mu
  end.

Definition pool : Type := nat -> list event.
Definition pupd (p : pool) (i : nat) (t : list event) : pool := fun j => if Nat.eqb j i then t else p j.
Definition pool_of (l : list (list event)) : pool := fun i => nth i l [].

(* [tr] is the history, newest first: (goroutine id, event) *)
Record cfg : Type := { thr : pool; mu : mmap; tr : list (nat * event) }.

Definition step (c : cfg) (i : nat) : cfg :=
  match thr c i with
  | [] => c
  | e :: t =>
      if enabled (mu c) e
      then {| thr := pupd (thr c) i t; mu := apply_ev (mu c) e; tr := (i, e) :: tr c |}
      else c
  end.

Definition run (c : cfg) (s : list nat) : cfg := fold_left step s c.
Definition init (p : pool) : cfg := {| thr := p; mu := m0; tr := [] |}.
Definition trace (c : cfg) : list (nat * event) := rev (tr c).
(* the same list computed in linear time (used by the extracted model; equality proved in LocksProofs) *)
Definition trace_fast (c : cfg) : list (nat * event) := rev_append (tr c) [].

Definition conn_of (k : N) (e : event) : option bytes :=
  match e with
  | Conn k' c => if N.eqb k' k then Some c else None
  | _ => None
  end.
Definition is_conn (k : N) (e : event) : bool := match conn_of k e with Some _ => true | None => false end.

(* the command stream seen on connection k *)
Fixpoint cmds (k : N) (l : list event) : list bytes :=
  match l with
  | [] => []
  | e :: t => match conn_of k e with Some c => c :: cmds k t | None => cmds k t end
  end.
Definition conn_proj (k : N) (h : list (nat * event)) : list bytes := cmds k (map snd h).

Definition on_mutex (m : N) (e : event) : bool :=
  match e with
  | Lock x | RLock x | Unlock x | RUnlock x => N.eqb x m
  | _ => false
  end.
Definition is_lock (m : N) (e : event) : bool := match e with Lock x => N.eqb x m | _ => false end.
Definition is_unlock (m : N) (e : event) : bool := match e with Unlock x => N.eqb x m | _ => false end.
Definition quiet (m : N) (t : list event) : bool := forallb (fun e => negb (on_mutex m e)) t.

(* ---------------------------------------------------------------------------------------------
   Bracket discipline w.r.t. the send mutex [sm] and the shared connection [k]:
   a goroutine is Before its critical section, Inside it or After it.  [scan] accepts exactly the
   goroutines that touch connection k only Inside, take sm exactly by Lock ... Unlock (at most once)
   and do not end Inside.  A goroutine that never locks sm and never touches k is accepted (a
   DialAndSend goroutine working on its private connection). *)
Inductive phase : Type := Before | Inside | After.
Definition phase_eqb (a b : phase) : bool :=
  match a, b with Before, Before | Inside, Inside | After, After => true | _, _ => false end.

Fixpoint scan (sm k : N) (ph : phase) (t : list event) : bool :=
  match t with
  | [] => negb (phase_eqb ph Inside)
  | e :: t' =>
      match ph with
      | Before => if is_lock sm e then scan sm k Inside t'
                  else negb (on_mutex sm e) && negb (is_conn k e) && scan sm k Before t'
      | Inside => if is_unlock sm e then scan sm k After t'
                  else negb (on_mutex sm e) && scan sm k Inside t'
      | After => negb (on_mutex sm e) && negb (is_conn k e) && scan sm k After t'
      end
  end.

(* the commands the critical section (still) has to put on connection k *)
Fixpoint fut (sm k : N) (ph : phase) (t : list event) : list bytes :=
  match t with
  | [] => []
  | e :: t' =>
      match ph with
      | Before => if is_lock sm e then fut sm k Inside t' else fut sm k Before t'
      | Inside => if is_unlock sm e then []
                  else match conn_of k e with Some c => c :: fut sm k Inside t' | None => fut sm k Inside t' end
      | After => []
      end
  end.
Definition body (sm k : N) (t : list event) : list bytes := fut sm k Before t.

(* ---------------------------------------------------------------------------------------------
   Lockset discipline.  Every shared object is Guarded by a mutex, thread-Private, or ReadOnly. *)
Inductive obj : Type := OConn (k : N) | OMem (o : N).
Definition obj_eqb (a b : obj) : bool :=
  match a, b with
  | OConn x, OConn y | OMem x, OMem y => N.eqb x y
  | _, _ => false
  end.
Inductive protection : Type := Guarded (m : N) | Private | ReadOnly.

(* a command on a connection is a write access to the connection object *)
Definition access (e : event) : option (obj * rw) :=
  match e with
  | Conn k _ => Some (OConn k, W)
  | Acc o a => Some (OMem o, a)
  | _ => None
  end.
Definition is_w (a : rw) : bool := match a with W => true | R => false end.
Definition conflict (e1 e2 : event) : bool :=
  match access e1, access e2 with
  | Some (o1, a1), Some (o2, a2) => obj_eqb o1 o2 && (is_w a1 || is_w a2)
  | _, _ => false
  end.

(* what one goroutine holds: per mutex (exclusive?, number of read locks) *)
Definition held : Type := N -> bool * nat.
Definition h0 : held := fun _ => (false, 0%nat).
Definition hupd (h : held) (m : N) (v : bool * nat) : held := fun x => if N.eqb x m then v else h x.
Definition held_after (h : held) (e : event) : held :=
  match e with
  | Lock m => hupd h m (true, snd (h m))
  | Unlock m => hupd h m (false, snd (h m))
  | RLock m => hupd h m (fst (h m), S (snd (h m)))
  | RUnlock m => hupd h m (fst (h m), pred (snd (h m)))
  | _ => h
  end.

(* [disc prot h t]: starting with lockset h, goroutine t locks only what it does not hold, unlocks
   only what it holds, writes Guarded objects with the guard held exclusively, reads them with
   the guard held in either mode, and never writes a ReadOnly object. *)
Fixpoint disc (prot : obj -> protection) (h : held) (t : list event) : bool :=
  match t with
  | [] => true
  | e :: t' =>
      (match e with
       | Lock m => negb (fst (h m)) && Nat.eqb (snd (h m)) 0
       | Unlock m => fst (h m)
       | RLock m => negb (fst (h m))
       | RUnlock m => negb (Nat.eqb (snd (h m)) 0)
       | _ =>
           match access e with
           | Some (o, a) =>
               match prot o with
               | Guarded m => fst (h m) || (negb (is_w a) && negb (Nat.eqb (snd (h m)) 0))
               | Private => true
               | ReadOnly => negb (is_w a)
               end
           | None => true
           end
       end) && disc prot (held_after h e) t'
  end.

Definition touches (o : obj) (t : list event) : bool :=
  existsb (fun e => match access e with Some (o', _) => obj_eqb o' o | None => false end) t.

(* ---------------------------------------------------------------------------------------------
   go-mail's programs, instantiated from the source-derived paths of Gen.v. *)
Definition name_is (s : string) (n : list N) : bool := bytes_eqb (bs s) n.

Definition send_mutex : N := 1.       (* mail.Client.sendMutex *)
Definition cfg_mutex : N := 2.        (* mail.Client.mutex *)
Definition unknown_mutex : N := 3.
Definition smtp_mutex (k : N) : N := 10 + k.   (* smtp.Client.mutex of the client owning connection k *)
Definition cfg_obj : N := 0.          (* the configuration fields of mail.Client *)
Definition smtp_obj (k : N) : N := 1 + 2 * k.  (* the fields of the smtp.Client owning connection k *)
Definition msg_obj (i : N) : N := 2 + 2 * i.   (* the Msg sent by goroutine i *)

Definition is_sm (n : list N) : bool := name_is "c.sendMutex" n.
Definition mutex_id (k : N) (n : list N) : N :=
  if is_sm n then send_mutex
  else if name_is "c.mutex" n then cfg_mutex
  else if name_is "smtp:c.mutex" n || name_is "smtp:d.c.mutex" n then smtp_mutex k
  else unknown_mutex.

(* [inst k fobj callee p]: the events of path p when run for connection k; receiver-field accesses
   become accesses to object fobj, every call f is replaced by the events [callee f]. *)
Definition inst_ev (k fobj : N) (callee : list N -> list event) (e : lock_ev) : list event :=
  match e with
  | LLock m => [Lock (mutex_id k m)]
  | LRLock m => [RLock (mutex_id k m)]
  | LUnlock m => [Unlock (mutex_id k m)]
  | LRUnlock m => [RUnlock (mutex_id k m)]
  | LCall f => callee f
  | LRead _ => [Acc fobj R]
  | LWrite _ => [Acc fobj W]
  end.
Definition inst (k fobj : N) (callee : list N -> list event) (p : list lock_ev) : list event :=
  flat_map (inst_ev k fobj callee) p.

(* threads with holes: [None] marks a call whose events are supplied later ([fill]) *)
Definition hthread : Type := list (option event).
Definition inst_h_ev (k fobj : N) (e : lock_ev) : option event :=
  match e with
  | LLock m => Some (Lock (mutex_id k m))
  | LRLock m => Some (RLock (mutex_id k m))
  | LUnlock m => Some (Unlock (mutex_id k m))
  | LRUnlock m => Some (RUnlock (mutex_id k m))
  | LCall f => None
  | LRead _ => Some (Acc fobj R)
  | LWrite _ => Some (Acc fobj W)
  end.
Definition inst_h (k fobj : N) (p : list lock_ev) : hthread := map (inst_h_ev k fobj) p.
Definition fill (b : list event) (t : hthread) : list event :=
  flat_map (fun x => match x with Some e => [e] | None => b end) t.

(* [scan] on a thread with holes: a hole is only allowed Inside the bracket *)
Fixpoint scan_h (sm k : N) (ph : phase) (t : hthread) : bool :=
  match t with
  | [] => negb (phase_eqb ph Inside)
  | None :: t' => phase_eqb ph Inside && scan_h sm k ph t'
  | Some e :: t' =>
      match ph with
      | Before => if is_lock sm e then scan_h sm k Inside t'
                  else negb (on_mutex sm e) && negb (is_conn k e) && scan_h sm k Before t'
      | Inside => if is_unlock sm e then scan_h sm k After t'
                  else negb (on_mutex sm e) && scan_h sm k Inside t'
      | After => negb (on_mutex sm e) && negb (is_conn k e) && scan_h sm k After t'
      end
  end.
(* [fut] on a thread with holes: [None] stands for the commands of the hole's events *)
Fixpoint fut_h (sm k : N) (ph : phase) (t : hthread) : list (option bytes) :=
  match t with
  | [] => []
  | None :: t' => match ph with Inside => None :: fut_h sm k ph t' | _ => fut_h sm k ph t' end
  | Some e :: t' =>
      match ph with
      | Before => if is_lock sm e then fut_h sm k Inside t' else fut_h sm k Before t'
      | Inside => if is_unlock sm e then []
                  else match conn_of k e with Some c => Some c :: fut_h sm k Inside t' | None => fut_h sm k Inside t' end
      | After => []
      end
  end.
Definition fill_cmds (b : list bytes) (l : list (option bytes)) : list bytes :=
  flat_map (fun x => match x with Some c => [c] | None => b end) l.
(* [disc] on a thread with holes: at a hole the mutex [g] must be held exclusively *)
Fixpoint disc_h (prot : obj -> protection) (g : N) (h : held) (t : hthread) : bool :=
  match t with
  | [] => true
  | None :: t' => fst (h g) && disc_h prot g h t'
  | Some e :: t' => disc prot h [e] && disc_h prot g (held_after h e) t'
  end.
(* events allowed in a hole of a Send goroutine: accesses (no lock operations) to objects Guarded by g,
   to Private objects, and reads of ReadOnly objects *)
Definition hole_ok (prot : obj -> protection) (g : N) (b : list event) : bool :=
  forallb (fun e => match access e with
                    | Some (o, a) => match prot o with Guarded m => N.eqb m g | Private => true | ReadOnly => negb (is_w a) end
                    | None => false
                    end) b.

(* static bracket check of a source path: every call happens between Lock sendMutex and Unlock
   sendMutex, sendMutex is taken at most once, by Lock/Unlock only, and released on the path *)
Fixpoint wb (ph : phase) (p : list lock_ev) : bool :=
  match p with
  | [] => negb (phase_eqb ph Inside)
  | e :: p' =>
      match ph with
      | Before =>
          match e with
          | LLock m => if is_sm m then wb Inside p' else wb Before p'
          | LUnlock m | LRLock m | LRUnlock m => negb (is_sm m) && wb Before p'
          | LCall _ => false
          | _ => wb Before p'
          end
      | Inside =>
          match e with
          | LUnlock m => if is_sm m then wb After p' else wb Inside p'
          | LLock m | LRLock m | LRUnlock m => negb (is_sm m) && wb Inside p'
          | _ => wb Inside p'
          end
      | After =>
          match e with
          | LLock m | LUnlock m | LRLock m | LRUnlock m => negb (is_sm m) && wb After p'
          | LCall _ => false
          | _ => wb After p'
          end
      end
  end.
(* the path really takes the lock (a path with a call is rejected by [wb] unless it does) *)
Definition takes_sm (p : list lock_ev) : bool :=
  existsb (fun e => match e with LLock m => is_sm m | _ => false end) p.

(* static lockset check of a source path: [ex]/[rd] are the mutexes (source names) the path holds
   exclusively / shared; [call_ok], [read_ok], [write_ok] say what must be held at a call, a
   receiver-field read, a receiver-field write; everything must be released at the end of the path;
   a mutex is never taken twice exclusively nor exclusively while read-held (self-deadlock). *)
Definition lname := list N.
Definition holds (guard : lname -> bool) (xs : list lname) : bool := existsb guard xs.
Fixpoint remove1 (n : lname) (xs : list lname) : list lname :=
  match xs with
  | [] => []
  | x :: t => if bytes_eqb x n then t else x :: remove1 n t
  end.
Fixpoint guarded_path (call_ok read_ok write_ok : list lname -> list lname -> bool)
         (ex rd : list lname) (p : list lock_ev) : bool :=
  match p with
  | [] => match ex, rd with [], [] => true | _, _ => false end
  | e :: p' =>
      match e with
      | LLock m => negb (existsb (bytes_eqb m) ex) && negb (existsb (bytes_eqb m) rd)
                   && guarded_path call_ok read_ok write_ok (m :: ex) rd p'
      | LUnlock m => existsb (bytes_eqb m) ex && guarded_path call_ok read_ok write_ok (remove1 m ex) rd p'
      | LRLock m => negb (existsb (bytes_eqb m) ex) && guarded_path call_ok read_ok write_ok ex (m :: rd) p'
      | LRUnlock m => existsb (bytes_eqb m) rd && guarded_path call_ok read_ok write_ok ex (remove1 m rd) p'
      | LCall _ => call_ok ex rd && guarded_path call_ok read_ok write_ok ex rd p'
      | LRead _ => read_ok ex rd && guarded_path call_ok read_ok write_ok ex rd p'
      | LWrite _ => write_ok ex rd && guarded_path call_ok read_ok write_ok ex rd p'
      end
  end.
Definition excl_held (g : lname -> bool) (ex rd : list lname) : bool := holds g ex.
Definition any_held (g : lname -> bool) (ex rd : list lname) : bool := holds g ex || holds g rd.
Definition never (ex rd : list lname) : bool := false.

Definition is_cfg_mutex (n : lname) : bool := name_is "c.mutex" n.
Definition is_smtp_mutex (n : lname) : bool := name_is "smtp:c.mutex" n || name_is "smtp:d.c.mutex" n.
Definition no_writes (p : list lock_ev) : bool :=
  forallb (fun e => match e with LWrite _ => false | _ => true end) p.
Definition no_locks (p : list lock_ev) : bool :=
  forallb (fun e => match e with LLock _ | LUnlock _ | LRLock _ | LRUnlock _ => false | _ => true end) p.
Definition calls (p : list lock_ev) : list lname :=
  flat_map (fun e => match e with LCall f => [f] | _ => [] end) p.
Definition has_call (s : string) (p : list lock_ev) : bool := existsb (name_is s) (calls p).

(* ---- source obligations (closed booleans over Gen.v, discharged by vm_compute in the proofs) ---- *)
(* Client.Send: every path brackets all its calls (SendWithSMTPClient on the shared smtp.Client) and
   its reads (c.smtpClient) by sendMutex *)
Definition ob_send_bracketed : bool :=
  negb (Nat.eqb (length send_paths) 0)
  && forallb (fun p => wb Before p && takes_sm p && has_call "c.SendWithSMTPClient" p
                       && guarded_path (excl_held is_sm) (excl_held is_sm) never [] [] p) send_paths.
(* DialAndSendWithContext: takes no lock itself, never touches c.smtpClient (no receiver-field access
   at all), every path starts by creating its own smtp.Client through DialToSMTPClientWithContext and
   hands exactly that client on *)
Definition ob_dial_and_send_private : bool :=
  negb (Nat.eqb (length dial_and_send_paths) 0)
  && forallb (fun p => no_locks p
                       && forallb (fun e => match e with LRead _ | LWrite _ => false | _ => true end) p
                       && match p with LCall f :: _ => name_is "c.DialToSMTPClientWithContext" f | _ => false end)
             dial_and_send_paths.
(* DialToSMTPClientWithContext and sendSingleMsg: every configuration read and every call happens
   under c.mutex.RLock (released on every path), no configuration write;  dial: a new smtp.Client is
   created on every path that goes on (smtp.NewClient) *)
Definition ob_cfg_reads_rlocked : bool :=
  negb (Nat.eqb (length dial_paths) 0) && negb (Nat.eqb (length send_single_paths) 0)
  && forallb (fun p => guarded_path (any_held is_cfg_mutex) (any_held is_cfg_mutex) never [] [] p
                       && match p with LRLock m :: _ => is_cfg_mutex m | _ => false end)
             (dial_paths ++ send_single_paths)
  && existsb (has_call "smtp.NewClient") dial_paths.
(* the whole send path of mail.Client never writes a Client field *)
Definition ob_cfg_read_only : bool :=
  forallb no_writes (send_paths ++ dial_and_send_paths ++ dial_paths ++ send_batch_paths ++ send_single_paths
                     ++ check_conn_paths ++ reset_paths ++ close_paths).
(* SendWithSMTPClient / checkConn / Reset / Close take no sendMutex (no self-deadlock, no second bracket) *)
Definition ob_inner_no_sm : bool :=
  forallb (fun p => forallb (fun e => match e with
                                      | LLock m | LUnlock m | LRLock m | LRUnlock m => negb (is_sm m)
                                      | _ => true end) p)
          (send_batch_paths ++ send_single_paths ++ check_conn_paths ++ reset_paths ++ close_paths ++ dial_paths).
(* smtp.Client.cmd, dataCloser.Write/Close, UpdateDeadline: the accesses to c.Text / c.conn and the
   calls on them happen with smtp.Client.mutex held exclusively, released on every path *)
Definition ob_smtp_cmd_locked : bool :=
  forallb (fun ps => negb (Nat.eqb (length ps) 0)
                     && forallb (guarded_path (excl_held is_smtp_mutex) (excl_held is_smtp_mutex) (excl_held is_smtp_mutex) [] []) ps)
          [smtp_cmd_paths; smtp_dc_write_paths; smtp_dc_close_paths; smtp_update_deadline_paths].

(* the protection map of the C13 scenario: connection 0 and its smtp.Client are guarded by sendMutex,
   the configuration of mail.Client is read-only (no goroutine of the scenario writes it), everything
   else (other connections, their smtp.Clients, the messages) is private to one goroutine *)
Definition prot_c13 (o : obj) : protection :=
  match o with
  | OConn k => if N.eqb k 0 then Guarded send_mutex else Private
  | OMem x => if N.eqb x cfg_obj then ReadOnly else if N.eqb x (smtp_obj 0) then Guarded send_mutex else Private
  end.
(* model-level obligations on the generated Send paths (connection 0) *)
Definition ob_send_scan : bool :=
  negb (Nat.eqb (length send_paths) 0)
  && forallb (fun p => scan_h send_mutex 0 Before (inst_h 0 cfg_obj p)) send_paths.
Definition ob_send_disc : bool :=
  forallb (fun p => disc_h prot_c13 send_mutex h0 (inst_h 0 cfg_obj p)) send_paths.
(* every Send path has exactly one hole inside the bracket: its body is the body of the call *)
Definition ob_send_body : bool :=
  forallb (fun p => match fut_h send_mutex 0 Before (inst_h 0 cfg_obj p) with [None] => true | _ => false end) send_paths.

(* ---- Client state under concurrent dials (frame property) ----
   Every field of mail.Client is one object Guarded by Client.mutex: a write needs the mutex exclusively,
   a read needs it in either mode.  A "dial program" never takes the mutex exclusively. *)
Definition prot_dial (o : obj) : protection :=
  match o with
  | OMem x => if N.eqb x cfg_obj then Guarded cfg_mutex else Private
  | OConn _ => Private
  end.
Definition no_excl (m : N) (t : list event) : bool := forallb (fun e => negb (is_lock m e)) t.
Definition writes_guarded (prot : obj -> protection) (m : N) (e : event) : bool :=
  match access e with
  | Some (o, W) => match prot o with Guarded m' => N.eqb m' m | _ => false end
  | _ => false
  end.
(* source obligation (interprocedural, from the translator's write inventory): every write of a Client
   field on a path reachable from DialWithContext / DialAndSend / Send / Close / Reset happens with
   c.mutex held EXCLUSIVELY by the calling chain (so never under RLock only, never without the lock) *)
Definition ob_client_writes_excl : bool :=
  forallb (fun w => match w with (_, _, ex, _) => holds is_cfg_mutex ex end) client_field_writes.
(* the generated dial / sendSingleMsg paths themselves (calls dropped: their writes are covered by the
   inventory above) obey the discipline and never take c.mutex exclusively *)
Definition ob_dial_frame : bool :=
  forallb (fun p => disc prot_dial h0 (inst 0 cfg_obj (fun _ => []) p)
                    && no_excl cfg_mutex (inst 0 cfg_obj (fun _ => []) p))
          (dial_paths ++ send_single_paths).

(* ---- inventories of the translator: setters, unlocked reads, smtp.Client level, ownership ---- *)
Definition acc_rec : Type := (list N * list N * list (list N) * list (list N))%type.   (* method, field, excl, shared *)
Definition written_by_any_method (f : lname) : bool :=
  existsb (fun w : acc_rec => match w with (_, g, _, _) => bytes_eqb f g end) client_all_writes.
(* A read of a Client field on an in-scope path (DialWithContext / DialAndSend / Send / Close / Reset and the
   ...WithSMTPClient variants) that is NOT under c.mutex is harmless only if no method of Client ever assigns
   the field after construction (e.g. c.connTimeout in checkConn / CloseWithSMTPClient: only the option
   WithTimeout, run inside NewClient, sets it), or if it is c.smtpClient, which the property's own
   precondition ("one established connection") fixes before the concurrent phase — see
   [ob_smtpclient_single_writer]. *)
Definition ob_unlocked_reads_stable : bool :=
  negb (Nat.eqb (length client_inscope_reads) 0)
  && forallb (fun r : acc_rec => match r with (_, f, ex, rd) =>
       holds is_cfg_mutex ex || holds is_cfg_mutex rd || negb (written_by_any_method f) || name_is "c.smtpClient" f end)
     client_inscope_reads.
Definition ob_smtpclient_single_writer : bool :=
  forallb (fun w : acc_rec => match w with (fn, f, ex, _) =>
       negb (name_is "c.smtpClient" f) || (name_is "Client.DialWithContext" fn && holds is_cfg_mutex ex) end)
     client_all_writes.
(* OBSERVATION, not an obligation (setters are outside the letter of C13): assignments by methods outside
   the in-scope paths that do not hold c.mutex although a dial/send path reads the field under RLock *)
Definition read_in_scope (f : lname) : bool :=
  existsb (fun r : acc_rec => match r with (_, g, _, _) => bytes_eqb f g end) client_inscope_reads.
Definition unlocked_setter_writes : list (lname * lname) :=
  flat_map (fun w : acc_rec => match w with (fn, f, ex, _) =>
     if negb (holds is_cfg_mutex ex) && read_in_scope f then [(fn, f)] else [] end) client_all_writes.

(* OBSERVATION: in-scope reads performed while c.mutex is read-held TWICE by the calling chain (recursive RLock:
   sendSingleMsg -> ResetWithSMTPClient -> checkConn).  With sync.RWMutex a writer arriving between the two RLocks
   (any c.mutex.Lock caller: SetDebugLog, SetLogger, DialWithContext) deadlocks both; no in-scope path takes
   c.mutex exclusively after the connection is established, so this stays outside the property. *)
Definition recursive_rlock_reads : list (lname * lname) :=
  flat_map (fun r : acc_rec => match r with (fn, f, _, rd) =>
     if Nat.leb 2 (length (filter is_cfg_mutex rd)) then [(fn, f)] else [] end) client_inscope_reads.

(* package smtp: c.Text (the textproto pipeline) is only used with smtp.Client.mutex held exclusively and
   c.conn with the mutex held, in EVERY method of smtp.Client; the fields that some method accesses without
   the mutex are exactly the listed ones (they are protected by the outer sendMutex bracket on the shared
   connection and by ownership on a private one, not by the inner mutex) *)
Definition smtp_unlocked_known : list string :=
  ["smtp:c.ext"; "smtp:c.didHello"; "smtp:c.helloError"; "smtp:c.dsnrntype"; "smtp:c.localName";
   "smtp:c.auth"; "smtp:c.serverName"; "smtp:c.tls"; "smtp:c.debug"; "smtp:c.logger"]%string.
Definition ob_smtp_text_conn_locked : bool :=
  existsb (fun a : acc_rec => match a with (_, f, _, _) => name_is "smtp:c.Text" f end) smtp_client_accesses
  && forallb (fun a : acc_rec => match a with (_, f, ex, rd) =>
       if name_is "smtp:c.Text" f then holds is_smtp_mutex ex
       else if name_is "smtp:c.conn" f then holds is_smtp_mutex ex || holds is_smtp_mutex rd
       else holds is_smtp_mutex ex || holds is_smtp_mutex rd || existsb (fun s => name_is s f) smtp_unlocked_known end)
     smtp_client_accesses.

(* ownership: on the DialAndSend path the *smtp.Client never escapes — it is defined from
   DialToSMTPClientWithContext (there: from smtp.NewClient, and returned), used as the receiver of method
   calls, compared with nil and passed to direct calls of Client methods (analysed transitively) only *)
Definition ob_private_client_owned : bool :=
  forallb (fun u : lname * lname => match u with (fn, use) =>
       negb (is_prefix (bs "escape") use)
       && (negb (name_is "return" use) || name_is "Client.DialToSMTPClientWithContext" fn) end) smtp_client_var_uses
  && existsb (fun u : lname * lname => match u with (fn, use) =>
       name_is "Client.DialAndSendWithContext" fn && name_is "def:c.DialToSMTPClientWithContext" use end) smtp_client_var_uses
  && existsb (fun u : lname * lname => match u with (fn, use) =>
       name_is "Client.DialToSMTPClientWithContext" fn && name_is "def:smtp.NewClient" use end) smtp_client_var_uses
  && existsb (fun u : lname * lname => match u with (fn, use) =>
       name_is "Client.DialAndSendWithContext" fn && name_is "arg:c.SendWithSMTPClient" use end) smtp_client_var_uses.

(* writes through pointer PARAMETERS: package smtp has none (in particular smtp.Client.StartTLS never assigns to a field
   of the *tls.Config it is given — that object is mail.Client.tlsconfig, the CALLER's config, shared by every
   connection the Client dials; it may Clone first); the methods of mail.Client write only the delivery flag of the
   Msg being sent and the local isEnc of the dial *)
Definition ob_no_shared_pointee_writes : bool :=
  forallb (fun w : lname * lname => match w with (fn, lhs) =>
     negb (is_prefix (bs "smtp:") fn)
     && (negb (is_prefix (bs "Client.") fn) || name_is "message.isDelivered" lhs || name_is "*isEnc" lhs) end)
   param_pointee_writes.

(* the library's loggers (package log) are stateless: no method of a logger type assigns a field of its receiver.
   One logger is handed to every connection of a Client and called under the per-connection mutex only. *)
Definition ob_loggers_stateless : bool := match log_method_writes with [] => true | _ => false end.

(* package-level state of packages mail / smtp / log: every assignment to a package-level variable in a function body
   other than init() is inside a sync.Once.Do literal or after a Lock() in the same function (atomics are calls,
   not assignments); state shared by ALL Clients and goroutines of the process has no other protection *)
Definition ob_no_unsync_package_state : bool :=
  forallb (fun w : lname * lname * lname => match w with (_, _, cls) => name_is "once" cls || name_is "locked" cls end)
          package_var_writes.

(* model level: objects guarded by m, used by the exclusivity theorem *)
Definition guarded_by (prot : obj -> protection) (m : N) (e : event) : bool :=
  match access e with
  | Some (o, _) => match prot o with Guarded m' => N.eqb m' m | _ => false end
  | None => false
  end.
Definition no_rlock (m : N) (t : list event) : bool :=
  forallb (fun e => match e with RLock x => negb (N.eqb x m) | _ => true end) t.
Definition no_rlock_h (m : N) (t : hthread) : bool :=
  forallb (fun x => match x with Some (RLock y) => negb (N.eqb y m) | _ => true end) t.
Definition ob_send_no_rlock : bool :=
  forallb (fun p => no_rlock_h send_mutex (inst_h 0 cfg_obj p)) send_paths.
Definition no_private (prot : obj -> protection) (t : list event) : bool :=
  forallb (fun e => match access e with
                    | Some (o, _) => match prot o with Private => false | _ => true end
                    | None => true end) t.
(* the inner level alone: connection k and its smtp.Client guarded by smtp.Client.mutex *)
Definition prot_inner (o : obj) : protection :=
  match o with
  | OConn k => Guarded (smtp_mutex k)
  | OMem x => if N.eqb x cfg_obj then ReadOnly else if N.eqb x (smtp_obj 0) then Guarded (smtp_mutex 0) else Private
  end.

(* ---------------------------------------------------------------------------------------------
   Concrete bodies used by the examples, the refutation witness and the correspondence check. *)
(* one smtp command = one execution of smtp.Client.cmd (its longest generated path) for connection k,
   the Text.Cmd call being the command on the wire, the other calls/reads accesses to the client *)
Definition longest (ps : list (list lock_ev)) : list lock_ev :=
  fold_left (fun acc p => if Nat.ltb (length acc) (length p) then p else acc) ps [].
Definition cmd_events (k : N) (c : bytes) : list event :=
  inst k (smtp_obj k)
       (fun f => if name_is "smtp:c.Text.Cmd" f then [Conn k c] else [Acc (smtp_obj k) W])
       (longest smtp_cmd_paths).
(* a data block = dataCloser.Write ... Close *)
Definition data_events (k : N) (c : bytes) : list event :=
  inst k (smtp_obj k)
       (fun f => if name_is "smtp:d.WriteCloser.Write" f then [Conn k c] else [Acc (smtp_obj k) W])
       (longest smtp_dc_write_paths)
  ++ inst k (smtp_obj k) (fun f => [Acc (smtp_obj k) W]) (longest smtp_dc_close_paths).

(* stream items of the correspondence check: verb letter and message id (0 = none) *)
Definition item (verb : string) (id : N) : bytes := bs verb ++ [id].
(* what SendWithSMTPClient does on the wire for one message with r recipients:
   NOOP (checkConn), MAIL, RCPT*r, DATA, <message>, NOOP+RSET (ResetWithSMTPClient) *)
Definition txn_items (id : N) (r : nat) : list bytes :=
  [item "N" 0; item "M" id] ++ repeat (item "R" id) r ++ [item "D" 0; item "E" id; item "N" 0; item "Z" 0].
Definition txn_events (k id : N) (r : nat) : list event :=
  cmd_events k (item "N" 0) ++ cmd_events k (item "M" id)
  ++ flat_map (fun _ => cmd_events k (item "R" id)) (seq 0 r)
  ++ cmd_events k (item "D" 0) ++ data_events k (item "E" id)
  ++ cmd_events k (item "N" 0) ++ cmd_events k (item "Z" 0).

Definition send_path : list lock_ev := longest send_paths.
(* goroutine calling Client.Send(msg id) on the shared connection k *)
Definition send_thread (k id : N) (r : nat) : list event :=
  inst k cfg_obj (fun _ => txn_events k id r) send_path.
(* the same goroutine with the sendMutex operations deleted (only cmd's inner lock left) *)
Definition strip (m : N) (t : list event) : list event := filter (fun e => negb (on_mutex m e)) t.

(* sequential schedule: the goroutines of [order] one after the other, each for [n] steps *)
Definition seq_schedule (order : list nat) (n : nat) : list nat := flat_map (fun i => repeat i n) order.
Definition all_done (c : cfg) (n : nat) : bool := forallb (fun i => match thr c i with [] => true | _ => false end) (seq 0 n).

(* DialAndSend goroutine working on its own connection k *)
Definition dial_items (id : N) (r : nat) : list bytes :=
  [item "H" 0] ++ txn_items id r ++ [item "Q" 0].
Definition dial_thread (k id : N) (r : nat) : list event :=
  [RLock cfg_mutex; Acc cfg_obj R] ++ cmd_events k (item "H" 0) ++ [RUnlock cfg_mutex]
  ++ txn_events k id r ++ cmd_events k (item "Q" 0).

(* model side of the correspondence: goroutine i (0-based) sends message i+1 with (nth i rcpts)
   recipients; goroutines 0..ns-1 call Client.Send on the shared connection 0, the others call
   DialAndSend and work on connection i+1.  The goroutines run in the order [order] (for the Send
   goroutines: the order in which they obtained the lock).  Result: the stream on connection 0,
   the streams on the private connections (in goroutine order), all goroutines terminated? *)
Definition model_mixed (ns : nat) (rcpts : list nat) (order : list nat)
  : list bytes * list (list bytes) * bool :=
  let n := length rcpts in
  let ts := map (fun ir => if Nat.ltb (fst ir) ns
                           then send_thread 0 (N.of_nat (S (fst ir))) (snd ir)
                           else dial_thread (N.of_nat (S (fst ir))) (N.of_nat (S (fst ir))) (snd ir))
                (combine (seq 0 n) rcpts) in
  let steps := fold_left Nat.max (map (@length event) ts) 0%nat in
  let c := run (init (pool_of ts)) (seq_schedule order steps) in
  let h := trace_fast c in
  (conn_proj 0 h, map (fun i => conn_proj (N.of_nat (S i)) h) (seq ns (n - ns)), all_done c n).

(* [check_stream bodies s]: s is a concatenation of all the bodies, each exactly once, in some order
   (greedy: the next body is the first unused one that is a prefix of the rest) *)
Fixpoint is_prefix_l (p s : list bytes) : bool :=
  match p, s with
  | [], _ => true
  | x :: p', y :: s' => bytes_eqb x y && is_prefix_l p' s'
  | _ :: _, [] => false
  end.
Fixpoint take_body (bodies : list (list bytes)) (s : list bytes) : option (list (list bytes) * list bytes) :=
  match bodies with
  | [] => None
  | b :: rest =>
      if is_prefix_l b s then Some (rest, skipn (length b) s)
      else match take_body rest s with
           | Some (rest', s') => Some (b :: rest', s')
           | None => None
           end
  end.
Fixpoint check_stream_fuel (fuel : nat) (bodies : list (list bytes)) (s : list bytes) : bool :=
  match bodies with
  | [] => match s with [] => true | _ => false end
  | _ =>
      match fuel with
      | O => false
      | S f => match take_body bodies s with
               | Some (rest, s') => check_stream_fuel f rest s'
               | None => false
               end
      end
  end.
Definition check_stream (bodies : list (list bytes)) (s : list bytes) : bool :=
  check_stream_fuel (length bodies) bodies s.
