(* Bytes.v — bytes are N, byte strings are lists; ASCII helpers; the line-discipline checker. *)
From Coq Require Export List NArith Bool Arith.
From Coq Require Import String Ascii.
Export ListNotations.
Open Scope N_scope.

Definition byte := N.
Definition bytes := list N.

Definition wf_byte (b : N) : bool := b <? 256.
Definition wf_bytes (s : bytes) : bool := forallb wf_byte s.

Fixpoint bs (s : string) : bytes :=
  match s with
  | EmptyString => []
  | String a t => N_of_ascii a :: bs t
  end.

Arguments bs _%string_scope.

Definition CR : N := 13.
Definition LF : N := 10.
Definition SP : N := 32.
Definition TAB : N := 9.
Definition crlf : bytes := [13; 10].

Definition beq (a b : N) : bool := N.eqb a b.

Fixpoint bytes_eqb (a b : bytes) : bool :=
  match a, b with
  | [], [] => true
  | x :: a', y :: b' => N.eqb x y && bytes_eqb a' b'
  | _, _ => false
  end.

Fixpoint is_prefix (p s : bytes) : bool :=
  match p, s with
  | [], _ => true
  | x :: p', y :: s' => N.eqb x y && is_prefix p' s'
  | _ :: _, [] => false
  end.

(* [occurs p s]: p occurs in s as a contiguous substring *)
Fixpoint occurs (p s : bytes) : bool :=
  is_prefix p s ||
  match s with
  | [] => false
  | _ :: s' => occurs p s'
  end.

Fixpoint join (sep : bytes) (l : list bytes) : bytes :=
  match l with
  | [] => []
  | [x] => x
  | x :: t => x ++ sep ++ join sep t
  end.

(* strings.Split(s, sep) for a one-byte separator: never returns the empty list *)
Fixpoint split_on (sep : N) (s : bytes) : list bytes :=
  match s with
  | [] => [[]]
  | b :: t =>
      if N.eqb b sep then [] :: split_on sep t
      else match split_on sep t with
           | [] => [[b]]                     (* unreachable *)
           | w :: ws => (b :: w) :: ws
           end
  end.

(* Line discipline: every line ends in CRLF, no bare CR or LF, no line longer than [max]
   characters (the CRLF not counted).  [col] = characters seen on the current line,
   [cr] = the previous byte was a CR still waiting for its LF.  The text must end at a
   line end (col = 0, no pending CR). *)
Fixpoint chk_lines (max col : nat) (cr : bool) (s : bytes) : bool :=
  match s with
  | [] => negb cr && Nat.eqb col 0
  | b :: t =>
      if cr then N.eqb b 10 && chk_lines max 0 false t
      else if N.eqb b 13 then chk_lines max col true t
      else if N.eqb b 10 then false
      else Nat.leb (S col) max && chk_lines max (S col) false t
  end.

Definition lines_ok (max : nat) (s : bytes) : bool := chk_lines max 0 false s.

Definition no_crlf_byte (b : N) : bool := negb (N.eqb b 13) && negb (N.eqb b 10).
