(* Setters.v — the text-accepting setters of msg.go as operations on the message value, and their
   combination with the part / file builder calls of Builder.v.
     SetGenHeader / SetHeader(h, values...)  m.genHeader[h] = values, each through m.encodeString
     Subject, SetOrganization, SetUserAgent (User-Agent + X-Mailer), SetMessageIDWithValue ("<" id ">"),
     SetBulk, SetImportance                  = SetGenHeader calls with fixed keys (and fixed values)
     From / To / Cc / ReplyTo …              store what net/mail's Address.String() returns for the
                                             parsed address (oracle argument of the operation)
   m.encodeString = mime.WordEncoder.Encode(charset, s) = word_encode (m_wenc m).
   The header KEY of SetGenHeader is a typed string (type Header) that is written as it is. *)
From Coq Require Import String.
From Verif Require Import Bytes WordEnc Writer Builder.
From VerifGen Require Import Gen.
From Coq Require Import List.
Import ListNotations.

Inductive importance := ImpLow | ImpHigh | ImpNonUrgent | ImpUrgent | ImpNormal.

Definition imp_string (i : importance) : bytes :=
  match i with ImpNonUrgent => bs "non-urgent" | ImpLow => bs "low" | ImpHigh => bs "high" | ImpUrgent => bs "urgent" | ImpNormal => [] end.
Definition imp_num (i : importance) : bytes :=
  match i with ImpNonUrgent | ImpLow => bs "0" | ImpHigh | ImpUrgent => bs "1" | ImpNormal => [] end.
Definition imp_xprio (i : importance) : bytes :=
  match i with ImpNonUrgent | ImpLow => bs "5" | ImpHigh | ImpUrgent => bs "1" | ImpNormal => [] end.

Inductive sop :=
| SGen (key : bytes) (values : list bytes)
| SSubject (s : bytes)
| SOrganization (s : bytes)
| SUserAgent (s : bytes)
| SMessageID (s : bytes)
| SBulk
| SImportance (i : importance)
| SFrom (a : bytes)                          (* Address.String() of the parsed sender *)
| SAddr (key : bytes) (addrs : list bytes).  (* Address.String() of every parsed recipient *)

(* the SetGenHeader calls a setter makes: (key, raw values) in call order *)
Definition sop_sets (o : sop) : list (bytes * list bytes) :=
  match o with
  | SGen k vs => [(k, vs)]
  | SSubject s => [(Gen.hdr_subject, [s])]
  | SOrganization s => [(bs "Organization", [s])]
  | SUserAgent s => [(Gen.hdr_user_agent, [s]); (Gen.hdr_x_mailer, [s])]
  | SMessageID s => [(Gen.hdr_message_id, [bs "<" ++ s ++ bs ">"])]
  | SBulk => [(bs "Precedence", [bs "bulk"]); (bs "X-Auto-Response-Suppress", [bs "All"])]
  | SImportance ImpNormal => []
  | SImportance i => [(bs "Importance", [imp_string i]); (bs "Priority", [imp_num i]);
                      (bs "X-Priority", [imp_xprio i]); (bs "X-MSMail-Priority", [imp_num i])]
  | SFrom _ | SAddr _ _ => []
  end.

Definition with_from (m : msg) (f : option bytes) : msg :=
  mkmsg (m_charset m) (m_wenc m) (m_gen m) (m_preform m) f (m_addr m) (m_parts m) (m_embeds m) (m_attach m)
        (m_bmixed m) (m_brelated m) (m_balt m).
Definition with_addr (m : msg) (a : list (bytes * list bytes)) : msg :=
  mkmsg (m_charset m) (m_wenc m) (m_gen m) (m_preform m) (m_from m) a (m_parts m) (m_embeds m) (m_attach m)
        (m_bmixed m) (m_brelated m) (m_balt m).

(* Msg.SetGenHeader *)
Definition set_gen_header (m : msg) (kv : bytes * list bytes) : msg :=
  with_gen m (set_gen (fst kv) (map (word_encode (m_wenc m)) (snd kv)) (m_gen m)).

Definition apply_sop (m : msg) (o : sop) : msg :=
  match o with
  | SFrom a => with_from m (Some a)
  | SAddr k addrs => with_addr m (set_gen k addrs (m_addr m))
  | _ => fold_left set_gen_header (sop_sets o) m
  end.

(* setter calls and builder calls in any order *)
Inductive cop := CS (o : sop) | CB (o : bop).

Definition apply_cop (st : bstate) (c : cop) : bstate :=
  match c with
  | CS o => on_msg st (fun m => apply_sop m o)
  | CB o => apply_bop st o
  end.

Definition run_calls (st : bstate) (ops : list cop) : bstate := fold_left apply_cop ops st.

(* NewMsg(): nothing set; the message charset, the word encoder and the default part encoding come
   from the MsgOptions *)
Definition new_msg (charset : bytes) (wenc : N) : msg := mkmsg charset wenc [] [] None [] [] [] [] [] [] [].
Definition new_state (charset : bytes) (wenc : N) (e : enc) : bstate := mkb e (new_msg charset wenc).

(* what the caller asked the generic headers to be (raw strings): the last SetGenHeader per key wins,
   Reset drops everything *)
Definition asked_step (acc : list (bytes * list bytes)) (c : cop) : list (bytes * list bytes) :=
  match c with
  | CS o => fold_left (fun l kv => set_gen (fst kv) (snd kv) l) (sop_sets o) acc
  | CB BReset => []
  | CB _ => acc
  end.
Definition gen_asked (ops : list cop) : list (bytes * list bytes) := fold_left asked_step ops [].

(* a file as the Attach* / Embed* calls build it from their options: name (WithFileName or the path's
   base name), content type, encoding, description, optional content-id *)
Definition file_of (name mime : bytes) (e : option enc) (desc : bytes) (cid : option bytes) (pr : producer) : file :=
  mkfile name mime e desc (match cid with Some id => [(h_cid, id)] | None => [] end) pr.
