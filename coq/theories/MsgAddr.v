(* MsgAddr.v — the address map of mail.Msg (msg.go: addrHeader) with the exact setter
   semantics, the envelope getters and the address fields of the render (msgwriter.go:writeMsg).

   net/mail.ParseAddress, mail.Address.String and Msg.encodeString (mime.WordEncoder.Encode)
   are ORACLES: Section variables.  Every theorem holds for all oracle values that satisfy the
   hypotheses it names; the correspondence harness evaluates this model with the tables of the real
   functions (closed under every query the model can make) and validates the hypotheses on every
   address it generates.

   A Go map key that is absent and a key bound to an empty list are indistinguishable for every
   observable modelled here (GetSender, GetRecipients, GetAddrHeader, writeMsg all test
   `!ok || len == 0`, and writeHeader with no values writes nothing), so the map is an association
   list read with [lookup] (absent = []). *)
From Coq Require Import String.
From Verif Require Export Bytes.
From Verif Require Import HeaderFold.
From VerifGen Require Import Gen.
Open Scope N_scope.

Record addr := mkAddr { a_name : bytes; a_addr : bytes }.   (* mail.Address{Name, Address} *)

Definition amap := list (bytes * list addr).

Fixpoint lookup (m : amap) (k : bytes) : list addr :=
  match m with
  | [] => []
  | (k', v) :: t => if bytes_eqb k' k then v else lookup t k
  end.

Definition set (m : amap) (k : bytes) (v : list addr) : amap := (k, v) :: m.

(* ---- strings.TrimSpace: ASCII white space and the Unicode White_Space runes in UTF-8 ---- *)
Definition ascii_space (b : N) : bool :=
  (b =? 9) || (b =? 10) || (b =? 11) || (b =? 12) || (b =? 13) || (b =? 32).

Definition uni_spaces : list bytes :=
  [[194;133]; [194;160]; [225;154;128];
   [226;128;128]; [226;128;129]; [226;128;130]; [226;128;131]; [226;128;132]; [226;128;133];
   [226;128;134]; [226;128;135]; [226;128;136]; [226;128;137]; [226;128;138];
   [226;128;168]; [226;128;169]; [226;128;175]; [226;129;159]; [227;128;128]].

Fixpoint strip_one (pats : list bytes) (s : bytes) : option bytes :=
  match pats with
  | [] => None
  | p :: ps => if is_prefix p s then Some (skipn (length p) s) else strip_one ps s
  end.

Fixpoint trim_left (pats : list bytes) (fuel : nat) (s : bytes) : bytes :=
  match fuel with
  | O => s
  | S f =>
      match s with
      | [] => []
      | b :: t =>
          if ascii_space b then trim_left pats f t
          else match strip_one pats s with
               | Some r => trim_left pats f r
               | None => s
               end
      end
  end.

Definition trim_space (s : bytes) : bytes :=
  let l := trim_left uni_spaces (length s) s in
  rev (trim_left (map (@rev N) uni_spaces) (length l) (rev l)).

Definition is_nil {A} (l : list A) : bool := match l with [] => true | _ => false end.

(* ToFromString / CcFromString / BccFromString: split at ",", trim, drop empty pieces *)
Definition from_string_pieces (s : bytes) : list bytes :=
  filter (fun p => negb (is_nil p)) (map trim_space (split_on 44 s)).

(* msg.go quotedPairs (repaired tree): a strings.NewReplacer that puts a backslash in front of every
   backslash and every double quote of the display name *)
Fixpoint escape_name (n : bytes) : bytes :=
  match n with
  | [] => []
  | b :: t => if (b =? 92) || (b =? 34) then 92 :: b :: escape_name t else b :: escape_name t
  end.

(* the ...Format setters: fmt.Sprintf(`"%s" <%s>`, quotedPairs(name), addr) *)
Definition format_addr (name address : bytes) : bytes :=
  bs """" ++ escape_name name ++ bs """ <" ++ address ++ bs ">".

(* the unrepaired tree interpolated the name as it is *)
Definition format_addr_old (name address : bytes) : bytes :=
  bs """" ++ name ++ bs """ <" ++ address ++ bs ">".

(* ---- RFC 5322 3.2.4 quoted-string (with RFC 6532), written from the RFC: the reader of a display name.
   qtext = %d33 / %d35-91 / %d93-126 / UTF8-non-ascii; WSP (SP, TAB) may stand between qcontent;
   quoted-pair = backslash (VCHAR / WSP).  [read_qs] starts after the opening DQUOTE and returns the content
   and what follows the closing DQUOTE.  Everything else (CR, LF, NUL, the other C0 controls, DEL) is
   rejected — these are exactly the bytes net/mail refuses inside a quoted-string, too. *)
Definition qs_byte (b : N) : bool := (b =? 9) || ((32 <=? b) && (b <=? 126)) || (128 <=? b).

Fixpoint read_qs (s : bytes) : option (bytes * bytes) :=
  match s with
  | [] => None
  | b :: t =>
      if b =? 34 then Some ([], t)
      else if b =? 92 then
        match t with
        | [] => None
        | c :: t' =>
            if qs_byte c then
              match read_qs t' with Some (l, r) => Some (c :: l, r) | None => None end
            else None
        end
      else if qs_byte b then
        match read_qs t with Some (l, r) => Some (b :: l, r) | None => None end
      else None
  end.

(* display name of  DQUOTE ... DQUOTE SP LESS-THAN ... : None if the string does not have this form *)
Definition read_display_name (s : bytes) : option bytes :=
  match s with
  | 34 :: t =>
      match read_qs t with
      | Some (n, 32 :: 60 :: _) => Some n
      | _ => None
      end
  | _ => None
  end.

(* The display names for which net/mail.Address.String (go1.23) writes something its own parser rejects:
   the name needs RFC 2047 encoding (a byte outside SP..~ and TAB), holds a backslash, and none of the
   characters that make String choose the B encoding — it is then Q-encoded with the backslash left raw
   inside the encoded-word (known finding dispname-backslash-q-encoded-word). *)
Definition b_encoding_triggers : bytes :=
  [34; 35; 36; 37; 38; 39; 40; 41; 44; 46; 58; 59; 60; 62; 64; 91; 93; 94; 96; 123; 124; 125; 126].
Definition needs_encoding_byte (b : N) : bool := negb (((32 <=? b) && (b <=? 126)) || (b =? 9)).
Definition q_backslash_name (n : bytes) : bool :=
  existsb needs_encoding_byte n && existsb (N.eqb 92) n &&
  negb (existsb (fun b => existsb (N.eqb b) b_encoding_triggers) n).

Section Model.
  Variable parse : bytes -> option addr.
  Variable addr_string : addr -> bytes.
  Variable encode_string : bytes -> bytes.

  (* SetAddrHeader's loop: all values must parse; the first failure aborts before anything is stored *)
  Fixpoint parse_all (vals : list bytes) : option (list addr) :=
    match vals with
    | [] => Some []
    | v :: t =>
        match parse v with
        | None => None
        | Some a => match parse_all t with None => None | Some l => Some (a :: l) end
        end
    end.

  (* SetAddrHeaderIgnoreInvalid's loop: the WHOLE input is passed through encodeString first *)
  Fixpoint parse_valid (vals : list bytes) : list addr :=
    match vals with
    | [] => []
    | v :: t =>
        match parse (encode_string v) with
        | None => parse_valid t
        | Some a => a :: parse_valid t
        end
    end.

  (* the final switch of both setters: From keeps the first address and is never cleared *)
  Definition store (m : amap) (h : bytes) (l : list addr) : amap :=
    if bytes_eqb h hdr_from then
      match l with [] => m | a :: _ => set m h [a] end
    else set m h l.

  Definition set_addr_header (m : amap) (h : bytes) (vals : list bytes) : amap * bool :=
    match parse_all vals with
    | None => (m, false)
    | Some l => (store m h l, true)
    end.

  Definition set_addr_header_ign (m : amap) (h : bytes) (vals : list bytes) : amap * bool :=
    (store m h (parse_valid vals), true).

  (* addAddr: re-serialise what is stored with Address.String(), append, re-parse everything *)
  Definition add_addr (m : amap) (h : bytes) (v : bytes) : amap * bool :=
    set_addr_header m h (map addr_string (lookup m h) ++ [v]).

  Inductive slot := STo | SCc | SBcc.
  Definition slot_hdr (s : slot) : bytes :=
    match s with STo => hdr_to | SCc => hdr_cc | SBcc => hdr_bcc end.

  (* the public address setters of Msg *)
  Inductive call :=
  | CSet (s : slot) (vals : list bytes)              (* To / Cc / Bcc *)
  | CAdd (s : slot) (v : bytes)                      (* AddTo / AddCc / AddBcc *)
  | CAddFormat (s : slot) (name address : bytes)     (* AddToFormat / AddCcFormat / AddBccFormat *)
  | CIgn (s : slot) (vals : list bytes)              (* ToIgnoreInvalid / CcIgnoreInvalid / BccIgnoreInvalid *)
  | CFromString (s : slot) (str : bytes)             (* ToFromString / CcFromString / BccFromString *)
  | CFrom (v : bytes) | CFromFormat (name address : bytes)
  | CEnvFrom (v : bytes) | CEnvFromFormat (name address : bytes)
  | CReplyTo (v : bytes) | CReplyToFormat (name address : bytes)
  | CGenSet (h : bytes) (vals : list bytes)          (* SetAddrHeader *)
  | CGenIgn (h : bytes) (vals : list bytes)          (* SetAddrHeaderIgnoreInvalid *)
  | CReset.                                          (* Msg.Reset: m.addrHeader = make(map...) — every key incl. EnvelopeFrom is gone *)

  Definition apply_call (m : amap) (c : call) : amap * bool :=
    match c with
    | CSet s vals => set_addr_header m (slot_hdr s) vals
    | CAdd s v => add_addr m (slot_hdr s) v
    | CAddFormat s n a => add_addr m (slot_hdr s) (format_addr n a)
    | CIgn s vals => set_addr_header_ign m (slot_hdr s) vals
    | CFromString s str => set_addr_header m (slot_hdr s) (from_string_pieces str)
    | CFrom v => set_addr_header m hdr_from [v]
    | CFromFormat n a => set_addr_header m hdr_from [format_addr n a]
    | CEnvFrom v => set_addr_header m hdr_envelope_from [v]
    | CEnvFromFormat n a => set_addr_header m hdr_envelope_from [format_addr n a]
    | CReplyTo v => set_addr_header m hdr_reply_to [v]
    | CReplyToFormat n a => set_addr_header m hdr_reply_to [format_addr n a]
    | CGenSet h vals => set_addr_header m h vals
    | CGenIgn h vals => set_addr_header_ign m h vals
    | CReset => ([], true)
    end.

  (* every string a call hands to the address parser *)
  Definition call_values (c : call) : list bytes :=
    match c with
    | CSet _ vals | CGenSet _ vals => vals
    | CIgn _ vals | CGenIgn _ vals => map encode_string vals
    | CAdd _ v | CFrom v | CEnvFrom v | CReplyTo v => [v]
    | CAddFormat _ n a | CFromFormat n a | CEnvFromFormat n a | CReplyToFormat n a => [format_addr n a]
    | CFromString _ str => from_string_pieces str
    | CReset => []
    end.

  Definition run (calls : list call) (m : amap) : amap :=
    fold_left (fun m c => fst (apply_call m c)) calls m.

  (* the per-call error results, in call order *)
  Fixpoint run_flags (calls : list call) (m : amap) : list bool :=
    match calls with
    | [] => []
    | c :: t => let '(m', ok) := apply_call m c in ok :: run_flags t m'
    end.

  (* ---- envelope getters ---- *)
  Definition sender_list (m : amap) : list addr :=
    match lookup m hdr_envelope_from with
    | [] => lookup m hdr_from
    | l => l
    end.

  (* GetSender(false): None = ErrNoFromAddress *)
  Definition get_sender (m : amap) : option bytes :=
    match sender_list m with [] => None | a :: _ => Some (a_addr a) end.

  (* GetSender(true) *)
  Definition get_sender_full (m : amap) : option bytes :=
    match sender_list m with [] => None | a :: _ => Some (addr_string a) end.

  (* GetRecipients: the list; the Go function additionally returns ErrNoRcptAddresses iff it is empty *)
  Definition get_recipients (m : amap) : list bytes :=
    flat_map (fun h => map a_addr (lookup m h)) recipient_headers.

  (* ---- the address fields written by writeMsg ---- *)
  Definition render_from_list (m : amap) : list addr :=
    match lookup m hdr_from with
    | [] => lookup m hdr_envelope_from
    | l => l
    end.

  Definition from_field (m : amap) : bytes :=
    match render_from_list m with
    | [] => []
    | a :: _ => fst (write_header hdr_from [addr_string a])
    end.

  Definition addr_field (m : amap) (h : bytes) : bytes :=
    fst (write_header h (map addr_string (lookup m h))).

  Definition render_addr (m : amap) : bytes :=
    from_field m ++ flat_map (addr_field m) render_addr_headers.

  (* ---- reference semantics of the setters (what the documentation promises):
         To replaces, AddTo appends one, IgnoreInvalid keeps the valid ones, From keeps the first ---- *)
  Definition spec_add (m : amap) (h : bytes) (v : bytes) : amap * bool :=
    match parse v with
    | None => (m, false)
    | Some a => (store m h (lookup m h ++ [a]), true)
    end.

  Definition spec_call (m : amap) (c : call) : amap * bool :=
    match c with
    | CAdd s v => spec_add m (slot_hdr s) v
    | CAddFormat s n a => spec_add m (slot_hdr s) (format_addr n a)
    | _ => apply_call m c
    end.

  Definition spec_run (calls : list call) (m : amap) : amap :=
    fold_left (fun m c => fst (spec_call m c)) calls m.
End Model.

(* which map key a call writes (no other key changes) *)
Definition call_key (c : call) : bytes :=
  match c with
  | CSet s _ | CAdd s _ | CAddFormat s _ _ | CIgn s _ | CFromString s _ => slot_hdr s
  | CFrom _ | CFromFormat _ _ => hdr_from
  | CEnvFrom _ | CEnvFromFormat _ _ => hdr_envelope_from
  | CReplyTo _ | CReplyToFormat _ _ => hdr_reply_to
  | CGenSet h _ | CGenIgn h _ => h
  | CReset => []          (* no single key: Reset is treated apart *)
  end.

(* ---- an independent reader of a header block: the names of the fields it contains ----
   A field starts at every line start whose first byte is not SP or TAB (a line that starts with
   SP / TAB continues the previous field); lines end with CRLF; the name runs up to the colon.
   An empty line would count as a field with an empty name. *)
Fixpoint until_colon (l : bytes) : bytes :=
  match l with
  | [] => []
  | b :: t => if b =? 58 then [] else b :: until_colon t
  end.

Definition is_wsp (b : N) : bool := (b =? 32) || (b =? 9).

Fixpoint fnames (bol : bool) (s : bytes) : list bytes :=
  match s with
  | [] => []
  | b :: t =>
      (if bol && negb (is_wsp b) then [until_colon s] else []) ++
      match t with
      | c :: t' => if (b =? 13) && (c =? 10) then fnames true t' else fnames false t
      | [] => []
      end
  end.

Definition field_names (block : bytes) : list bytes := fnames true block.
