(* EmlWriter.v — C10 tier B: the file-name path with the REAL writer model in front of the parser:
   Writer.file_hdrs (msgWriter.addFiles: sanitizeFilename, mime.WordEncoder, the header cache)
   -> the Content-Disposition value it stores -> Eml.parse_multipart_header + the file-name rule. *)
From Coq Require Import String.
From Verif Require Import Bytes WordEnc Writer.
From Verif Require Import Eml EmlRender.
From VerifGen Require Import Gen.

(* the Content-Disposition value addFiles leaves in the file's header cache *)
Definition cd_of_file (wenc : N) (is_attachment : bool) (f : Writer.file) : option bytes :=
  Writer.get_h Writer.h_cdisp (fst (Writer.file_hdrs wenc is_attachment f)).

(* what the parser reads back as the file name *)
Definition filename_via_writer (wenc : N) (is_attachment : bool) (f : Writer.file) : outcome bytes :=
  match cd_of_file wenc is_attachment f with
  | Some cd => parse_cd_filename filename_of cd
  | None => Err
  end.

(* a file as AttachReader / EmbedReader create it: empty header cache *)
Definition fresh_file (name mime : bytes) : Writer.file :=
  Writer.mkfile name mime None [] [] (Writer.mkprod [] false).
