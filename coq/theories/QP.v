(* QP.v — mime/quotedprintable.Writer (go1.23, Binary = false) as a per-byte state machine,
   plus an RFC 2045 quoted-printable decoder written from the RFC. *)
From Verif Require Export Bytes.
Open Scope N_scope.

Definition qp_max : nat := 76.            (* lineMaxLen *)

Record qp := mkqp { qline : bytes; qcr : bool; qout : bytes }.

Definition qp_init : qp := mkqp [] false [].

Definition is_ws (b : N) : bool := (b =? 32) || (b =? 9).

Definition upperhex (n : N) : N := if n <? 10 then 48 + n else 55 + n.

(* w.flush *)
Definition qp_flush (st : qp) : qp := mkqp [] (qcr st) (qout st ++ qline st).
(* w.insertCRLF *)
Definition qp_insert_crlf (st : qp) : qp := qp_flush (mkqp (qline st ++ [13; 10]) (qcr st) (qout st)).
(* w.insertSoftLineBreak *)
Definition qp_soft (st : qp) : qp := qp_insert_crlf (mkqp (qline st ++ [61]) (qcr st) (qout st)).

(* w.encode(b): if lineMaxLen-1-w.i < 3 then soft line break; then "=XY" *)
Definition qp_encode (st : qp) (b : N) : qp :=
  let st1 := if Nat.ltb (qp_max - 1 - length (qline st)) 3 then qp_soft st else st in
  mkqp (qline st1 ++ [61; upperhex (b / 16); upperhex (b mod 16)]) (qcr st1) (qout st1).

(* w.checkLastByte *)
Definition qp_check_last (st : qp) : qp :=
  match rev (qline st) with
  | [] => st
  | b :: r => if is_ws b then qp_encode (mkqp (rev r) (qcr st) (qout st)) b else st
  end.

(* one iteration of the loop in w.write *)
Definition qp_write1 (st : qp) (b : N) : qp :=
  if (b =? 10) || (b =? 13) then
    if qcr st && (b =? 10) then mkqp (qline st) false (qout st)
    else
      let st1 := if b =? 13 then mkqp (qline st) true (qout st) else st in
      qp_insert_crlf (qp_check_last st1)
  else
    let st1 := if Nat.eqb (length (qline st)) (qp_max - 1) then qp_soft st else st in
    mkqp (qline st1 ++ [b]) false (qout st1).

(* bytes that Writer.Write passes through w.write; all others go through w.encode *)
Definition qp_literal (b : N) : bool :=
  ((33 <=? b) && (b <=? 126) && negb (b =? 61)) || is_ws b || (b =? 10) || (b =? 13).

Definition qp_step (st : qp) (b : N) : qp :=
  if qp_literal b then qp_write1 st b else qp_encode st b.

(* w.Close *)
Definition qp_close (st : qp) : qp := qp_flush (qp_check_last st).

Definition qp_write (st : qp) (p : bytes) : qp := fold_left qp_step p st.

(* all Write calls of a producer followed by Close *)
Definition qp_run (chunks : list bytes) : bytes :=
  qout (qp_close (fold_left qp_write chunks qp_init)).

Definition qp_body (content : bytes) : bytes := qp_run [content].

(* ---- decoder (RFC 2045 section 6.7), independent of the writer ---- *)
Definition hexval (c : N) : option N :=
  if (48 <=? c) && (c <=? 57) then Some (c - 48)
  else if (65 <=? c) && (c <=? 70) then Some (c - 55)
  else None.

(* decode one physical line (without its CRLF, transport padding already removed); returns the
   decoded bytes and whether the line ended in a soft line break ("=" as its last character).
   "=XY" (upper-case hex) is the byte 16*X+Y; any other use of "=" is malformed. *)
Fixpoint qp_dec_line (s : bytes) : option (bytes * bool) :=
  match s with
  | [] => Some ([], false)
  | b :: t =>
      if b =? 61 then
        match t with
        | [] => Some ([], true)
        | h :: l :: t' =>
            match hexval h, hexval l, qp_dec_line t' with
            | Some x, Some y, Some (r, soft) => Some (x * 16 + y :: r, soft)
            | _, _, _ => None
            end
        | _ :: [] => None
        end
      else
        match qp_dec_line t with
        | Some (r, soft) => Some (b :: r, soft)
        | None => None
        end
  end.

(* white space at the end of an encoded line is transport padding (RFC 2045 6.7 rule 3) *)
Fixpoint strip_trailing_ws (s : bytes) : bytes :=
  match s with
  | [] => []
  | b :: t =>
      match strip_trailing_ws t with
      | [] => if is_ws b then [] else [b]
      | r => b :: r
      end
  end.

Definition cons_hd (b : N) (ls : list bytes) : list bytes :=
  match ls with
  | [] => [[b]]                               (* unreachable: split_crlf never returns [] *)
  | l :: rest => (b :: l) :: rest
  end.

(* strings.Split(s, "\r\n"): the pieces between CRLFs; never empty; the LAST piece is the text
   after the last CRLF (empty when the text ends in CRLF), i.e. the unterminated final line *)
Fixpoint split_crlf (s : bytes) : list bytes :=
  match s with
  | [] => [[]]
  | b :: t =>
      match t with
      | c :: t' => if (b =? 13) && (c =? 10) then [] :: split_crlf t' else cons_hd b (split_crlf t)
      | [] => [[b]]
      end
  end.

(* every piece but the last was terminated by CRLF: that CRLF is a hard line break of the content
   unless the line ended in a soft line break.  The last piece has no line break after it, so
   nothing is appended (a text ending in CRLF has an empty last piece). *)
Fixpoint qp_dec_lines (ls : list bytes) : option bytes :=
  match ls with
  | [] => Some []
  | l :: rest =>
      match qp_dec_line (strip_trailing_ws l), qp_dec_lines rest with
      | Some (d, soft), Some r =>
          Some (d ++ (match rest with [] => [] | _ :: _ => if soft then [] else crlf end) ++ r)
      | _, _ => None
      end
  end.

Definition qp_decode (s : bytes) : option bytes := qp_dec_lines (split_crlf s).

(* ---- the text the caller supplied, with canonical line breaks (C01: quoted-printable text is
   compared modulo LF -> CRLF): every line break, written CRLF or lone LF, becomes CRLF.
   An LF emits CRLF; a CR directly before an LF is the first half of that line break. ---- *)
Definition next_is_lf (t : bytes) : bool :=
  match t with c :: _ => c =? 10 | [] => false end.

Fixpoint canon_crlf (s : bytes) : bytes :=
  match s with
  | [] => []
  | b :: t =>
      if b =? 10 then 13 :: 10 :: canon_crlf t
      else if (b =? 13) && next_is_lf t then canon_crlf t
      else b :: canon_crlf t
  end.

(* text whose line breaks are CRLF or LF: every CR is immediately followed by LF *)
Fixpoint no_bare_cr (s : bytes) : bool :=
  match s with
  | [] => true
  | b :: t => (if b =? 13 then next_is_lf t else true) && no_bare_cr t
  end.
