(* Lines.v — line discipline of a text, without a length bound: CR and LF occur only as the pair
   CRLF and the text consists of complete lines (it is empty or ends in CRLF). *)
From Verif Require Export Bytes.
Open Scope nat_scope.

(* state 0: at the beginning of a line, 1: inside a line, 2: after CR *)
Fixpoint crlf_st (st : nat) (s : bytes) : bool :=
  match s with
  | [] => Nat.eqb st 0
  | b :: t =>
      match st with
      | 2 => N.eqb b 10 && crlf_st 0 t
      | _ => if N.eqb b 13 then crlf_st 2 t else if N.eqb b 10 then false else crlf_st 1 t
      end
  end.

(* no bare CR, no bare LF, complete lines only *)
Definition crlf_only (s : bytes) : bool := crlf_st 0 s.

(* no bare CR, no bare LF; the last line may lack its CRLF (equivalently: the text becomes a
   sequence of complete lines when a final CRLF is appended — Lines_proofs: no_bare_spec) *)
Fixpoint bare_free_st (st : nat) (s : bytes) : bool :=
  match s with
  | [] => negb (Nat.eqb st 2)
  | b :: t =>
      match st with
      | 2 => N.eqb b 10 && bare_free_st 0 t
      | _ => if N.eqb b 13 then bare_free_st 2 t else if N.eqb b 10 then false else bare_free_st 1 t
      end
  end.
Definition no_bare_crlf (s : bytes) : bool := bare_free_st 0 s.
