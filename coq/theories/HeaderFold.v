(* HeaderFold.v — msgWriter.writeHeader (msgwriter.go) transliterated. *)
From Coq Require Import String.
From Verif Require Export Bytes.
From VerifGen Require Import Gen.
From Coq Require Import ZArith.
Open Scope Z_scope.

Definition zlen (s : bytes) : Z := Z.of_nat (length s).
Definition max_header : Z := Z.of_N Gen.max_header_length.

(* the loop over words: state = (buffer, charLength); [last] tells whether this is the final word *)
Fixpoint wh_words (buf : bytes) (cl : Z) (words : list bytes) : bytes :=
  match words with
  | [] => buf
  | w :: rest =>
      let '(buf1, cl1) :=
        if cl - zlen w <=? 1 then (buf ++ crlf ++ [32%N], max_header - 3) else (buf, cl) in
      let buf2 := buf1 ++ w in
      let '(buf3, cl2) :=
        match rest with
        | [] => (buf2, cl1)
        | _ => (buf2 ++ [32%N], cl1 - 1)
        end in
      wh_words buf3 (cl2 - zlen w) rest
  end.

Definition starts_crlf (t : bytes) : bool :=
  match t with c1 :: c2 :: _ => (N.eqb c1 13 && N.eqb c2 10)%bool | _ => false end.

(* strings.ReplaceAll(s, " \r\n", "\r\n") *)
Fixpoint drop_sp_before_crlf (s : bytes) : bytes :=
  match s with
  | [] => []
  | b :: t => if (N.eqb b 32 && starts_crlf t)%bool then drop_sp_before_crlf t
              else b :: drop_sp_before_crlf t
  end.

(* strings.Count(s, "\r\n"): non-overlapping occurrences; [skip] = the LF of a counted CRLF *)
Fixpoint count_crlf_aux (skip : bool) (s : bytes) : nat :=
  match s with
  | [] => O
  | b :: t => if skip then count_crlf_aux false t
              else if (N.eqb b 13 && match t with c :: _ => N.eqb c 10 | [] => false end)%bool
                   then S (count_crlf_aux true t) else count_crlf_aux false t
  end.
Definition count_crlf (s : bytes) : nat := count_crlf_aux false s.

(* the string handed to the first writeString of writeHeader (no final CRLF) *)
Definition wh_buffer (key : bytes) (values : list bytes) : bytes :=
  let cl := max_header - 2 - zlen key - 2 in
  let full := join (bs ", ") values in
  let words := split_on 32 full in
  drop_sp_before_crlf (wh_words (key ++ bs ": ") cl words).

(* writeHeader: returns the bytes handed to writeString (two calls: the buffer, then CRLF) and
   the line count.  With no values nothing is written and 0 is returned. *)
Definition write_header (key : bytes) (values : list bytes) : bytes * nat :=
  match values with
  | [] => ([], 0%nat)
  | _ => let s := wh_buffer key values in (s ++ crlf, S (count_crlf s))
  end.

(* RFC 5322 unfolding: remove every CRLF that is immediately followed by SP or TAB.
   [pend] = 0: nothing pending, 1: a CR is pending, 2: CR LF is pending. *)
Fixpoint unfold_st (pend : nat) (s : bytes) : bytes :=
  match s with
  | [] => match pend with O => [] | S O => [13%N] | _ => [13%N; 10%N] end
  | b :: t =>
      match pend with
      | O => if N.eqb b 13 then unfold_st 1 t else b :: unfold_st 0 t
      | S O => if N.eqb b 10 then unfold_st 2 t
               else if N.eqb b 13 then 13%N :: unfold_st 1 t
               else 13%N :: b :: unfold_st 0 t
      | _ => if (N.eqb b 32 || N.eqb b 9)%bool then b :: unfold_st 0 t
             else if N.eqb b 13 then 13%N :: 10%N :: unfold_st 1 t
             else 13%N :: 10%N :: b :: unfold_st 0 t
      end
  end.
Definition unfold_hdr (s : bytes) : bytes := unfold_st 0 s.
