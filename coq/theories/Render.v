(* Render.v — the byte string a resolved message renders to, as plain functions (no writer
   state): a MIME tree, its serialisation with the delimiter rule of mime/multipart.Writer,
   and the tree write_resolved (Writer.v) produces.  RenderProofs.v proves that the
   state-passing model writes exactly [render_pure] on a destination that never fails. *)
From Coq Require Import String.
From Verif Require Export Bytes Base64 LineBreaker QP HeaderFold WordEnc Writer MimeTree.
From VerifGen Require Import Gen.
Open Scope nat_scope.

(* ---------- MIME trees (MimeTree.v) and their serialisation ---------- *)
(* multipart.Writer: the first part of a writer is introduced by "--b CRLF", every later one by
   "CRLF --b CRLF"; Close writes "CRLF --b-- CRLF" *)
Definition delim (b : bytes) (started : bool) : bytes :=
  (if started then crlf else []) ++ dashdash ++ b ++ crlf.
Definition close_delim (b : bytes) : bytes := crlf ++ dashdash ++ b ++ dashdash ++ crlf.

Fixpoint frame_from (b : bytes) (started : bool) (kids : list bytes) : bytes :=
  match kids with
  | [] => []
  | k :: r => delim b started ++ k ++ frame_from b true r
  end.
Definition mp_frame (b : bytes) (kids : list bytes) : bytes := frame_from b false kids ++ close_delim b.

Fixpoint ser_node (t : node) : bytes :=
  match t with
  | Leaf h body => h ++ crlf ++ body
  | Multi h b kids => h ++ crlf ++ mp_frame b (map ser_node kids)
  end.

(* ---------- header blocks ---------- *)
(* what msgWriter.writeHeader hands to the destination *)
Definition hline (key : bytes) (values : list bytes) : bytes := fst (write_header key values).

(* the header block startMP announces a multipart with: at depth 0 it is written as
   "Content-Type: …" + DoubleNewLine, below that through CreatePart — the same bytes *)
Definition mp_hdr (mime b : bytes) : bytes :=
  bs "Content-Type: " ++ (bs "multipart/" ++ mime ++ bs ";" ++ crlf ++ bs " boundary=" ++ b) ++ crlf.

Definition part_cs (msg_charset : bytes) (p : part) : bytes :=
  match p_charset p with [] => msg_charset | c => c end.
Definition part_ctype (msg_charset : bytes) (p : part) : bytes :=
  p_ctype p ++ bs "; charset=" ++ part_cs msg_charset p.

(* header block of a body part.  [folded] = the part is written at depth 0 by the plain render:
   two folded writeHeader fields (transfer encoding first, no description).  Otherwise (inside
   a multipart, or at depth 0 in the enclosed form of the S/MIME pre-render): the sorted
   unfolded lines of CreatePart / writePartHeader. *)
Definition part_kvs (wenc : N) (msg_charset : bytes) (p : part) : list (bytes * list bytes) :=
  (match p_desc p with [] => [] | d => [(h_cdesc, [word_encode wenc d])] end)
  ++ [(h_cte, [enc_name (p_enc p)]); (h_ctype, [part_ctype msg_charset p])].

Definition part_hdr (folded : bool) (wenc : N) (msg_charset : bytes) (p : part) : bytes :=
  if folded then hline h_cte [enc_name (p_enc p)] ++ hline h_ctype [part_ctype msg_charset p]
  else part_header_lines (part_kvs wenc msg_charset p).

Definition file_kvs (f : file) : list (bytes * list bytes) :=
  map (fun kv => (fst kv, [snd kv])) (f_hdr f).

(* header block of an embed / attachment whose header cache is filled *)
Definition file_hdr (folded : bool) (f : file) : bytes :=
  if folded then flat_map (fun kv => hline (fst kv) (snd kv)) (sort_kv (file_kvs f))
  else part_header_lines (file_kvs f).

Definition part_leaf (m : msg) (folded : bool) (p : part) : node :=
  Leaf (part_hdr folded (m_wenc m) (m_charset m) p) (encode_body (p_enc p) (p_prod p)).

Definition file_leaf (folded : bool) (fe : file * enc) : node :=
  Leaf (file_hdr folded (fst fe)) (encode_body (snd fe) (f_prod (fst fe))).

(* ---------- the top-level header block ---------- *)
Definition gen_text (gen : list (bytes * list bytes)) : bytes :=
  flat_map (fun kv => hline (fst kv) (snd kv)) (sort_kv gen).

Definition preform_text (pre : list (bytes * bytes)) : bytes :=
  flat_map (fun kv => fst kv ++ bs ": " ++ snd kv ++ crlf) (sort_kv pre).

Definition addr_text (m : msg) : bytes :=
  (match m_from m with Some f => hline Gen.hdr_from [f] | None => [] end) ++
  flat_map (fun k => match find (fun kv => bytes_eqb (fst kv) k) (m_addr m) with
                     | Some kv => hline k (snd kv)
                     | None => []
                     end) Gen.render_addr_headers.

Definition top_headers (m : msg) : bytes :=
  gen_text (m_gen m) ++ preform_text (m_preform m) ++ addr_text m.

(* ---------- the tree of a resolved message ---------- *)
(* one "if msg.hasX() { startMP … stopMP }" layer: when present, everything inside becomes the
   children of one multipart node (and is below depth 0); when absent the content stays at the
   enclosing level.  [folded] = the enclosing level is depth 0 of a plain render. *)
Definition wrap_mp (c : bool) (mime b : bytes) (inner : bool -> list node) (folded : bool) : list node :=
  if c then [Multi (mp_hdr mime b) b (inner false)] else inner folded.

(* mixed > related > alternative > parts; embeds after the alternative layer inside related
   (or the enclosing level); attachments after the related layer inside mixed (or the
   enclosing level) — exactly the order of write_entity *)
Definition alt_level (z : rmsg) : bool -> list node :=
  let m := z_msg z in
  wrap_mp (has_alt m) Gen.mime_alternative (m_balt m) (fun fo => map (part_leaf m fo) (m_parts m)).

Definition rel_level (z : rmsg) : bool -> list node :=
  let m := z_msg z in
  wrap_mp (has_related m) Gen.mime_related (m_brelated m)
          (fun fo => alt_level z fo ++ map (file_leaf fo) (z_embeds z)).

Definition mix_level (z : rmsg) : bool -> list node :=
  let m := z_msg z in
  wrap_mp (has_mixed m) Gen.mime_mixed (m_bmixed m)
          (fun fo => rel_level z fo ++ map (file_leaf fo) (z_attach z)).

(* what write_entity encl writes at depth 0: one entity as soon as the message has any part,
   embed or attachment (forest_single in RenderProofs.v).  encl = msgWriter.enclosedForm. *)
Definition forest_gen (encl : bool) (z : rmsg) : list node := mix_level z (negb encl).
Definition forest_of (z : rmsg) : list node := forest_gen false z.

Definition body_gen (encl : bool) (z : rmsg) : bytes := concat (map ser_node (forest_gen encl z)).
Definition body_pure (z : rmsg) : bytes := body_gen false z.

Definition render_pure (z : rmsg) : bytes := top_headers (z_msg z) ++ body_pure z.

(* the message as ONE entity: the top-level header block and the header block of the outermost
   node form a single RFC 5322 header *)
Definition prepend_hdr (h0 : bytes) (t : node) : node :=
  match t with
  | Leaf h body => Leaf (h0 ++ h) body
  | Multi h b kids => Multi (h0 ++ h) b kids
  end.

Definition tree_of (z : rmsg) : option node :=
  match forest_of z with
  | [t] => Some (prepend_hdr (top_headers (z_msg z)) t)
  | _ => None
  end.
