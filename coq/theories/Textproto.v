(* Textproto.v — the pieces of net/textproto (go1.23.5) on the SMTP send path, modelled by hand:
   the dot-writer (writer.go: dotWriter.Write / Close, including the CR-CR-LF quirk), the
   server side's dot-decoder (as written in harness/smtpx and RFC 5321 4.5.2), the canonical
   form in which written content arrives, ReadResponse's code matching (reader.go:
   parseCodeLine) and the text of a *textproto.Error ("%03d %s").  No proofs here. *)
From Coq Require Import String.
From Verif Require Export Bytes.
Open Scope N_scope.

(* ---- dot-writer ---- *)
Inductive wstate := WBegin | WBeginLine | WCR | WData.

(* one byte through dotWriter.Write: new state and the bytes handed to the buffered writer *)
Definition dw_byte (st : wstate) (c : N) : wstate * bytes :=
  match st with
  | WBegin | WBeginLine =>
      let pre := if c =? 46 then [46] else [] in
      if c =? 13 then (WCR, pre ++ [c])
      else if c =? 10 then (WBeginLine, pre ++ [13; c])
      else (WData, pre ++ [c])
  | WData =>
      if c =? 13 then (WCR, [c])
      else if c =? 10 then (WBeginLine, [13; c])
      else (WData, [c])
  | WCR => if c =? 10 then (WBeginLine, [c]) else (WData, [c])
  end.

Fixpoint dw_write (st : wstate) (b : bytes) : wstate * bytes :=
  match b with
  | [] => (st, [])
  | c :: t => let (st1, o1) := dw_byte st c in
              let (st2, o2) := dw_write st1 t in (st2, o1 ++ o2)
  end.

(* dotWriter.Close: complete the last line, then ".\r\n" *)
Definition dw_close (st : wstate) : bytes :=
  match st with
  | WBegin | WData => [13; 10; 46; 13; 10]
  | WCR => [10; 46; 13; 10]
  | WBeginLine => [46; 13; 10]
  end.

Fixpoint dw_chunks (st : wstate) (chunks : list bytes) : wstate * bytes :=
  match chunks with
  | [] => (st, [])
  | b :: t => let (st1, o1) := dw_write st b in
              let (st2, o2) := dw_chunks st1 t in (st2, o1 ++ o2)
  end.

(* everything that goes over the wire for one DATA block written in the given chunks *)
Definition dot_encode (chunks : list bytes) : bytes :=
  let (st, o) := dw_chunks WBegin chunks in o ++ dw_close st.

(* ---- canonical form: what the content looks like after dot-unstuffing at the server ---- *)
Definition dc_byte (st : wstate) (c : N) : wstate * bytes :=
  match st with
  | WCR => if c =? 10 then (WBeginLine, [c]) else (WData, [c])
  | _ =>
      if c =? 13 then (WCR, [c])
      else if c =? 10 then (WBeginLine, [13; c])
      else (WData, [c])
  end.

Fixpoint dc_run (st : wstate) (b : bytes) : wstate * bytes :=
  match b with
  | [] => (st, [])
  | c :: t => let (st1, o1) := dc_byte st c in
              let (st2, o2) := dc_run st1 t in (st2, o1 ++ o2)
  end.

Definition dc_end (st : wstate) : bytes :=
  match st with
  | WBegin | WData => [13; 10]
  | WCR => [10]
  | WBeginLine => []
  end.

Definition dotcanon (content : bytes) : bytes :=
  let (st, o) := dc_run WBegin content in o ++ dc_end st.

(* ---- the receiving side: lines up to LF; ".CRLF" ends the block; one leading dot is removed ---- *)
Definition unstuff (line : bytes) : bytes :=
  match line with
  | c :: t => if c =? 46 then t else line
  | [] => []
  end.

(* wire: remaining bytes; line: current line so far, reversed; acc: decoded content so far.
   Result: decoded content and the bytes following the terminator; None = terminator missing. *)
Fixpoint dot_decode_from (wire : bytes) (line : bytes) (acc : bytes) : option (bytes * bytes) :=
  match wire with
  | [] => None
  | c :: t =>
      if c =? 10 then
        let l := rev (c :: line) in
        if bytes_eqb l [46; 13; 10] then Some (acc, t)
        else dot_decode_from t [] (acc ++ unstuff l)
      else dot_decode_from t (c :: line) acc
  end.

Definition dot_decode (wire : bytes) : option (bytes * bytes) := dot_decode_from wire [] [].

(* ---- ReadResponse: does the reply code satisfy expectCode?  (parseCodeLine) ---- *)
Definition expect_ok (expect code : N) : bool :=
  if (1 <=? expect) && (expect <? 10) then code / 100 =? expect
  else if (10 <=? expect) && (expect <? 100) then code / 10 =? expect
  else if (100 <=? expect) && (expect <? 1000) then code =? expect
  else true.

(* ---- ( *textproto.Error).Error() = fmt.Sprintf("%03d %s", code, msg); codes are 100..999 ---- *)
Definition fmt03d (code : N) : bytes :=
  [48 + (code / 100) mod 10; 48 + (code / 10) mod 10; 48 + code mod 10].

Definition reply_error_text (code : N) (msg : bytes) : bytes := fmt03d code ++ [32] ++ msg.
