(* Smime.v — Msg.signMessage and the multipart/signed rendering of msgWriter.writeMsg.
   The CMS signer (internal/pkcs7 + crypto) is an oracle function bytes -> bytes. *)
From Coq Require Import String.
From Verif Require Export Writer.
From VerifGen Require Import Gen.
Open Scope nat_scope.

(* the text after the first CRLF *)
Fixpoint after_crlf (s : bytes) : option bytes :=
  match s with
  | [] => None
  | b :: t => if (N.eqb b 13 && match t with c :: _ => N.eqb c 10 | [] => false end)%bool
              then Some (tl t) else after_crlf t
  end.

(* signMessage: skip [n] CRLF-terminated lines; None = "unable to find message body starting index" *)
Fixpoint skip_lines (n : nat) (s : bytes) : option bytes :=
  match n with
  | O => Some s
  | S k => match after_crlf s with Some r => skip_lines k r | None => None end
  end.

(* the pre-rendering of signMessage (msgWriter.enclosedForm = true, into a bytes.Buffer) and the
   bytes handed to the signer: everything after the counted header lines.  A render error of the
   pre-rendering makes signMessage fail (repo fix "S/MIME signing fails when the message cannot be
   rendered for signing"; T1: Gen.sign_checks_prerender_error). *)
Definition prerender (z : rmsg) : mw := write_resolved_gen true z (mw_init unlimited).

Definition sign_input (z : rmsg) : option bytes :=
  skip_lines (hcount (prerender z)) (accepted (snk (prerender z))).

(* writePart for the signature part (part.smime: content type without charset, base64) *)
Definition write_sig_part (sig : bytes) (st : mw) : mw :=
  let st1 := if Nat.eqb (depth st) 0
             then write_string crlf (write_header_uncounted h_ctype [Gen.smime_sig_type]
                                       (write_header_uncounted h_cte [Gen.enc_b64] st))
             else new_part [(h_cte, [Gen.enc_b64]); (h_ctype, [Gen.smime_sig_type])] st in
  if err st1 then st1 else st1 |> write_body (mkprod [sig] false) EncB64.

(* writeMsg for a message with S/MIME configured: multipart/signed wrapper with boundary sb *)
Definition write_resolved_signed (z : rmsg) (sb sig : bytes) (st : mw) : mw :=
  let st4 := write_top_headers z st in
  let st5 := start_mp Gen.mime_smime_signed sb false st4 |> write_string Gen.double_newline in
  let st6 := st5 |> write_entity false z in
  let st7 := st6 |> write_sig_part sig in
  st7 |> stop_mp.

Record sresult := mksres { s_out : bytes; s_n : nat; s_err : bool; s_panic : bool; s_msg : msg; s_input : option bytes }.

(* Msg.WriteTo with S/MIME: resolve, pre-render, sign, render.  [signer] is the CMS oracle. *)
Definition write_to_signed (signer : bytes -> bytes) (date msgid : bytes) (rb : list bytes) (sb : bytes)
                           (m : msg) (k : sink) : sresult :=
  let z := resolve date msgid rb m in
  (* signMessage: "if mw.err != nil { return … }" — WriteTo then returns (0, err): nothing is signed,
     nothing is written; the Msg keeps what the pre-render resolved *)
  if err (prerender z) then mksres [] 0 true false (z_msg z) None
  else
  match sign_input z with
  | None => mksres [] 0 true false (z_msg z) None
  | Some inp =>
      let st := write_resolved_signed z sb (signer inp) (mw_init k) in
      mksres (accepted (snk st)) (bw st) (err st) (panicked st) (z_msg z) (Some inp)
  end.

(* the code before that fix: the pre-render's error was ignored (kept for C08_prerender_error_before_fix_refuted) *)
Definition write_to_signed_before_fix (signer : bytes -> bytes) (date msgid : bytes) (rb : list bytes) (sb : bytes)
                                      (m : msg) (k : sink) : sresult :=
  let z := resolve date msgid rb m in
  match sign_input z with
  | None => mksres [] 0 true false (z_msg z) None
  | Some inp =>
      let st := write_resolved_signed z sb (signer inp) (mw_init k) in
      mksres (accepted (snk st)) (bw st) (err st) (panicked st) (z_msg z) (Some inp)
  end.
