(* SendErr.v — senderror.go: the error values that reach sendSingleMsg and the three classifiers
   isTempError / errorCode / enhancedStatusCode working on err.Error().  Go's regexp engine is not
   modelled: the two patterns that occur (the anchored one of the repaired code and the
   unanchored one of the original code) have hand-written matchers; which one is used is decided
   by the regular-expression literal read from the source (Gen.esc_regex).  No proofs here. *)
From Coq Require Import String.
From Verif Require Export Bytes Textproto.
Open Scope N_scope.

(* errors as far as their Error() text and one level of Unwrap matter *)
Inductive err :=
| EReply (code : N) (text : bytes)   (* *textproto.Error: unexpected reply *)
| EIO                                 (* io.EOF / closed pipe / use of closed connection / timeout *)
| ELocal (text : bytes)               (* errors created locally; no Unwrap *)
| EWrap (prefix : bytes) (e : err).   (* fmt.Errorf(prefix + "%w", e) *)

Fixpoint err_string (e : err) : bytes :=
  match e with
  | EReply c t => reply_error_text c t
  | EIO => bs "EOF"
  | ELocal t => t
  | EWrap p e' => p ++ err_string e'
  end.

(* errors.Unwrap, once; nil -> keep *)
Definition unwrap1 (e : err) : err :=
  match e with
  | EWrap _ e' => e'
  | _ => e
  end.

Definition first_byte (s : bytes) : N := match s with c :: _ => c | [] => 0 end.

(* isTempError: err.Error()[0] == '4'; the repaired code unwraps once first *)
Definition is_temp_error (unwrap : bool) (e : err) : bool :=
  first_byte (err_string (if unwrap then unwrap1 e else e)) =? 52.

Definition is_digit (c : N) : bool := (48 <=? c) && (c <=? 57).

(* errorCode: unwrap once; first rune must be '4' or '5'; Atoi of the first three bytes *)
Definition error_code (e : err) : N :=
  let s := err_string (unwrap1 e) in
  let f := first_byte s in
  if (f <? 52) || (53 <? f) then 0
  else match s with
       | a :: b :: c :: _ =>
           if is_digit a && is_digit b && is_digit c
           then (a - 48) * 100 + (b - 48) * 10 + (c - 48) else 0
       | _ => 0
       end.

(* ---- matchers for the enhanced status code ---- *)
Definition is_word (c : N) : bool :=
  is_digit c || ((65 <=? c) && (c <=? 90)) || ((97 <=? c) && (c <=? 122)) || (c =? 95).

(* a run of 1..3 digits; returns the run and the rest.  \d{1,3} followed by something that is not a
   digit can only match the whole run, so no backtracking is needed for these two patterns. *)
Fixpoint take_digits (s : bytes) : bytes * bytes :=
  match s with
  | c :: t => if is_digit c then let (d, r) := take_digits t in (c :: d, r) else ([], s)
  | [] => ([], [])
  end.

Definition digits13 (s : bytes) : option (bytes * bytes) :=
  let (d, r) := take_digits s in
  match d with
  | [_] | [_; _] | [_; _; _] => Some (d, r)
  | _ => None
  end.

(* [245]\.\d{1,3}\.\d{1,3}\b at the start of s *)
Definition at_boundary (r : bytes) : bool := match r with [] => true | x :: _ => negb (is_word x) end.

Definition esc_here (s : bytes) : option bytes :=
  match s with
  | c :: p :: r1 =>
      if ((c =? 50) || (c =? 52) || (c =? 53)) && (p =? 46) then
        match digits13 r1 with
        | Some (d1, q :: r2) =>
            if q =? 46 then
              match digits13 r2 with
              | Some (d2, r3) => if at_boundary r3 then Some (c :: 46 :: d1 ++ 46 :: d2) else None
              | None => None
              end
            else None
        | _ => None
        end
      else None
  | _ => None
  end.

Definition opt_bytes (o : option bytes) : bytes := match o with Some b => b | None => [] end.

(* ^\d{3} ([245]\.\d{1,3}\.\d{1,3})\b   — the repaired code: only at the start of the reply text *)
Definition esc_anchored (s : bytes) : bytes :=
  match s with
  | a :: b :: c :: sp :: r =>
      if is_digit a && is_digit b && is_digit c && (sp =? 32) then opt_bytes (esc_here r) else []
  | _ => []
  end.

(* \b([245])\.\d{1,3}\.\d{1,3}\b  — the original code: leftmost match anywhere in the text *)
Fixpoint esc_anywhere_from (prev_word : bool) (s : bytes) : bytes :=
  match s with
  | [] => []
  | c :: t =>
      match (if prev_word then None else esc_here s) with
      | Some m => m
      | None => esc_anywhere_from (is_word c) t
      end
  end.
Definition esc_anywhere (s : bytes) : bytes := esc_anywhere_from false s.

Definition re_anchored : bytes := bs "^\d{3} ([245]\.\d{1,3}\.\d{1,3})\b".
Definition re_anywhere : bytes := bs "\b([245])\.\d{1,3}\.\d{1,3}\b".

(* enhancedStatusCode(err, supported) with the pattern found in the source *)
Definition enhanced_status_code (re : bytes) (e : err) (supported : bool) : bytes :=
  if negb supported then []
  else
    let s := err_string (unwrap1 e) in
    let f := first_byte s in
    if negb ((f =? 50) || (f =? 52) || (f =? 53)) then []
    else if bytes_eqb re re_anchored then esc_anchored s
    else if bytes_eqb re re_anywhere then esc_anywhere s
    else [].
