(* Paths.v — the output paths of a Msg and the edits between renders (msg.go, reader.go).
     WriteTo(w) / Write(w) / WriteToSkipMiddleware(w, t)   one render into the destination w (a sink)
     WriteToFile / WriteToTempFile                         WriteTo into the created file (a sink: a full disk
                                                            is a failing sink); the file holds what it accepted
     Client.Send                                           WriteTo into the DATA writer (a sink); what the
                                                            server commits ends in CRLF (the dot-writer
                                                            completes an unterminated last line)
     NewReader()                                           Reader{buffer: one render into a bytes.Buffer, err}
     UpdateReader(r)                                       r.Reset(); r.buffer = a new render; r.err = its error
     Reader.Read(p)                                        error if r.err; EOF when drained; else copy
   Every render draws from the oracles (time, random message id, random boundaries, and for a signed
   message the wrapper boundary): each rendering operation carries the draws it would consume.
   With S/MIME configured every path except WriteToSkipMiddleware goes through signMessage (WriteTo calls
   it; WriteToSkipMiddleware calls writeMsg directly and emits the unsigned message): the render function
   is a parameter, and the statements about signed messages exclude that path ([signing_op]). *)
From Coq Require Import String.
From Verif Require Import Bytes Writer Smime Builder Setters.
From Coq Require Import List.
Import ListNotations.
Open Scope nat_scope.

Record oracle := mkor { o_date : bytes; o_msgid : bytes; o_rb : list bytes; o_sb : bytes }.

(* the result of one render, plain or signed *)
Record rres := mkrr { rr_out : bytes; rr_n : nat; rr_err : bool; rr_panic : bool; rr_msg : msg; rr_input : option bytes }.

Definition render_plain (o : oracle) (m : msg) (k : sink) : rres :=
  let r := write_to (o_date o) (o_msgid o) (o_rb o) m k in
  mkrr (r_out r) (r_n r) (r_err r) (r_panic r) (r_msg r) None.

Definition render_signed (signer : bytes -> bytes) (o : oracle) (m : msg) (k : sink) : rres :=
  let r := write_to_signed signer (o_date o) (o_msgid o) (o_rb o) (o_sb o) m k in
  mkrr (s_out r) (s_n r) (s_err r) (s_panic r) (s_msg r) (s_input r).

Inductive path := PWriteTo | PWrite | PSkipMw | PFile | PTempFile | PSend.

(* textproto's dot-writer: a last line without CRLF is completed *)
Definition data_canon (s : bytes) : bytes :=
  match rev s with
  | [] => []
  | 10%N :: 13%N :: _ => s
  | _ => s ++ crlf
  end.

(* what the path delivers, given what the destination accepted *)
Definition path_view (p : path) (out : bytes) (err : bool) : bytes :=
  match p with
  | PSend => if err then out else data_canon out
  | _ => out
  end.

Record reader := mkrd { rd_buf : bytes; rd_err : bool }.

Inductive op :=
| ORender (p : path) (o : oracle) (k : sink)
| ONewReader (o : oracle)
| OUpdateReader (o : oracle)
| ORead (n : nat)
| OEdit (c : cop).

Inductive rstatus := RdOk | RdEOF | RdErr.

Inductive output :=
| OutRender (p : path) (data : bytes) (n : nat) (err : bool) (input : option bytes)
| OutFilled (err : bool)
| OutRead (data : bytes) (st : rstatus)
| OutNoReader
| OutEdit.

Record pstate := mkps { ps_b : bstate; ps_rd : option reader }.

Definition set_msg (st : pstate) (m : msg) : pstate := mkps (mkb (b_enc (ps_b st)) m) (ps_rd st).

Section Run.
  Variable rf : oracle -> msg -> sink -> rres.

  Definition fill (st : pstate) (o : oracle) : pstate * output :=
    let r := rf o (b_msg (ps_b st)) unlimited in
    (mkps (mkb (b_enc (ps_b st)) (rr_msg r)) (Some (mkrd (rr_out r) (rr_err r))), OutFilled (rr_err r)).

  Definition read_rd (rd : reader) (n : nat) : reader * output :=
    if rd_err rd then (rd, OutRead [] RdErr)
    else match rd_buf rd with
         | [] => (rd, OutRead [] (if Nat.eqb n 0 then RdOk else RdEOF))
         | _ => (mkrd (skipn n (rd_buf rd)) false, OutRead (firstn n (rd_buf rd)) RdOk)
         end.

  Definition run_op (st : pstate) (x : op) : pstate * output :=
    match x with
    | ORender p o k =>
        let r := rf o (b_msg (ps_b st)) k in
        (set_msg st (rr_msg r), OutRender p (path_view p (rr_out r) (rr_err r)) (rr_n r) (rr_err r) (rr_input r))
    | ONewReader o => fill st o
    | OUpdateReader o => match ps_rd st with Some _ => fill st o | None => (st, OutNoReader) end
    | ORead n => match ps_rd st with
                 | Some rd => let '(rd', out) := read_rd rd n in (mkps (ps_b st) (Some rd'), out)
                 | None => (st, OutNoReader)
                 end
    | OEdit c => (mkps (apply_cop (ps_b st) c) (ps_rd st), OutEdit)
    end.

  Fixpoint run_ops (st : pstate) (ops : list op) : pstate * list output :=
    match ops with
    | [] => (st, [])
    | x :: r => let '(st1, out) := run_op st x in
                let '(st2, outs) := run_ops st1 r in (st2, out :: outs)
    end.
End Run.

(* the reference machine: every render is a fixed function of the volatile draw (the wrapper boundary
   of a signed message) and of the destination; the message never changes *)
Section Ref.
  Variable f : bytes -> sink -> rres.

  Definition ref_fill (o : oracle) : reader * output :=
    let r := f (o_sb o) unlimited in (mkrd (rr_out r) (rr_err r), OutFilled (rr_err r)).

  Definition ref_op (rd : option reader) (x : op) : option reader * output :=
    match x with
    | ORender p o k => let r := f (o_sb o) k in
                       (rd, OutRender p (path_view p (rr_out r) (rr_err r)) (rr_n r) (rr_err r) (rr_input r))
    | ONewReader o => let '(r, out) := ref_fill o in (Some r, out)
    | OUpdateReader o => match rd with Some _ => let '(r, out) := ref_fill o in (Some r, out) | None => (rd, OutNoReader) end
    | ORead n => match rd with
                 | Some r => let '(r', out) := read_rd r n in (Some r', out)
                 | None => (rd, OutNoReader)
                 end
    | OEdit _ => (rd, OutEdit)
    end.

  Fixpoint ref_ops (rd : option reader) (ops : list op) : option reader * list output :=
    match ops with
    | [] => (rd, [])
    | x :: r => let '(rd1, out) := ref_op rd x in
                let '(rd2, outs) := ref_ops rd1 r in (rd2, out :: outs)
    end.
End Ref.

Definition is_edit (x : op) : bool := match x with OEdit _ => true | _ => false end.

(* the operations that sign when S/MIME is configured: all but WriteToSkipMiddleware *)
Definition signing_op (x : op) : bool := match x with ORender PSkipMw _ _ => false | _ => true end.

(* reading a filled Reader to the end with the given buffer sizes: the data of the successful reads *)
Fixpoint drain (rd : reader) (sizes : list nat) : bytes :=
  match sizes with
  | [] => []
  | n :: r => match read_rd rd n with
              | (rd', OutRead d RdOk) => d ++ drain rd' r
              | _ => []
              end
  end.
