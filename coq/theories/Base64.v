(* Base64.v — encoding/base64 StdEncoding (with padding) on byte lists, and its decoder. *)
From Verif Require Export Bytes.
Open Scope N_scope.

(* sextet -> alphabet character *)
Definition b64char (n : N) : N :=
  if n <? 26 then 65 + n            (* A-Z *)
  else if n <? 52 then 97 + (n - 26) (* a-z *)
  else if n <? 62 then 48 + (n - 52) (* 0-9 *)
  else if n =? 62 then 43            (* + *)
  else 47.                           (* / *)

Definition b64val (c : N) : option N :=
  if (65 <=? c) && (c <=? 90) then Some (c - 65)
  else if (97 <=? c) && (c <=? 122) then Some (c - 97 + 26)
  else if (48 <=? c) && (c <=? 57) then Some (c - 48 + 52)
  else if c =? 43 then Some 62
  else if c =? 47 then Some 63
  else None.

Definition PAD : N := 61.

Fixpoint b64enc (s : bytes) : bytes :=
  match s with
  | [] => []
  | [a] => [b64char (a / 4); b64char ((a mod 4) * 16); PAD; PAD]
  | [a; b] => [b64char (a / 4); b64char ((a mod 4) * 16 + b / 16);
               b64char ((b mod 16) * 4); PAD]
  | a :: b :: c :: t =>
      b64char (a / 4) :: b64char ((a mod 4) * 16 + b / 16) ::
      b64char ((b mod 16) * 4 + c / 64) :: b64char (c mod 64) :: b64enc t
  end.

(* decoder: groups of four; padding only in the last group *)
Fixpoint b64dec (s : bytes) : option bytes :=
  match s with
  | [] => Some []
  | [c1; c2; p1; p2] =>
      match b64val c1, b64val c2 with
      | Some v1, Some v2 =>
          if (p1 =? PAD) && (p2 =? PAD) then Some [v1 * 4 + v2 / 16]
          else match b64val p1 with
               | Some v3 =>
                   if p2 =? PAD then Some [v1 * 4 + v2 / 16; (v2 mod 16) * 16 + v3 / 4]
                   else match b64val p2 with
                        | Some v4 => Some [v1 * 4 + v2 / 16; (v2 mod 16) * 16 + v3 / 4;
                                           (v3 mod 4) * 64 + v4]
                        | None => None
                        end
               | None => None
               end
      | _, _ => None
      end
  | c1 :: c2 :: c3 :: c4 :: t =>
      match b64val c1, b64val c2, b64val c3, b64val c4, b64dec t with
      | Some v1, Some v2, Some v3, Some v4, Some r =>
          Some (v1 * 4 + v2 / 16 :: (v2 mod 16) * 16 + v3 / 4 :: (v3 mod 4) * 64 + v4 :: r)
      | _, _, _, _, _ => None
      end
  | _ => None
  end.

(* remove CR and LF (what a MIME reader does before base64-decoding a body) *)
Definition strip_crlf (s : bytes) : bytes := filter no_crlf_byte s.
