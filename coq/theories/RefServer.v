(* RefServer.v — the RFC 5321 reference server of the co-simulation (same automaton as
   harness/smtpx/server.go): transaction state per section 4.1.4, capabilities advertised by the
   latest EHLO, data mode, reply script, legality verdict for every command, commit log.
   A script is the list of the server's remaining decisions; the empty script means "all further
   decisions are OK", so a finite script lists the deviations only.  No proofs here. *)
From Coq Require Import String.
From Verif Require Export Bytes Textproto.
Open Scope N_scope.

(* the extensions the code consults (Extension(...) / c.ext[...]: Gen.consulted_extensions; AUTH only with SMTP AUTH
   configured, which this model does not do) and any other EHLO keyword *)
Inductive ext := E8BITMIME | ESMTPUTF8 | EDSN | EENHANCED | ESTARTTLS | EOther (name : bytes).

Definition ext_eqb (a b : ext) : bool :=
  match a, b with
  | E8BITMIME, E8BITMIME | ESMTPUTF8, ESMTPUTF8 | EDSN, EDSN | EENHANCED, EENHANCED | ESTARTTLS, ESTARTTLS => true
  | EOther a, EOther b => bytes_eqb a b
  | _, _ => false
  end.

Definition has_ext (l : list ext) (e : ext) : bool := existsb (ext_eqb e) l.

(* ESMTP parameters of MAIL and RCPT as the client can emit them *)
Inductive param := PBody8 | PSmtpUtf8 | PRet (v : bytes) | PNotify (v : bytes).

Inductive cmd :=
| CGreet                                   (* the connection is opened: the server speaks first *)
| CEhlo (name : bytes)
| CHelo (name : bytes)
| CStartTLS                                (* on 220 both sides start the TLS handshake (an oracle: it succeeds) *)
| CMail (from : bytes) (ps : list param)
| CRcpt (to : bytes) (ps : list param)
| CData
| CEod                                     (* end-of-data: the line "." *)
| CRset | CNoop | CQuit
| CJunk.                                   (* message content received outside data mode *)

Inductive decision := DOk | DRep (code : N) (text : bytes) | DDrop.

Inductive txn := TIdle | TMail | TRcpt.

Record srv := mkSrv {
  s_caps : list ext;        (* what an accepted EHLO advertises before TLS (configuration) *)
  s_caps_tls : list ext;    (* what an accepted EHLO advertises inside TLS (configuration) *)
  s_tls  : bool;            (* STARTTLS was accepted: the session runs inside TLS *)
  s_open : bool;            (* still serving the connection *)
  s_helo : bool;
  s_ext  : list ext;        (* extensions of the latest accepted EHLO ([] after HELO) *)
  s_txn  : txn;
  s_rej  : bool;            (* a RCPT of the open transaction was rejected *)
  s_from : bytes;
  s_rcpt : list bytes;
  s_data : option bytes     (* Some content-so-far = data mode *)
}.

Definition srv_init (caps caps_tls : list ext) : srv :=
  mkSrv caps caps_tls false true false [] TIdle false [] [] None.

Record commit := mkCommit { cm_from : bytes; cm_rcpt : list bytes; cm_data : bytes }.

Definition okclass (c : N) : bool := (200 <=? c) && (c <? 400).

Definition is_idle (t : txn) : bool := match t with TIdle => true | _ => false end.
Definition is_rcpt (t : txn) : bool := match t with TRcpt => true | _ => false end.

(* ---- legality of a command in a server state ---- *)
Definition mail_param_ok (e : list ext) (p : param) : bool :=
  match p with
  | PBody8 => has_ext e E8BITMIME
  | PSmtpUtf8 => has_ext e ESMTPUTF8
  | PRet _ => has_ext e EDSN
  | PNotify _ => false
  end.

Definition rcpt_param_ok (e : list ext) (p : param) : bool :=
  match p with
  | PNotify _ => has_ext e EDSN
  | _ => false
  end.

Definition legal (s : srv) (c : cmd) : bool :=
  match c with
  | CGreet | CEhlo _ | CHelo _ | CRset | CNoop | CQuit => true
  | CStartTLS => has_ext (s_ext s) ESTARTTLS && negb (s_tls s)
  | CMail _ ps => s_helo s && is_idle (s_txn s) && forallb (mail_param_ok (s_ext s)) ps
  | CRcpt _ ps => negb (is_idle (s_txn s)) && forallb (rcpt_param_ok (s_ext s)) ps
  | CData => is_rcpt (s_txn s) && negb (s_rej s)
  | CEod => match s_data s with Some _ => true | None => false end
  | CJunk => false
  end.

(* ---- replies ---- *)
Definition default_code (c : cmd) : N :=
  match c with
  | CGreet | CStartTLS => 220
  | CData => 354
  | CQuit => 221
  | CJunk => 500
  | _ => 250
  end.

Definition default_text (c : cmd) : bytes :=
  match c with
  | CGreet => bs "verif.test ESMTP verif"
  | CEhlo _ | CHelo _ => bs "verif.test"
  | CStartTLS => bs "2.0.0 Ready to start TLS"
  | CMail _ _ => bs "2.1.0 Ok"
  | CRcpt _ _ => bs "2.1.5 Ok"
  | CData => bs "End data with <CR><LF>.<CR><LF>"
  | CEod => bs "2.0.0 Ok: queued"
  | CRset | CNoop => bs "2.0.0 Ok"
  | CQuit => bs "2.0.0 Bye"
  | CJunk => bs "5.5.2 Error: command not recognized"
  end.

(* the reply the server sends for a decision; None = it drops the connection instead *)
Definition reply_of (d : decision) (c : cmd) : option (N * bytes) :=
  match d with
  | DOk => Some (default_code c, default_text c)
  | DRep code t =>
      Some (code, match t with
                  | [] => if okclass code then default_text c else bs "rejected"
                  | _ => t
                  end)
  | DDrop => None
  end.

Definition next_decision (script : list decision) : decision * list decision :=
  match script with
  | [] => (DOk, [])
  | d :: t => (d, t)
  end.

(* ---- state change caused by a command that was answered with [code] ---- *)
Definition set_txn (s : srv) (t : txn) (rej : bool) (from : bytes) (rc : list bytes) : srv :=
  mkSrv (s_caps s) (s_caps_tls s) (s_tls s) (s_open s) (s_helo s) (s_ext s) t rej from rc (s_data s).
Definition set_hello (s : srv) (e : list ext) : srv :=
  mkSrv (s_caps s) (s_caps_tls s) (s_tls s) (s_open s) true e TIdle false (s_from s) [] (s_data s).
Definition set_data (s : srv) (d : option bytes) : srv :=
  mkSrv (s_caps s) (s_caps_tls s) (s_tls s) (s_open s) (s_helo s) (s_ext s) (s_txn s) (s_rej s) (s_from s) (s_rcpt s) d.
Definition set_closed (s : srv) : srv :=
  mkSrv (s_caps s) (s_caps_tls s) (s_tls s) false (s_helo s) (s_ext s) (s_txn s) (s_rej s) (s_from s) (s_rcpt s) (s_data s).
(* STARTTLS accepted: a fresh session inside TLS (RFC 3207: the server discards what it knew, the client must EHLO again) *)
Definition start_tls (s : srv) : srv :=
  mkSrv (s_caps s) (s_caps_tls s) true (s_open s) false [] TIdle false [] [] (s_data s).

Definition srv_apply (s : srv) (c : cmd) (code : N) : srv * option commit :=
  match c with
  | CGreet | CNoop | CJunk => (s, None)
  | CEhlo _ => (if okclass code then set_hello s (if s_tls s then s_caps_tls s else s_caps s) else s, None)
  | CStartTLS => (if code =? 220 then start_tls s else s, None)
  | CHelo _ => (if okclass code then set_hello s [] else s, None)
  | CMail from _ => (if okclass code then set_txn s TMail false from [] else s, None)
  | CRcpt to _ =>
      (if is_idle (s_txn s) then s
       else if okclass code then set_txn s TRcpt (s_rej s) (s_from s) (s_rcpt s ++ [to])
       else set_txn s (s_txn s) true (s_from s) (s_rcpt s), None)
  | CData => (if code =? 354 then set_data s (Some []) else s, None)
  | CEod =>
      match s_data s with
      | Some content =>
          (set_data (set_txn s TIdle false (s_from s) []) None,
           if okclass code then Some (mkCommit (s_from s) (s_rcpt s) (dotcanon content)) else None)
      | None => (s, None)
      end
  | CRset => (if okclass code then set_txn s TIdle false (s_from s) [] else s, None)
  | CQuit => (if code =? 221 then set_closed s else s, None)
  end.

(* one command at the server: consumes one decision.
   Result: new script, new state, reply (None = dropped), legality verdict, commit *)
Definition srv_step (script : list decision) (s : srv) (c : cmd)
  : list decision * srv * option (N * bytes) * bool * option commit :=
  let (d, script') := next_decision script in
  let lg := legal s c in
  match reply_of d c with
  | None => (script', set_closed s, None, lg, None)
  | Some (code, text) =>
      let (s', cm) := srv_apply s c code in
      (script', s', Some (code, text), lg, cm)
  end.

(* bytes of a command line (needed only when a line is received in data mode and becomes content) *)
Definition param_bytes (p : param) : bytes :=
  match p with
  | PBody8 => bs " BODY=8BITMIME"
  | PSmtpUtf8 => bs " SMTPUTF8"
  | PRet v => bs " RET=" ++ v
  | PNotify v => bs " NOTIFY=" ++ v
  end.

Definition cmd_bytes (c : cmd) : bytes :=
  match c with
  | CGreet | CJunk => []
  | CEhlo n => bs "EHLO " ++ n
  | CHelo n => bs "HELO " ++ n
  | CStartTLS => bs "STARTTLS"
  | CMail f ps => bs "MAIL FROM:<" ++ f ++ bs ">" ++ concat (map param_bytes ps)
  | CRcpt t ps => bs "RCPT TO:<" ++ t ++ bs ">" ++ concat (map param_bytes ps)
  | CData => bs "DATA"
  | CEod => bs "."
  | CRset => bs "RSET"
  | CNoop => bs "NOOP"
  | CQuit => bs "QUIT"
  end.
