(* Sasl.v — the five smtp.Auth implementations as [mech] values (auth_plain.go, auth_login.go,
   auth_cram_md5.go, auth_xoauth2.go, auth_scram.go) and, written from the RFCs, the server-side readers /
   verifiers the C14 theorems are stated against (RFC 4616 PLAIN, draft-murchison LOGIN, RFC 2195 CRAM-MD5,
   the XOAUTH2 initial client response, RFC 5802 SCRAM). *)
From Coq Require Import String ZArith.
From Verif Require Export Bytes Base64 Scram AuthLoop.
From VerifGen Require Import Gen.
Open Scope N_scope.

(* ServerInfo as the mechanisms read it *)
Record srvinfo := { si_name : bytes; si_tls : bool }.

Definition is_localhost (n : bytes) : bool :=
  bytes_eqb n (bs "localhost") || bytes_eqb n (bs "127.0.0.1") || bytes_eqb n (bs "::1").

(* ---- PLAIN (auth_plain.go) ---- *)
Record plain_id := { pl_identity : bytes; pl_user : bytes; pl_pass : bytes; pl_host : bytes; pl_allow_unenc : bool }.

Definition plain_msg (a : plain_id) : bytes := pl_identity a ++ [0] ++ pl_user a ++ [0] ++ pl_pass a.

Definition plain_mech (a : plain_id) (si : srvinfo) : mech unit :=
  {| m_start := fun s =>
       if negb (pl_allow_unenc a) && negb (si_tls si) && negb (is_localhost (si_name si)) then (s, None)
       else if negb (bytes_eqb (si_name si) (pl_host a)) then (s, None)
       else (s, Some (bs "PLAIN", Some (plain_msg a)));
     m_next := fun s _ more => if more then (s, None) else (s, Some None) |}.

(* ---- LOGIN (auth_login.go): state = respStep ---- *)
Record login_id := { lg_user : bytes; lg_pass : bytes; lg_host : bytes; lg_allow_unenc : bool }.

(* [start_resets]: Start assigns a.respStep = 0 (read from the source, Gen.login_start_resets_step): a loginAuth value that
   is used for a second exchange begins again with the user name *)
Definition login_mech_cfg (start_resets : bool) (a : login_id) (si : srvinfo) : mech N :=
  {| m_start := fun s =>
       if negb (lg_allow_unenc a) && negb (si_tls si) && negb (is_localhost (si_name si)) then (s, None)
       else if negb (bytes_eqb (si_name si) (lg_host a)) then (s, None)
       else ((if start_resets then 0 else s), Some (bs "LOGIN", None));
     m_next := fun s _ more =>
       if more then
         (if s =? 0 then (1, Some (Some (lg_user a)))
          else if s =? 1 then (2, Some (Some (lg_pass a)))
          else (s, None))
       else (s, Some None) |}.

Definition login_mech : login_id -> srvinfo -> mech N := login_mech_cfg Gen.login_start_resets_step.

(* ---- CRAM-MD5 (auth_cram_md5.go) ---- *)
Definition hexdigit (n : N) : N := if n <? 10 then 48 + n else 87 + n.
Definition hex_of (b : bytes) : bytes := flat_map (fun c => [hexdigit (c / 16); hexdigit (c mod 16)]) b.

Section Cram.
  Variable HMACmd5 : bytes -> bytes -> bytes.     (* hmac.New(md5.New, key) over the message *)

  Definition cram_response (user secret challenge : bytes) : bytes :=
    user ++ bs " " ++ hex_of (HMACmd5 secret challenge).

  Definition cram_mech (user secret : bytes) : mech unit :=
    {| m_start := fun s => (s, Some (bs "CRAM-MD5", None));
       m_next := fun s from_server more =>
         if more then (s, Some (Some (cram_response user secret from_server))) else (s, Some None) |}.

  (* RFC 2195 server: the digest is what follows the last space, the user name what precedes it *)
  Fixpoint split_last_space (s : bytes) : option (bytes * bytes) :=
    match s with
    | [] => None
    | c :: t => match split_last_space t with
                | Some (u, d) => Some (c :: u, d)
                | None => if c =? 32 then Some ([], t) else None
                end
    end.

  Definition cram_server (secret_of : bytes -> option bytes) (challenge response : bytes) : bool :=
    match split_last_space response with
    | Some (u, d) => match secret_of u with
                     | Some sec => bytes_eqb d (hex_of (HMACmd5 sec challenge))
                     | None => false
                     end
    | None => false
    end.
End Cram.

(* ---- XOAUTH2 (auth_xoauth2.go) ---- *)
Definition xoauth2_msg (user token : bytes) : bytes :=
  bs "user=" ++ user ++ [1] ++ bs "auth=Bearer " ++ token ++ [1; 1].

Definition xoauth2_mech (user token : bytes) : mech unit :=
  {| m_start := fun s => (s, Some (bs "XOAUTH2", Some (xoauth2_msg user token)));
     m_next := fun s _ more => if more then (s, Some (Some [])) else (s, Some None) |}.

(* ---- SCRAM ---- *)
Definition scram_mech (H : bytes -> bytes) (HMAC : bytes -> bytes -> bytes) (hsize : nat)
           (precis : bytes -> option bytes) (cfg : scram_cfg) (id : scram_id) : mech (scram_state * list bytes) :=
  {| m_start := scram_start cfg id;
     m_next := scram_next H HMAC hsize precis cfg id |}.

(* ==== server side, from the RFCs ==== *)

(* RFC 4616: message = [authzid] NUL authcid NUL passwd — split at the NULs, exactly three fields *)
Definition parse_plain (m : bytes) : option (bytes * bytes * bytes) :=
  match split_on 0 m with
  | [z; c; p] => Some (z, c, p)
  | _ => None
  end.

(* XOAUTH2: "user=" user ^A "auth=Bearer " token ^A ^A *)
Fixpoint until_byte (b : N) (s : bytes) : option (bytes * bytes) :=
  match s with
  | [] => None
  | c :: t => if c =? b then Some ([], t)
              else match until_byte b t with Some (x, r) => Some (c :: x, r) | None => None end
  end.

Fixpoint strip_prefix (p s : bytes) : option bytes :=
  match p, s with
  | [], _ => Some s
  | x :: p', y :: s' => if x =? y then strip_prefix p' s' else None
  | _ :: _, [] => None
  end.

Definition parse_xoauth2 (m : bytes) : option (bytes * bytes) :=
  match strip_prefix (bs "user=") m with
  | None => None
  | Some r1 =>
      match until_byte 1 r1 with
      | None => None
      | Some (user, r2) =>
          match strip_prefix (bs "auth=Bearer ") r2 with
          | None => None
          | Some r3 =>
              match until_byte 1 r3 with
              | Some (token, [1]) => Some (user, token)
              | _ => None
              end
          end
      end
  end.

(* RFC 5802 server for one exchange with abstract H / HMAC.  The account database holds
   (salt, iteration count, StoredKey, ServerKey) per user name. *)
Section ScramServer.
  Variable H : bytes -> bytes.
  Variable HMAC : bytes -> bytes -> bytes.

  Record stored := { sv_salt : bytes; sv_iter : nat; sv_stored_key : bytes; sv_server_key : bytes }.

  Definition store (normalized_pass salt : bytes) (iter : nat) : stored :=
    let sp := Hi HMAC normalized_pass salt iter in
    {| sv_salt := salt; sv_iter := iter;
       sv_stored_key := H (HMAC sp (bs "Client Key"));
       sv_server_key := HMAC sp (bs "Server Key") |}.

  (* client-first-message = gs2-header client-first-message-bare; bare = "n=" saslname ",r=" nonce.
     gs2-header for the mechanisms at hand: "n,," or "p=" cb-name ",,".  Result: (gs2 header, user, nonce, bare) *)
  Definition parse_client_first (m : bytes) : option (bytes * bytes * bytes * bytes) :=
    match split_on 44 m with
    | flag :: authz :: nm :: rn :: [] =>
        if negb (is_nil authz) then None else
        match strip_prefix (bs "n=") nm, strip_prefix (bs "r=") rn with
        | Some ename, Some nonce =>
            match unescape_name ename with
            | Some user =>
                if is_nil nonce then None
                else Some (flag ++ bs ",,", user, nonce, nm ++ bs "," ++ rn)
            | None => None
            end
        | _, _ => None
        end
    | _ => None
    end.

  (* server-first-message for client nonce [cn] and server nonce part [sn] *)
  (* [ext]: optional extensions after the iteration count (RFC 5802 section 7), empty or "," attr-val *("," attr-val) *)
  Definition server_first (cn sn : bytes) (a : stored) (ext : bytes) : bytes :=
    bs "r=" ++ cn ++ sn ++ bs ",s=" ++ b64enc (sv_salt a) ++ bs ",i=" ++ dec_of_N (N.of_nat (sv_iter a)) ++ ext.

  (* client-final-message = "c=" base64(cbind-input) ",r=" nonce ",p=" base64(proof).
     Acceptance: channel binding equals gs2 header ++ cb data, nonce is the combined nonce,
     H(ClientSignature xor proof) = StoredKey.  Result: Some server-final on acceptance. *)
  Definition server_final (a : stored) (gs2 cbdata cbare sfirst combined : bytes) (cfinal : bytes) : option bytes :=
    match split_on 44 cfinal with
    | c :: r :: p :: [] =>
        match strip_prefix (bs "c=") c, strip_prefix (bs "r=") r, strip_prefix (bs "p=") p with
        | Some c64, Some nonce, Some p64 =>
            match b64dec c64, b64dec p64 with
            | Some cb, Some proof =>
                let authmsg := cbare ++ bs "," ++ sfirst ++ bs "," ++ c ++ bs "," ++ r in
                let csig := HMAC (sv_stored_key a) authmsg in
                if bytes_eqb cb (gs2 ++ cbdata) && bytes_eqb nonce combined &&
                   Nat.eqb (length proof) (length csig) &&
                   bytes_eqb (H (bxor csig proof)) (sv_stored_key a)
                then Some (bs "v=" ++ b64enc (HMAC (sv_server_key a) authmsg))
                else None
            | _, _ => None
            end
        | _, _, _ => None
        end
    | _ => None
    end.

  (* ---- the RFC 5802 / 7677 / 9266 server for one exchange ----
     configuration: is the mechanism a -PLUS variant, the channel binding the server's end of the connection reports
     (type name and data), the server's part of the nonce; the account database maps the (unescaped) user name to the
     stored credentials *)
  Record srv_cfg := { sc_plus : bool; sc_cbname : bytes; sc_cbdata : bytes; sc_snonce : bytes;
                      sc_ext : bytes (* extensions appended to the server-first-message *) }.

  Record srv_state := { sx_acct : stored; sx_gs2 : bytes; sx_bare : bytes; sx_sfirst : bytes; sx_combined : bytes }.

  (* gs2 header acceptable for the mechanism: -PLUS requires "p=<the server's binding type>,,"; otherwise "n,," or "y,," *)
  Definition gs2_ok (c : srv_cfg) (gs2 : bytes) : bool :=
    if sc_plus c then bytes_eqb gs2 (bs "p=" ++ sc_cbname c ++ bs ",,")
    else bytes_eqb gs2 (bs "n,,") || bytes_eqb gs2 (bs "y,,").

  Definition scram_server_first (c : srv_cfg) (db : bytes -> option stored) (cfirst : bytes) : option (srv_state * bytes) :=
    match parse_client_first cfirst with
    | None => None
    | Some (gs2, user, cn, bare) =>
        if negb (gs2_ok c gs2) then None else
        match db user with
        | None => None
        | Some a =>
            let sf := server_first cn (sc_snonce c) a (sc_ext c) in
            Some ({| sx_acct := a; sx_gs2 := gs2; sx_bare := bare; sx_sfirst := sf; sx_combined := cn ++ sc_snonce c |}, sf)
        end
    end.

  Definition scram_server_final (c : srv_cfg) (x : srv_state) (cfinal : bytes) : option bytes :=
    server_final (sx_acct x) (sx_gs2 x) (if sc_plus c then sc_cbdata c else []) (sx_bare x) (sx_sfirst x) (sx_combined x) cfinal.

  (* ---- one complete exchange between the go-mail client (scram_next) and this server, at the level of the SASL
     messages: empty challenge, client-first, server-first, client-final, server-final, acknowledgement, success reply.
     Result: did the server accept AND the client report success (having verified the server signature) *)
  Definition scram_dialogue (hsize : nat) (precis : bytes -> option bytes) (cfg : scram_cfg) (id : scram_id)
             (c : srv_cfg) (db : bytes -> option stored) (s0 : scram_state * list bytes) : bool :=
    let next := scram_next H HMAC hsize precis cfg id in
    match next s0 [] true with
    | (s1, Some (Some cfirst)) =>
        match scram_server_first c db cfirst with
        | Some (x, sfirst) =>
            match next s1 sfirst true with
            | (s2, Some (Some cfinal)) =>
                match scram_server_final c x cfinal with
                | Some sfinal =>
                    match next s2 sfinal true with
                    | (s3, Some (Some ack)) =>
                        is_nil ack && ss_verified (fst s3) &&
                        match next s3 (bs "2.7.0 ok") false with
                        | (_, Some None) => true
                        | _ => false
                        end
                    | _ => false
                    end
                | None => false
                end
            | _ => false
            end
        | None => false
        end
    | _ => false
    end.
End ScramServer.
