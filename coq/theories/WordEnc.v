(* WordEnc.v — mime.WordEncoder.Encode (go1.23 mime/encodedword.go) for charset "UTF-8",
   Q and B encoders, including the splitting into several encoded-words at rune boundaries. *)
From Coq Require Import String.
From Verif Require Export Bytes Base64.
Open Scope N_scope.

(* needsEncoding: ranges over runes; every byte of a multi-byte or invalid sequence is >= 128,
   so the byte-wise test is equivalent *)
Definition needs_encoding (s : bytes) : bool :=
  existsb (fun b => ((b <? 32) || (126 <? b)) && negb (b =? 9)) s.

Definition is_cont (b : N) : bool := (128 <=? b) && (b <=? 191).

(* length in bytes of the first rune of b :: t as utf8.DecodeRuneInString reports it
   (1 for ASCII, for invalid and for truncated sequences) *)
Definition rune_len (b : N) (t : bytes) : nat :=
  if b <? 128 then 1%nat
  else if (194 <=? b) && (b <=? 223) then
    match t with c1 :: _ => if is_cont c1 then 2%nat else 1%nat | _ => 1%nat end
  else if (224 <=? b) && (b <=? 239) then
    match t with
    | c1 :: c2 :: _ =>
        let lo := if b =? 224 then 160 else 128 in
        let hi := if b =? 237 then 159 else 191 in
        if (lo <=? c1) && (c1 <=? hi) && is_cont c2 then 3%nat else 1%nat
    | _ => 1%nat
    end
  else if (240 <=? b) && (b <=? 244) then
    match t with
    | c1 :: c2 :: c3 :: _ =>
        let lo := if b =? 240 then 144 else 128 in
        let hi := if b =? 244 then 143 else 191 in
        if (lo <=? c1) && (c1 <=? hi) && is_cont c2 && is_cont c3 then 4%nat else 1%nat
    | _ => 1%nat
    end
  else 1%nat.

Definition hexdig (n : N) : N := if n <? 10 then 48 + n else 55 + n.

Definition q_plain (b : N) : bool :=
  (33 <=? b) && (b <=? 126) && negb (b =? 61) && negb (b =? 63) && negb (b =? 95).

(* writeQString for one byte *)
Definition q_byte (b : N) : bytes :=
  if b =? 32 then [95]
  else if q_plain b then [b]
  else [61; hexdig (b / 16); hexdig (b mod 16)].

Definition charset_utf8 : bytes := bs "UTF-8".
Definition open_word (e : N) : bytes := bs "=?" ++ charset_utf8 ++ [63; e; 63].
Definition close_word : bytes := bs "?=".
Definition split_word (e : N) : bytes := close_word ++ [32] ++ open_word e.

Definition max_content_len : nat := 63.   (* 75 - len("=?UTF-8?q?") - len("?=") *)
Definition max_base64_len : nat := 45.    (* base64.StdEncoding.DecodedLen(63) *)

(* qEncode (UTF-8 branch).  pend = remaining bytes of the rune whose first byte was already
   accounted for; cur = currentLen *)
Fixpoint q_encode (s : bytes) (pend cur : nat) : bytes :=
  match s with
  | [] => []
  | b :: t =>
      match pend with
      | S p => q_byte b ++ q_encode t p cur
      | O =>
          let printable := (32 <=? b) && (b <=? 126) && negb (b =? 61) && negb (b =? 63) && negb (b =? 95) in
          let rl := if printable then 1%nat else rune_len b t in
          let el := if printable then 1%nat else (3 * rl)%nat in
          if Nat.ltb max_content_len (cur + el)
          then split_word 113 ++ q_byte b ++ q_encode t (rl - 1) el
          else q_byte b ++ q_encode t (rl - 1) (cur + el)
      end
  end.

(* bEncode (UTF-8, long input): chunk = bytes of the current word (reversed) *)
Fixpoint b_encode (s : bytes) (pend : nat) (chunk : bytes) : bytes :=
  match s with
  | [] => b64enc (rev chunk)
  | b :: t =>
      match pend with
      | S p => b_encode t p (b :: chunk)
      | O =>
          let rl := rune_len b t in
          if Nat.leb (length chunk + rl) max_base64_len
          then b_encode t (rl - 1) (b :: chunk)
          else b64enc (rev chunk) ++ split_word 98 ++ b_encode t (rl - 1) [b]
      end
  end.

Definition b64_encoded_len (n : nat) : nat := ((n + 2) / 3 * 4)%nat.

(* e = 113 ('q') or 98 ('b') *)
Definition encode_word (e : N) (s : bytes) : bytes :=
  open_word e ++
  (if e =? 98 then
     (if Nat.leb (b64_encoded_len (length s)) max_content_len then b64enc s else b_encode s 0 [])
   else q_encode s 0 0) ++
  close_word.

Definition word_encode (e : N) (s : bytes) : bytes :=
  if needs_encoding s then encode_word e s else s.

(* bytes allowed in an encoded header value: printable ASCII or TAB *)
Definition hdr_safe_byte (b : N) : bool := ((32 <=? b) && (b <=? 126)) || (b =? 9).
