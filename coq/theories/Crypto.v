(* Crypto.v — executable SHA-1, SHA-256, MD5 and HMAC (RFC 2104) over byte lists.

   Interface: bytes in, bytes out (bytes are N, see Bytes.v).  Internally a 32-bit word is
   NOT an N: with N extracted to OCaml as a binary inductive (ExtrOcamlBasic only) every
   and/xor/add/shift walks the bits one constructor at a time, and a first version written
   with N.land/N.lxor/N.add/N.shiftr needed ~7 ms for one HMAC-SHA256 of a 100-byte message.
   Instead a word is eight hex digits ("nibbles", an enumerated type with 16 constant
   constructors) and the word operations are 16x16 table lookups written as nested matches;
   ocamlopt compiles the outer match to a jump table and the inner one to an array load,
   with no allocation.  That brings HMAC-SHA256 to ~1.5-2 ms, HMAC-SHA1 to ~0.8 ms and
   HMAC-MD5 to ~0.3 ms (the remaining cost is one mispredicted indirect jump per nibble
   operation, which no match-based encoding avoids).

   The tables are machine generated and are checked exhaustively against the N operations
   (Examples in module W32); the hash functions are checked against the published test
   vectors at the end of the file.

   All recursion is structural (lists of blocks / constants / schedule words, small nats);
   no division, modulo or power is used at run time.  The functions are total; input bytes
   >= 256 are reduced modulo 256 when packed into words. *)
From Verif Require Export Bytes.
From Coq Require Import String NArith List.
Import ListNotations.
Open Scope N_scope.

(* ====================================================================== *)
(* 32-bit words as eight nibbles                                          *)
(* ====================================================================== *)
Module W32.

Inductive nib : Type :=
  Nx0 | Nx1 | Nx2 | Nx3 | Nx4 | Nx5 | Nx6 | Nx7 | Nx8 | Nx9 | NxA | NxB | NxC | NxD | NxE | NxF.

Definition all_nibs : list nib :=
  [Nx0; Nx1; Nx2; Nx3; Nx4; Nx5; Nx6; Nx7; Nx8; Nx9; NxA; NxB; NxC; NxD; NxE; NxF].

Definition N_of_nib (a : nib) : N :=
  match a with Nx0 => 0 | Nx1 => 1 | Nx2 => 2 | Nx3 => 3 | Nx4 => 4 | Nx5 => 5 | Nx6 => 6 | Nx7 => 7 | Nx8 => 8 | Nx9 => 9 | NxA => 10 | NxB => 11 | NxC => 12 | NxD => 13 | NxE => 14 | NxF => 15 end.

(* the low four bits of x *)
Definition nib_of_N (x : N) : nib :=
  match N.land x 15 with
  0 => Nx0 | 1 => Nx1 | 2 => Nx2 | 3 => Nx3 | 4 => Nx4 | 5 => Nx5 | 6 => Nx6 | 7 => Nx7 | 8 => Nx8 | 9 => Nx9 | 10 => NxA | 11 => NxB | 12 => NxC | 13 => NxD | 14 => NxE | 15 => NxF
  | _ => Nx0
  end.

(* ---- generated tables ---- *)

Definition nib_xor (a b : nib) : nib :=
  match a with
  | Nx0 => match b with Nx0 => Nx0 | Nx1 => Nx1 | Nx2 => Nx2 | Nx3 => Nx3 | Nx4 => Nx4 | Nx5 => Nx5 | Nx6 => Nx6 | Nx7 => Nx7
                      | Nx8 => Nx8 | Nx9 => Nx9 | NxA => NxA | NxB => NxB | NxC => NxC | NxD => NxD | NxE => NxE | NxF => NxF end
  | Nx1 => match b with Nx0 => Nx1 | Nx1 => Nx0 | Nx2 => Nx3 | Nx3 => Nx2 | Nx4 => Nx5 | Nx5 => Nx4 | Nx6 => Nx7 | Nx7 => Nx6
                      | Nx8 => Nx9 | Nx9 => Nx8 | NxA => NxB | NxB => NxA | NxC => NxD | NxD => NxC | NxE => NxF | NxF => NxE end
  | Nx2 => match b with Nx0 => Nx2 | Nx1 => Nx3 | Nx2 => Nx0 | Nx3 => Nx1 | Nx4 => Nx6 | Nx5 => Nx7 | Nx6 => Nx4 | Nx7 => Nx5
                      | Nx8 => NxA | Nx9 => NxB | NxA => Nx8 | NxB => Nx9 | NxC => NxE | NxD => NxF | NxE => NxC | NxF => NxD end
  | Nx3 => match b with Nx0 => Nx3 | Nx1 => Nx2 | Nx2 => Nx1 | Nx3 => Nx0 | Nx4 => Nx7 | Nx5 => Nx6 | Nx6 => Nx5 | Nx7 => Nx4
                      | Nx8 => NxB | Nx9 => NxA | NxA => Nx9 | NxB => Nx8 | NxC => NxF | NxD => NxE | NxE => NxD | NxF => NxC end
  | Nx4 => match b with Nx0 => Nx4 | Nx1 => Nx5 | Nx2 => Nx6 | Nx3 => Nx7 | Nx4 => Nx0 | Nx5 => Nx1 | Nx6 => Nx2 | Nx7 => Nx3
                      | Nx8 => NxC | Nx9 => NxD | NxA => NxE | NxB => NxF | NxC => Nx8 | NxD => Nx9 | NxE => NxA | NxF => NxB end
  | Nx5 => match b with Nx0 => Nx5 | Nx1 => Nx4 | Nx2 => Nx7 | Nx3 => Nx6 | Nx4 => Nx1 | Nx5 => Nx0 | Nx6 => Nx3 | Nx7 => Nx2
                      | Nx8 => NxD | Nx9 => NxC | NxA => NxF | NxB => NxE | NxC => Nx9 | NxD => Nx8 | NxE => NxB | NxF => NxA end
  | Nx6 => match b with Nx0 => Nx6 | Nx1 => Nx7 | Nx2 => Nx4 | Nx3 => Nx5 | Nx4 => Nx2 | Nx5 => Nx3 | Nx6 => Nx0 | Nx7 => Nx1
                      | Nx8 => NxE | Nx9 => NxF | NxA => NxC | NxB => NxD | NxC => NxA | NxD => NxB | NxE => Nx8 | NxF => Nx9 end
  | Nx7 => match b with Nx0 => Nx7 | Nx1 => Nx6 | Nx2 => Nx5 | Nx3 => Nx4 | Nx4 => Nx3 | Nx5 => Nx2 | Nx6 => Nx1 | Nx7 => Nx0
                      | Nx8 => NxF | Nx9 => NxE | NxA => NxD | NxB => NxC | NxC => NxB | NxD => NxA | NxE => Nx9 | NxF => Nx8 end
  | Nx8 => match b with Nx0 => Nx8 | Nx1 => Nx9 | Nx2 => NxA | Nx3 => NxB | Nx4 => NxC | Nx5 => NxD | Nx6 => NxE | Nx7 => NxF
                      | Nx8 => Nx0 | Nx9 => Nx1 | NxA => Nx2 | NxB => Nx3 | NxC => Nx4 | NxD => Nx5 | NxE => Nx6 | NxF => Nx7 end
  | Nx9 => match b with Nx0 => Nx9 | Nx1 => Nx8 | Nx2 => NxB | Nx3 => NxA | Nx4 => NxD | Nx5 => NxC | Nx6 => NxF | Nx7 => NxE
                      | Nx8 => Nx1 | Nx9 => Nx0 | NxA => Nx3 | NxB => Nx2 | NxC => Nx5 | NxD => Nx4 | NxE => Nx7 | NxF => Nx6 end
  | NxA => match b with Nx0 => NxA | Nx1 => NxB | Nx2 => Nx8 | Nx3 => Nx9 | Nx4 => NxE | Nx5 => NxF | Nx6 => NxC | Nx7 => NxD
                      | Nx8 => Nx2 | Nx9 => Nx3 | NxA => Nx0 | NxB => Nx1 | NxC => Nx6 | NxD => Nx7 | NxE => Nx4 | NxF => Nx5 end
  | NxB => match b with Nx0 => NxB | Nx1 => NxA | Nx2 => Nx9 | Nx3 => Nx8 | Nx4 => NxF | Nx5 => NxE | Nx6 => NxD | Nx7 => NxC
                      | Nx8 => Nx3 | Nx9 => Nx2 | NxA => Nx1 | NxB => Nx0 | NxC => Nx7 | NxD => Nx6 | NxE => Nx5 | NxF => Nx4 end
  | NxC => match b with Nx0 => NxC | Nx1 => NxD | Nx2 => NxE | Nx3 => NxF | Nx4 => Nx8 | Nx5 => Nx9 | Nx6 => NxA | Nx7 => NxB
                      | Nx8 => Nx4 | Nx9 => Nx5 | NxA => Nx6 | NxB => Nx7 | NxC => Nx0 | NxD => Nx1 | NxE => Nx2 | NxF => Nx3 end
  | NxD => match b with Nx0 => NxD | Nx1 => NxC | Nx2 => NxF | Nx3 => NxE | Nx4 => Nx9 | Nx5 => Nx8 | Nx6 => NxB | Nx7 => NxA
                      | Nx8 => Nx5 | Nx9 => Nx4 | NxA => Nx7 | NxB => Nx6 | NxC => Nx1 | NxD => Nx0 | NxE => Nx3 | NxF => Nx2 end
  | NxE => match b with Nx0 => NxE | Nx1 => NxF | Nx2 => NxC | Nx3 => NxD | Nx4 => NxA | Nx5 => NxB | Nx6 => Nx8 | Nx7 => Nx9
                      | Nx8 => Nx6 | Nx9 => Nx7 | NxA => Nx4 | NxB => Nx5 | NxC => Nx2 | NxD => Nx3 | NxE => Nx0 | NxF => Nx1 end
  | NxF => match b with Nx0 => NxF | Nx1 => NxE | Nx2 => NxD | Nx3 => NxC | Nx4 => NxB | Nx5 => NxA | Nx6 => Nx9 | Nx7 => Nx8
                      | Nx8 => Nx7 | Nx9 => Nx6 | NxA => Nx5 | NxB => Nx4 | NxC => Nx3 | NxD => Nx2 | NxE => Nx1 | NxF => Nx0 end
  end.

Definition nib_and (a b : nib) : nib :=
  match a with
  | Nx0 => match b with Nx0 => Nx0 | Nx1 => Nx0 | Nx2 => Nx0 | Nx3 => Nx0 | Nx4 => Nx0 | Nx5 => Nx0 | Nx6 => Nx0 | Nx7 => Nx0
                      | Nx8 => Nx0 | Nx9 => Nx0 | NxA => Nx0 | NxB => Nx0 | NxC => Nx0 | NxD => Nx0 | NxE => Nx0 | NxF => Nx0 end
  | Nx1 => match b with Nx0 => Nx0 | Nx1 => Nx1 | Nx2 => Nx0 | Nx3 => Nx1 | Nx4 => Nx0 | Nx5 => Nx1 | Nx6 => Nx0 | Nx7 => Nx1
                      | Nx8 => Nx0 | Nx9 => Nx1 | NxA => Nx0 | NxB => Nx1 | NxC => Nx0 | NxD => Nx1 | NxE => Nx0 | NxF => Nx1 end
  | Nx2 => match b with Nx0 => Nx0 | Nx1 => Nx0 | Nx2 => Nx2 | Nx3 => Nx2 | Nx4 => Nx0 | Nx5 => Nx0 | Nx6 => Nx2 | Nx7 => Nx2
                      | Nx8 => Nx0 | Nx9 => Nx0 | NxA => Nx2 | NxB => Nx2 | NxC => Nx0 | NxD => Nx0 | NxE => Nx2 | NxF => Nx2 end
  | Nx3 => match b with Nx0 => Nx0 | Nx1 => Nx1 | Nx2 => Nx2 | Nx3 => Nx3 | Nx4 => Nx0 | Nx5 => Nx1 | Nx6 => Nx2 | Nx7 => Nx3
                      | Nx8 => Nx0 | Nx9 => Nx1 | NxA => Nx2 | NxB => Nx3 | NxC => Nx0 | NxD => Nx1 | NxE => Nx2 | NxF => Nx3 end
  | Nx4 => match b with Nx0 => Nx0 | Nx1 => Nx0 | Nx2 => Nx0 | Nx3 => Nx0 | Nx4 => Nx4 | Nx5 => Nx4 | Nx6 => Nx4 | Nx7 => Nx4
                      | Nx8 => Nx0 | Nx9 => Nx0 | NxA => Nx0 | NxB => Nx0 | NxC => Nx4 | NxD => Nx4 | NxE => Nx4 | NxF => Nx4 end
  | Nx5 => match b with Nx0 => Nx0 | Nx1 => Nx1 | Nx2 => Nx0 | Nx3 => Nx1 | Nx4 => Nx4 | Nx5 => Nx5 | Nx6 => Nx4 | Nx7 => Nx5
                      | Nx8 => Nx0 | Nx9 => Nx1 | NxA => Nx0 | NxB => Nx1 | NxC => Nx4 | NxD => Nx5 | NxE => Nx4 | NxF => Nx5 end
  | Nx6 => match b with Nx0 => Nx0 | Nx1 => Nx0 | Nx2 => Nx2 | Nx3 => Nx2 | Nx4 => Nx4 | Nx5 => Nx4 | Nx6 => Nx6 | Nx7 => Nx6
                      | Nx8 => Nx0 | Nx9 => Nx0 | NxA => Nx2 | NxB => Nx2 | NxC => Nx4 | NxD => Nx4 | NxE => Nx6 | NxF => Nx6 end
  | Nx7 => match b with Nx0 => Nx0 | Nx1 => Nx1 | Nx2 => Nx2 | Nx3 => Nx3 | Nx4 => Nx4 | Nx5 => Nx5 | Nx6 => Nx6 | Nx7 => Nx7
                      | Nx8 => Nx0 | Nx9 => Nx1 | NxA => Nx2 | NxB => Nx3 | NxC => Nx4 | NxD => Nx5 | NxE => Nx6 | NxF => Nx7 end
  | Nx8 => match b with Nx0 => Nx0 | Nx1 => Nx0 | Nx2 => Nx0 | Nx3 => Nx0 | Nx4 => Nx0 | Nx5 => Nx0 | Nx6 => Nx0 | Nx7 => Nx0
                      | Nx8 => Nx8 | Nx9 => Nx8 | NxA => Nx8 | NxB => Nx8 | NxC => Nx8 | NxD => Nx8 | NxE => Nx8 | NxF => Nx8 end
  | Nx9 => match b with Nx0 => Nx0 | Nx1 => Nx1 | Nx2 => Nx0 | Nx3 => Nx1 | Nx4 => Nx0 | Nx5 => Nx1 | Nx6 => Nx0 | Nx7 => Nx1
                      | Nx8 => Nx8 | Nx9 => Nx9 | NxA => Nx8 | NxB => Nx9 | NxC => Nx8 | NxD => Nx9 | NxE => Nx8 | NxF => Nx9 end
  | NxA => match b with Nx0 => Nx0 | Nx1 => Nx0 | Nx2 => Nx2 | Nx3 => Nx2 | Nx4 => Nx0 | Nx5 => Nx0 | Nx6 => Nx2 | Nx7 => Nx2
                      | Nx8 => Nx8 | Nx9 => Nx8 | NxA => NxA | NxB => NxA | NxC => Nx8 | NxD => Nx8 | NxE => NxA | NxF => NxA end
  | NxB => match b with Nx0 => Nx0 | Nx1 => Nx1 | Nx2 => Nx2 | Nx3 => Nx3 | Nx4 => Nx0 | Nx5 => Nx1 | Nx6 => Nx2 | Nx7 => Nx3
                      | Nx8 => Nx8 | Nx9 => Nx9 | NxA => NxA | NxB => NxB | NxC => Nx8 | NxD => Nx9 | NxE => NxA | NxF => NxB end
  | NxC => match b with Nx0 => Nx0 | Nx1 => Nx0 | Nx2 => Nx0 | Nx3 => Nx0 | Nx4 => Nx4 | Nx5 => Nx4 | Nx6 => Nx4 | Nx7 => Nx4
                      | Nx8 => Nx8 | Nx9 => Nx8 | NxA => Nx8 | NxB => Nx8 | NxC => NxC | NxD => NxC | NxE => NxC | NxF => NxC end
  | NxD => match b with Nx0 => Nx0 | Nx1 => Nx1 | Nx2 => Nx0 | Nx3 => Nx1 | Nx4 => Nx4 | Nx5 => Nx5 | Nx6 => Nx4 | Nx7 => Nx5
                      | Nx8 => Nx8 | Nx9 => Nx9 | NxA => Nx8 | NxB => Nx9 | NxC => NxC | NxD => NxD | NxE => NxC | NxF => NxD end
  | NxE => match b with Nx0 => Nx0 | Nx1 => Nx0 | Nx2 => Nx2 | Nx3 => Nx2 | Nx4 => Nx4 | Nx5 => Nx4 | Nx6 => Nx6 | Nx7 => Nx6
                      | Nx8 => Nx8 | Nx9 => Nx8 | NxA => NxA | NxB => NxA | NxC => NxC | NxD => NxC | NxE => NxE | NxF => NxE end
  | NxF => match b with Nx0 => Nx0 | Nx1 => Nx1 | Nx2 => Nx2 | Nx3 => Nx3 | Nx4 => Nx4 | Nx5 => Nx5 | Nx6 => Nx6 | Nx7 => Nx7
                      | Nx8 => Nx8 | Nx9 => Nx9 | NxA => NxA | NxB => NxB | NxC => NxC | NxD => NxD | NxE => NxE | NxF => NxF end
  end.

Definition nib_or (a b : nib) : nib :=
  match a with
  | Nx0 => match b with Nx0 => Nx0 | Nx1 => Nx1 | Nx2 => Nx2 | Nx3 => Nx3 | Nx4 => Nx4 | Nx5 => Nx5 | Nx6 => Nx6 | Nx7 => Nx7
                      | Nx8 => Nx8 | Nx9 => Nx9 | NxA => NxA | NxB => NxB | NxC => NxC | NxD => NxD | NxE => NxE | NxF => NxF end
  | Nx1 => match b with Nx0 => Nx1 | Nx1 => Nx1 | Nx2 => Nx3 | Nx3 => Nx3 | Nx4 => Nx5 | Nx5 => Nx5 | Nx6 => Nx7 | Nx7 => Nx7
                      | Nx8 => Nx9 | Nx9 => Nx9 | NxA => NxB | NxB => NxB | NxC => NxD | NxD => NxD | NxE => NxF | NxF => NxF end
  | Nx2 => match b with Nx0 => Nx2 | Nx1 => Nx3 | Nx2 => Nx2 | Nx3 => Nx3 | Nx4 => Nx6 | Nx5 => Nx7 | Nx6 => Nx6 | Nx7 => Nx7
                      | Nx8 => NxA | Nx9 => NxB | NxA => NxA | NxB => NxB | NxC => NxE | NxD => NxF | NxE => NxE | NxF => NxF end
  | Nx3 => match b with Nx0 => Nx3 | Nx1 => Nx3 | Nx2 => Nx3 | Nx3 => Nx3 | Nx4 => Nx7 | Nx5 => Nx7 | Nx6 => Nx7 | Nx7 => Nx7
                      | Nx8 => NxB | Nx9 => NxB | NxA => NxB | NxB => NxB | NxC => NxF | NxD => NxF | NxE => NxF | NxF => NxF end
  | Nx4 => match b with Nx0 => Nx4 | Nx1 => Nx5 | Nx2 => Nx6 | Nx3 => Nx7 | Nx4 => Nx4 | Nx5 => Nx5 | Nx6 => Nx6 | Nx7 => Nx7
                      | Nx8 => NxC | Nx9 => NxD | NxA => NxE | NxB => NxF | NxC => NxC | NxD => NxD | NxE => NxE | NxF => NxF end
  | Nx5 => match b with Nx0 => Nx5 | Nx1 => Nx5 | Nx2 => Nx7 | Nx3 => Nx7 | Nx4 => Nx5 | Nx5 => Nx5 | Nx6 => Nx7 | Nx7 => Nx7
                      | Nx8 => NxD | Nx9 => NxD | NxA => NxF | NxB => NxF | NxC => NxD | NxD => NxD | NxE => NxF | NxF => NxF end
  | Nx6 => match b with Nx0 => Nx6 | Nx1 => Nx7 | Nx2 => Nx6 | Nx3 => Nx7 | Nx4 => Nx6 | Nx5 => Nx7 | Nx6 => Nx6 | Nx7 => Nx7
                      | Nx8 => NxE | Nx9 => NxF | NxA => NxE | NxB => NxF | NxC => NxE | NxD => NxF | NxE => NxE | NxF => NxF end
  | Nx7 => match b with Nx0 => Nx7 | Nx1 => Nx7 | Nx2 => Nx7 | Nx3 => Nx7 | Nx4 => Nx7 | Nx5 => Nx7 | Nx6 => Nx7 | Nx7 => Nx7
                      | Nx8 => NxF | Nx9 => NxF | NxA => NxF | NxB => NxF | NxC => NxF | NxD => NxF | NxE => NxF | NxF => NxF end
  | Nx8 => match b with Nx0 => Nx8 | Nx1 => Nx9 | Nx2 => NxA | Nx3 => NxB | Nx4 => NxC | Nx5 => NxD | Nx6 => NxE | Nx7 => NxF
                      | Nx8 => Nx8 | Nx9 => Nx9 | NxA => NxA | NxB => NxB | NxC => NxC | NxD => NxD | NxE => NxE | NxF => NxF end
  | Nx9 => match b with Nx0 => Nx9 | Nx1 => Nx9 | Nx2 => NxB | Nx3 => NxB | Nx4 => NxD | Nx5 => NxD | Nx6 => NxF | Nx7 => NxF
                      | Nx8 => Nx9 | Nx9 => Nx9 | NxA => NxB | NxB => NxB | NxC => NxD | NxD => NxD | NxE => NxF | NxF => NxF end
  | NxA => match b with Nx0 => NxA | Nx1 => NxB | Nx2 => NxA | Nx3 => NxB | Nx4 => NxE | Nx5 => NxF | Nx6 => NxE | Nx7 => NxF
                      | Nx8 => NxA | Nx9 => NxB | NxA => NxA | NxB => NxB | NxC => NxE | NxD => NxF | NxE => NxE | NxF => NxF end
  | NxB => match b with Nx0 => NxB | Nx1 => NxB | Nx2 => NxB | Nx3 => NxB | Nx4 => NxF | Nx5 => NxF | Nx6 => NxF | Nx7 => NxF
                      | Nx8 => NxB | Nx9 => NxB | NxA => NxB | NxB => NxB | NxC => NxF | NxD => NxF | NxE => NxF | NxF => NxF end
  | NxC => match b with Nx0 => NxC | Nx1 => NxD | Nx2 => NxE | Nx3 => NxF | Nx4 => NxC | Nx5 => NxD | Nx6 => NxE | Nx7 => NxF
                      | Nx8 => NxC | Nx9 => NxD | NxA => NxE | NxB => NxF | NxC => NxC | NxD => NxD | NxE => NxE | NxF => NxF end
  | NxD => match b with Nx0 => NxD | Nx1 => NxD | Nx2 => NxF | Nx3 => NxF | Nx4 => NxD | Nx5 => NxD | Nx6 => NxF | Nx7 => NxF
                      | Nx8 => NxD | Nx9 => NxD | NxA => NxF | NxB => NxF | NxC => NxD | NxD => NxD | NxE => NxF | NxF => NxF end
  | NxE => match b with Nx0 => NxE | Nx1 => NxF | Nx2 => NxE | Nx3 => NxF | Nx4 => NxE | Nx5 => NxF | Nx6 => NxE | Nx7 => NxF
                      | Nx8 => NxE | Nx9 => NxF | NxA => NxE | NxB => NxF | NxC => NxE | NxD => NxF | NxE => NxE | NxF => NxF end
  | NxF => match b with Nx0 => NxF | Nx1 => NxF | Nx2 => NxF | Nx3 => NxF | Nx4 => NxF | Nx5 => NxF | Nx6 => NxF | Nx7 => NxF
                      | Nx8 => NxF | Nx9 => NxF | NxA => NxF | NxB => NxF | NxC => NxF | NxD => NxF | NxE => NxF | NxF => NxF end
  end.

(* a + b + carry-in = result nibble and carry-out *)
Definition nib_add0 (a b : nib) : nib * bool :=
  match a with
  | Nx0 => match b with Nx0 => (Nx0, false) | Nx1 => (Nx1, false) | Nx2 => (Nx2, false) | Nx3 => (Nx3, false) | Nx4 => (Nx4, false) | Nx5 => (Nx5, false) | Nx6 => (Nx6, false) | Nx7 => (Nx7, false)
                      | Nx8 => (Nx8, false) | Nx9 => (Nx9, false) | NxA => (NxA, false) | NxB => (NxB, false) | NxC => (NxC, false) | NxD => (NxD, false) | NxE => (NxE, false) | NxF => (NxF, false) end
  | Nx1 => match b with Nx0 => (Nx1, false) | Nx1 => (Nx2, false) | Nx2 => (Nx3, false) | Nx3 => (Nx4, false) | Nx4 => (Nx5, false) | Nx5 => (Nx6, false) | Nx6 => (Nx7, false) | Nx7 => (Nx8, false)
                      | Nx8 => (Nx9, false) | Nx9 => (NxA, false) | NxA => (NxB, false) | NxB => (NxC, false) | NxC => (NxD, false) | NxD => (NxE, false) | NxE => (NxF, false) | NxF => (Nx0, true) end
  | Nx2 => match b with Nx0 => (Nx2, false) | Nx1 => (Nx3, false) | Nx2 => (Nx4, false) | Nx3 => (Nx5, false) | Nx4 => (Nx6, false) | Nx5 => (Nx7, false) | Nx6 => (Nx8, false) | Nx7 => (Nx9, false)
                      | Nx8 => (NxA, false) | Nx9 => (NxB, false) | NxA => (NxC, false) | NxB => (NxD, false) | NxC => (NxE, false) | NxD => (NxF, false) | NxE => (Nx0, true) | NxF => (Nx1, true) end
  | Nx3 => match b with Nx0 => (Nx3, false) | Nx1 => (Nx4, false) | Nx2 => (Nx5, false) | Nx3 => (Nx6, false) | Nx4 => (Nx7, false) | Nx5 => (Nx8, false) | Nx6 => (Nx9, false) | Nx7 => (NxA, false)
                      | Nx8 => (NxB, false) | Nx9 => (NxC, false) | NxA => (NxD, false) | NxB => (NxE, false) | NxC => (NxF, false) | NxD => (Nx0, true) | NxE => (Nx1, true) | NxF => (Nx2, true) end
  | Nx4 => match b with Nx0 => (Nx4, false) | Nx1 => (Nx5, false) | Nx2 => (Nx6, false) | Nx3 => (Nx7, false) | Nx4 => (Nx8, false) | Nx5 => (Nx9, false) | Nx6 => (NxA, false) | Nx7 => (NxB, false)
                      | Nx8 => (NxC, false) | Nx9 => (NxD, false) | NxA => (NxE, false) | NxB => (NxF, false) | NxC => (Nx0, true) | NxD => (Nx1, true) | NxE => (Nx2, true) | NxF => (Nx3, true) end
  | Nx5 => match b with Nx0 => (Nx5, false) | Nx1 => (Nx6, false) | Nx2 => (Nx7, false) | Nx3 => (Nx8, false) | Nx4 => (Nx9, false) | Nx5 => (NxA, false) | Nx6 => (NxB, false) | Nx7 => (NxC, false)
                      | Nx8 => (NxD, false) | Nx9 => (NxE, false) | NxA => (NxF, false) | NxB => (Nx0, true) | NxC => (Nx1, true) | NxD => (Nx2, true) | NxE => (Nx3, true) | NxF => (Nx4, true) end
  | Nx6 => match b with Nx0 => (Nx6, false) | Nx1 => (Nx7, false) | Nx2 => (Nx8, false) | Nx3 => (Nx9, false) | Nx4 => (NxA, false) | Nx5 => (NxB, false) | Nx6 => (NxC, false) | Nx7 => (NxD, false)
                      | Nx8 => (NxE, false) | Nx9 => (NxF, false) | NxA => (Nx0, true) | NxB => (Nx1, true) | NxC => (Nx2, true) | NxD => (Nx3, true) | NxE => (Nx4, true) | NxF => (Nx5, true) end
  | Nx7 => match b with Nx0 => (Nx7, false) | Nx1 => (Nx8, false) | Nx2 => (Nx9, false) | Nx3 => (NxA, false) | Nx4 => (NxB, false) | Nx5 => (NxC, false) | Nx6 => (NxD, false) | Nx7 => (NxE, false)
                      | Nx8 => (NxF, false) | Nx9 => (Nx0, true) | NxA => (Nx1, true) | NxB => (Nx2, true) | NxC => (Nx3, true) | NxD => (Nx4, true) | NxE => (Nx5, true) | NxF => (Nx6, true) end
  | Nx8 => match b with Nx0 => (Nx8, false) | Nx1 => (Nx9, false) | Nx2 => (NxA, false) | Nx3 => (NxB, false) | Nx4 => (NxC, false) | Nx5 => (NxD, false) | Nx6 => (NxE, false) | Nx7 => (NxF, false)
                      | Nx8 => (Nx0, true) | Nx9 => (Nx1, true) | NxA => (Nx2, true) | NxB => (Nx3, true) | NxC => (Nx4, true) | NxD => (Nx5, true) | NxE => (Nx6, true) | NxF => (Nx7, true) end
  | Nx9 => match b with Nx0 => (Nx9, false) | Nx1 => (NxA, false) | Nx2 => (NxB, false) | Nx3 => (NxC, false) | Nx4 => (NxD, false) | Nx5 => (NxE, false) | Nx6 => (NxF, false) | Nx7 => (Nx0, true)
                      | Nx8 => (Nx1, true) | Nx9 => (Nx2, true) | NxA => (Nx3, true) | NxB => (Nx4, true) | NxC => (Nx5, true) | NxD => (Nx6, true) | NxE => (Nx7, true) | NxF => (Nx8, true) end
  | NxA => match b with Nx0 => (NxA, false) | Nx1 => (NxB, false) | Nx2 => (NxC, false) | Nx3 => (NxD, false) | Nx4 => (NxE, false) | Nx5 => (NxF, false) | Nx6 => (Nx0, true) | Nx7 => (Nx1, true)
                      | Nx8 => (Nx2, true) | Nx9 => (Nx3, true) | NxA => (Nx4, true) | NxB => (Nx5, true) | NxC => (Nx6, true) | NxD => (Nx7, true) | NxE => (Nx8, true) | NxF => (Nx9, true) end
  | NxB => match b with Nx0 => (NxB, false) | Nx1 => (NxC, false) | Nx2 => (NxD, false) | Nx3 => (NxE, false) | Nx4 => (NxF, false) | Nx5 => (Nx0, true) | Nx6 => (Nx1, true) | Nx7 => (Nx2, true)
                      | Nx8 => (Nx3, true) | Nx9 => (Nx4, true) | NxA => (Nx5, true) | NxB => (Nx6, true) | NxC => (Nx7, true) | NxD => (Nx8, true) | NxE => (Nx9, true) | NxF => (NxA, true) end
  | NxC => match b with Nx0 => (NxC, false) | Nx1 => (NxD, false) | Nx2 => (NxE, false) | Nx3 => (NxF, false) | Nx4 => (Nx0, true) | Nx5 => (Nx1, true) | Nx6 => (Nx2, true) | Nx7 => (Nx3, true)
                      | Nx8 => (Nx4, true) | Nx9 => (Nx5, true) | NxA => (Nx6, true) | NxB => (Nx7, true) | NxC => (Nx8, true) | NxD => (Nx9, true) | NxE => (NxA, true) | NxF => (NxB, true) end
  | NxD => match b with Nx0 => (NxD, false) | Nx1 => (NxE, false) | Nx2 => (NxF, false) | Nx3 => (Nx0, true) | Nx4 => (Nx1, true) | Nx5 => (Nx2, true) | Nx6 => (Nx3, true) | Nx7 => (Nx4, true)
                      | Nx8 => (Nx5, true) | Nx9 => (Nx6, true) | NxA => (Nx7, true) | NxB => (Nx8, true) | NxC => (Nx9, true) | NxD => (NxA, true) | NxE => (NxB, true) | NxF => (NxC, true) end
  | NxE => match b with Nx0 => (NxE, false) | Nx1 => (NxF, false) | Nx2 => (Nx0, true) | Nx3 => (Nx1, true) | Nx4 => (Nx2, true) | Nx5 => (Nx3, true) | Nx6 => (Nx4, true) | Nx7 => (Nx5, true)
                      | Nx8 => (Nx6, true) | Nx9 => (Nx7, true) | NxA => (Nx8, true) | NxB => (Nx9, true) | NxC => (NxA, true) | NxD => (NxB, true) | NxE => (NxC, true) | NxF => (NxD, true) end
  | NxF => match b with Nx0 => (NxF, false) | Nx1 => (Nx0, true) | Nx2 => (Nx1, true) | Nx3 => (Nx2, true) | Nx4 => (Nx3, true) | Nx5 => (Nx4, true) | Nx6 => (Nx5, true) | Nx7 => (Nx6, true)
                      | Nx8 => (Nx7, true) | Nx9 => (Nx8, true) | NxA => (Nx9, true) | NxB => (NxA, true) | NxC => (NxB, true) | NxD => (NxC, true) | NxE => (NxD, true) | NxF => (NxE, true) end
  end.

Definition nib_add1 (a b : nib) : nib * bool :=
  match a with
  | Nx0 => match b with Nx0 => (Nx1, false) | Nx1 => (Nx2, false) | Nx2 => (Nx3, false) | Nx3 => (Nx4, false) | Nx4 => (Nx5, false) | Nx5 => (Nx6, false) | Nx6 => (Nx7, false) | Nx7 => (Nx8, false)
                      | Nx8 => (Nx9, false) | Nx9 => (NxA, false) | NxA => (NxB, false) | NxB => (NxC, false) | NxC => (NxD, false) | NxD => (NxE, false) | NxE => (NxF, false) | NxF => (Nx0, true) end
  | Nx1 => match b with Nx0 => (Nx2, false) | Nx1 => (Nx3, false) | Nx2 => (Nx4, false) | Nx3 => (Nx5, false) | Nx4 => (Nx6, false) | Nx5 => (Nx7, false) | Nx6 => (Nx8, false) | Nx7 => (Nx9, false)
                      | Nx8 => (NxA, false) | Nx9 => (NxB, false) | NxA => (NxC, false) | NxB => (NxD, false) | NxC => (NxE, false) | NxD => (NxF, false) | NxE => (Nx0, true) | NxF => (Nx1, true) end
  | Nx2 => match b with Nx0 => (Nx3, false) | Nx1 => (Nx4, false) | Nx2 => (Nx5, false) | Nx3 => (Nx6, false) | Nx4 => (Nx7, false) | Nx5 => (Nx8, false) | Nx6 => (Nx9, false) | Nx7 => (NxA, false)
                      | Nx8 => (NxB, false) | Nx9 => (NxC, false) | NxA => (NxD, false) | NxB => (NxE, false) | NxC => (NxF, false) | NxD => (Nx0, true) | NxE => (Nx1, true) | NxF => (Nx2, true) end
  | Nx3 => match b with Nx0 => (Nx4, false) | Nx1 => (Nx5, false) | Nx2 => (Nx6, false) | Nx3 => (Nx7, false) | Nx4 => (Nx8, false) | Nx5 => (Nx9, false) | Nx6 => (NxA, false) | Nx7 => (NxB, false)
                      | Nx8 => (NxC, false) | Nx9 => (NxD, false) | NxA => (NxE, false) | NxB => (NxF, false) | NxC => (Nx0, true) | NxD => (Nx1, true) | NxE => (Nx2, true) | NxF => (Nx3, true) end
  | Nx4 => match b with Nx0 => (Nx5, false) | Nx1 => (Nx6, false) | Nx2 => (Nx7, false) | Nx3 => (Nx8, false) | Nx4 => (Nx9, false) | Nx5 => (NxA, false) | Nx6 => (NxB, false) | Nx7 => (NxC, false)
                      | Nx8 => (NxD, false) | Nx9 => (NxE, false) | NxA => (NxF, false) | NxB => (Nx0, true) | NxC => (Nx1, true) | NxD => (Nx2, true) | NxE => (Nx3, true) | NxF => (Nx4, true) end
  | Nx5 => match b with Nx0 => (Nx6, false) | Nx1 => (Nx7, false) | Nx2 => (Nx8, false) | Nx3 => (Nx9, false) | Nx4 => (NxA, false) | Nx5 => (NxB, false) | Nx6 => (NxC, false) | Nx7 => (NxD, false)
                      | Nx8 => (NxE, false) | Nx9 => (NxF, false) | NxA => (Nx0, true) | NxB => (Nx1, true) | NxC => (Nx2, true) | NxD => (Nx3, true) | NxE => (Nx4, true) | NxF => (Nx5, true) end
  | Nx6 => match b with Nx0 => (Nx7, false) | Nx1 => (Nx8, false) | Nx2 => (Nx9, false) | Nx3 => (NxA, false) | Nx4 => (NxB, false) | Nx5 => (NxC, false) | Nx6 => (NxD, false) | Nx7 => (NxE, false)
                      | Nx8 => (NxF, false) | Nx9 => (Nx0, true) | NxA => (Nx1, true) | NxB => (Nx2, true) | NxC => (Nx3, true) | NxD => (Nx4, true) | NxE => (Nx5, true) | NxF => (Nx6, true) end
  | Nx7 => match b with Nx0 => (Nx8, false) | Nx1 => (Nx9, false) | Nx2 => (NxA, false) | Nx3 => (NxB, false) | Nx4 => (NxC, false) | Nx5 => (NxD, false) | Nx6 => (NxE, false) | Nx7 => (NxF, false)
                      | Nx8 => (Nx0, true) | Nx9 => (Nx1, true) | NxA => (Nx2, true) | NxB => (Nx3, true) | NxC => (Nx4, true) | NxD => (Nx5, true) | NxE => (Nx6, true) | NxF => (Nx7, true) end
  | Nx8 => match b with Nx0 => (Nx9, false) | Nx1 => (NxA, false) | Nx2 => (NxB, false) | Nx3 => (NxC, false) | Nx4 => (NxD, false) | Nx5 => (NxE, false) | Nx6 => (NxF, false) | Nx7 => (Nx0, true)
                      | Nx8 => (Nx1, true) | Nx9 => (Nx2, true) | NxA => (Nx3, true) | NxB => (Nx4, true) | NxC => (Nx5, true) | NxD => (Nx6, true) | NxE => (Nx7, true) | NxF => (Nx8, true) end
  | Nx9 => match b with Nx0 => (NxA, false) | Nx1 => (NxB, false) | Nx2 => (NxC, false) | Nx3 => (NxD, false) | Nx4 => (NxE, false) | Nx5 => (NxF, false) | Nx6 => (Nx0, true) | Nx7 => (Nx1, true)
                      | Nx8 => (Nx2, true) | Nx9 => (Nx3, true) | NxA => (Nx4, true) | NxB => (Nx5, true) | NxC => (Nx6, true) | NxD => (Nx7, true) | NxE => (Nx8, true) | NxF => (Nx9, true) end
  | NxA => match b with Nx0 => (NxB, false) | Nx1 => (NxC, false) | Nx2 => (NxD, false) | Nx3 => (NxE, false) | Nx4 => (NxF, false) | Nx5 => (Nx0, true) | Nx6 => (Nx1, true) | Nx7 => (Nx2, true)
                      | Nx8 => (Nx3, true) | Nx9 => (Nx4, true) | NxA => (Nx5, true) | NxB => (Nx6, true) | NxC => (Nx7, true) | NxD => (Nx8, true) | NxE => (Nx9, true) | NxF => (NxA, true) end
  | NxB => match b with Nx0 => (NxC, false) | Nx1 => (NxD, false) | Nx2 => (NxE, false) | Nx3 => (NxF, false) | Nx4 => (Nx0, true) | Nx5 => (Nx1, true) | Nx6 => (Nx2, true) | Nx7 => (Nx3, true)
                      | Nx8 => (Nx4, true) | Nx9 => (Nx5, true) | NxA => (Nx6, true) | NxB => (Nx7, true) | NxC => (Nx8, true) | NxD => (Nx9, true) | NxE => (NxA, true) | NxF => (NxB, true) end
  | NxC => match b with Nx0 => (NxD, false) | Nx1 => (NxE, false) | Nx2 => (NxF, false) | Nx3 => (Nx0, true) | Nx4 => (Nx1, true) | Nx5 => (Nx2, true) | Nx6 => (Nx3, true) | Nx7 => (Nx4, true)
                      | Nx8 => (Nx5, true) | Nx9 => (Nx6, true) | NxA => (Nx7, true) | NxB => (Nx8, true) | NxC => (Nx9, true) | NxD => (NxA, true) | NxE => (NxB, true) | NxF => (NxC, true) end
  | NxD => match b with Nx0 => (NxE, false) | Nx1 => (NxF, false) | Nx2 => (Nx0, true) | Nx3 => (Nx1, true) | Nx4 => (Nx2, true) | Nx5 => (Nx3, true) | Nx6 => (Nx4, true) | Nx7 => (Nx5, true)
                      | Nx8 => (Nx6, true) | Nx9 => (Nx7, true) | NxA => (Nx8, true) | NxB => (Nx9, true) | NxC => (NxA, true) | NxD => (NxB, true) | NxE => (NxC, true) | NxF => (NxD, true) end
  | NxE => match b with Nx0 => (NxF, false) | Nx1 => (Nx0, true) | Nx2 => (Nx1, true) | Nx3 => (Nx2, true) | Nx4 => (Nx3, true) | Nx5 => (Nx4, true) | Nx6 => (Nx5, true) | Nx7 => (Nx6, true)
                      | Nx8 => (Nx7, true) | Nx9 => (Nx8, true) | NxA => (Nx9, true) | NxB => (NxA, true) | NxC => (NxB, true) | NxD => (NxC, true) | NxE => (NxD, true) | NxF => (NxE, true) end
  | NxF => match b with Nx0 => (Nx0, true) | Nx1 => (Nx1, true) | Nx2 => (Nx2, true) | Nx3 => (Nx3, true) | Nx4 => (Nx4, true) | Nx5 => (Nx5, true) | Nx6 => (Nx6, true) | Nx7 => (Nx7, true)
                      | Nx8 => (Nx8, true) | Nx9 => (Nx9, true) | NxA => (NxA, true) | NxB => (NxB, true) | NxC => (NxC, true) | NxD => (NxD, true) | NxE => (NxE, true) | NxF => (NxF, true) end
  end.

(* funnel shifts: bits r .. r+3 of the 8-bit value hi:lo *)
Definition nib_fun1 (hi lo : nib) : nib :=
  match hi with
  | Nx0 => match lo with Nx0 => Nx0 | Nx1 => Nx0 | Nx2 => Nx1 | Nx3 => Nx1 | Nx4 => Nx2 | Nx5 => Nx2 | Nx6 => Nx3 | Nx7 => Nx3
                      | Nx8 => Nx4 | Nx9 => Nx4 | NxA => Nx5 | NxB => Nx5 | NxC => Nx6 | NxD => Nx6 | NxE => Nx7 | NxF => Nx7 end
  | Nx1 => match lo with Nx0 => Nx8 | Nx1 => Nx8 | Nx2 => Nx9 | Nx3 => Nx9 | Nx4 => NxA | Nx5 => NxA | Nx6 => NxB | Nx7 => NxB
                      | Nx8 => NxC | Nx9 => NxC | NxA => NxD | NxB => NxD | NxC => NxE | NxD => NxE | NxE => NxF | NxF => NxF end
  | Nx2 => match lo with Nx0 => Nx0 | Nx1 => Nx0 | Nx2 => Nx1 | Nx3 => Nx1 | Nx4 => Nx2 | Nx5 => Nx2 | Nx6 => Nx3 | Nx7 => Nx3
                      | Nx8 => Nx4 | Nx9 => Nx4 | NxA => Nx5 | NxB => Nx5 | NxC => Nx6 | NxD => Nx6 | NxE => Nx7 | NxF => Nx7 end
  | Nx3 => match lo with Nx0 => Nx8 | Nx1 => Nx8 | Nx2 => Nx9 | Nx3 => Nx9 | Nx4 => NxA | Nx5 => NxA | Nx6 => NxB | Nx7 => NxB
                      | Nx8 => NxC | Nx9 => NxC | NxA => NxD | NxB => NxD | NxC => NxE | NxD => NxE | NxE => NxF | NxF => NxF end
  | Nx4 => match lo with Nx0 => Nx0 | Nx1 => Nx0 | Nx2 => Nx1 | Nx3 => Nx1 | Nx4 => Nx2 | Nx5 => Nx2 | Nx6 => Nx3 | Nx7 => Nx3
                      | Nx8 => Nx4 | Nx9 => Nx4 | NxA => Nx5 | NxB => Nx5 | NxC => Nx6 | NxD => Nx6 | NxE => Nx7 | NxF => Nx7 end
  | Nx5 => match lo with Nx0 => Nx8 | Nx1 => Nx8 | Nx2 => Nx9 | Nx3 => Nx9 | Nx4 => NxA | Nx5 => NxA | Nx6 => NxB | Nx7 => NxB
                      | Nx8 => NxC | Nx9 => NxC | NxA => NxD | NxB => NxD | NxC => NxE | NxD => NxE | NxE => NxF | NxF => NxF end
  | Nx6 => match lo with Nx0 => Nx0 | Nx1 => Nx0 | Nx2 => Nx1 | Nx3 => Nx1 | Nx4 => Nx2 | Nx5 => Nx2 | Nx6 => Nx3 | Nx7 => Nx3
                      | Nx8 => Nx4 | Nx9 => Nx4 | NxA => Nx5 | NxB => Nx5 | NxC => Nx6 | NxD => Nx6 | NxE => Nx7 | NxF => Nx7 end
  | Nx7 => match lo with Nx0 => Nx8 | Nx1 => Nx8 | Nx2 => Nx9 | Nx3 => Nx9 | Nx4 => NxA | Nx5 => NxA | Nx6 => NxB | Nx7 => NxB
                      | Nx8 => NxC | Nx9 => NxC | NxA => NxD | NxB => NxD | NxC => NxE | NxD => NxE | NxE => NxF | NxF => NxF end
  | Nx8 => match lo with Nx0 => Nx0 | Nx1 => Nx0 | Nx2 => Nx1 | Nx3 => Nx1 | Nx4 => Nx2 | Nx5 => Nx2 | Nx6 => Nx3 | Nx7 => Nx3
                      | Nx8 => Nx4 | Nx9 => Nx4 | NxA => Nx5 | NxB => Nx5 | NxC => Nx6 | NxD => Nx6 | NxE => Nx7 | NxF => Nx7 end
  | Nx9 => match lo with Nx0 => Nx8 | Nx1 => Nx8 | Nx2 => Nx9 | Nx3 => Nx9 | Nx4 => NxA | Nx5 => NxA | Nx6 => NxB | Nx7 => NxB
                      | Nx8 => NxC | Nx9 => NxC | NxA => NxD | NxB => NxD | NxC => NxE | NxD => NxE | NxE => NxF | NxF => NxF end
  | NxA => match lo with Nx0 => Nx0 | Nx1 => Nx0 | Nx2 => Nx1 | Nx3 => Nx1 | Nx4 => Nx2 | Nx5 => Nx2 | Nx6 => Nx3 | Nx7 => Nx3
                      | Nx8 => Nx4 | Nx9 => Nx4 | NxA => Nx5 | NxB => Nx5 | NxC => Nx6 | NxD => Nx6 | NxE => Nx7 | NxF => Nx7 end
  | NxB => match lo with Nx0 => Nx8 | Nx1 => Nx8 | Nx2 => Nx9 | Nx3 => Nx9 | Nx4 => NxA | Nx5 => NxA | Nx6 => NxB | Nx7 => NxB
                      | Nx8 => NxC | Nx9 => NxC | NxA => NxD | NxB => NxD | NxC => NxE | NxD => NxE | NxE => NxF | NxF => NxF end
  | NxC => match lo with Nx0 => Nx0 | Nx1 => Nx0 | Nx2 => Nx1 | Nx3 => Nx1 | Nx4 => Nx2 | Nx5 => Nx2 | Nx6 => Nx3 | Nx7 => Nx3
                      | Nx8 => Nx4 | Nx9 => Nx4 | NxA => Nx5 | NxB => Nx5 | NxC => Nx6 | NxD => Nx6 | NxE => Nx7 | NxF => Nx7 end
  | NxD => match lo with Nx0 => Nx8 | Nx1 => Nx8 | Nx2 => Nx9 | Nx3 => Nx9 | Nx4 => NxA | Nx5 => NxA | Nx6 => NxB | Nx7 => NxB
                      | Nx8 => NxC | Nx9 => NxC | NxA => NxD | NxB => NxD | NxC => NxE | NxD => NxE | NxE => NxF | NxF => NxF end
  | NxE => match lo with Nx0 => Nx0 | Nx1 => Nx0 | Nx2 => Nx1 | Nx3 => Nx1 | Nx4 => Nx2 | Nx5 => Nx2 | Nx6 => Nx3 | Nx7 => Nx3
                      | Nx8 => Nx4 | Nx9 => Nx4 | NxA => Nx5 | NxB => Nx5 | NxC => Nx6 | NxD => Nx6 | NxE => Nx7 | NxF => Nx7 end
  | NxF => match lo with Nx0 => Nx8 | Nx1 => Nx8 | Nx2 => Nx9 | Nx3 => Nx9 | Nx4 => NxA | Nx5 => NxA | Nx6 => NxB | Nx7 => NxB
                      | Nx8 => NxC | Nx9 => NxC | NxA => NxD | NxB => NxD | NxC => NxE | NxD => NxE | NxE => NxF | NxF => NxF end
  end.

Definition nib_fun2 (hi lo : nib) : nib :=
  match hi with
  | Nx0 => match lo with Nx0 => Nx0 | Nx1 => Nx0 | Nx2 => Nx0 | Nx3 => Nx0 | Nx4 => Nx1 | Nx5 => Nx1 | Nx6 => Nx1 | Nx7 => Nx1
                      | Nx8 => Nx2 | Nx9 => Nx2 | NxA => Nx2 | NxB => Nx2 | NxC => Nx3 | NxD => Nx3 | NxE => Nx3 | NxF => Nx3 end
  | Nx1 => match lo with Nx0 => Nx4 | Nx1 => Nx4 | Nx2 => Nx4 | Nx3 => Nx4 | Nx4 => Nx5 | Nx5 => Nx5 | Nx6 => Nx5 | Nx7 => Nx5
                      | Nx8 => Nx6 | Nx9 => Nx6 | NxA => Nx6 | NxB => Nx6 | NxC => Nx7 | NxD => Nx7 | NxE => Nx7 | NxF => Nx7 end
  | Nx2 => match lo with Nx0 => Nx8 | Nx1 => Nx8 | Nx2 => Nx8 | Nx3 => Nx8 | Nx4 => Nx9 | Nx5 => Nx9 | Nx6 => Nx9 | Nx7 => Nx9
                      | Nx8 => NxA | Nx9 => NxA | NxA => NxA | NxB => NxA | NxC => NxB | NxD => NxB | NxE => NxB | NxF => NxB end
  | Nx3 => match lo with Nx0 => NxC | Nx1 => NxC | Nx2 => NxC | Nx3 => NxC | Nx4 => NxD | Nx5 => NxD | Nx6 => NxD | Nx7 => NxD
                      | Nx8 => NxE | Nx9 => NxE | NxA => NxE | NxB => NxE | NxC => NxF | NxD => NxF | NxE => NxF | NxF => NxF end
  | Nx4 => match lo with Nx0 => Nx0 | Nx1 => Nx0 | Nx2 => Nx0 | Nx3 => Nx0 | Nx4 => Nx1 | Nx5 => Nx1 | Nx6 => Nx1 | Nx7 => Nx1
                      | Nx8 => Nx2 | Nx9 => Nx2 | NxA => Nx2 | NxB => Nx2 | NxC => Nx3 | NxD => Nx3 | NxE => Nx3 | NxF => Nx3 end
  | Nx5 => match lo with Nx0 => Nx4 | Nx1 => Nx4 | Nx2 => Nx4 | Nx3 => Nx4 | Nx4 => Nx5 | Nx5 => Nx5 | Nx6 => Nx5 | Nx7 => Nx5
                      | Nx8 => Nx6 | Nx9 => Nx6 | NxA => Nx6 | NxB => Nx6 | NxC => Nx7 | NxD => Nx7 | NxE => Nx7 | NxF => Nx7 end
  | Nx6 => match lo with Nx0 => Nx8 | Nx1 => Nx8 | Nx2 => Nx8 | Nx3 => Nx8 | Nx4 => Nx9 | Nx5 => Nx9 | Nx6 => Nx9 | Nx7 => Nx9
                      | Nx8 => NxA | Nx9 => NxA | NxA => NxA | NxB => NxA | NxC => NxB | NxD => NxB | NxE => NxB | NxF => NxB end
  | Nx7 => match lo with Nx0 => NxC | Nx1 => NxC | Nx2 => NxC | Nx3 => NxC | Nx4 => NxD | Nx5 => NxD | Nx6 => NxD | Nx7 => NxD
                      | Nx8 => NxE | Nx9 => NxE | NxA => NxE | NxB => NxE | NxC => NxF | NxD => NxF | NxE => NxF | NxF => NxF end
  | Nx8 => match lo with Nx0 => Nx0 | Nx1 => Nx0 | Nx2 => Nx0 | Nx3 => Nx0 | Nx4 => Nx1 | Nx5 => Nx1 | Nx6 => Nx1 | Nx7 => Nx1
                      | Nx8 => Nx2 | Nx9 => Nx2 | NxA => Nx2 | NxB => Nx2 | NxC => Nx3 | NxD => Nx3 | NxE => Nx3 | NxF => Nx3 end
  | Nx9 => match lo with Nx0 => Nx4 | Nx1 => Nx4 | Nx2 => Nx4 | Nx3 => Nx4 | Nx4 => Nx5 | Nx5 => Nx5 | Nx6 => Nx5 | Nx7 => Nx5
                      | Nx8 => Nx6 | Nx9 => Nx6 | NxA => Nx6 | NxB => Nx6 | NxC => Nx7 | NxD => Nx7 | NxE => Nx7 | NxF => Nx7 end
  | NxA => match lo with Nx0 => Nx8 | Nx1 => Nx8 | Nx2 => Nx8 | Nx3 => Nx8 | Nx4 => Nx9 | Nx5 => Nx9 | Nx6 => Nx9 | Nx7 => Nx9
                      | Nx8 => NxA | Nx9 => NxA | NxA => NxA | NxB => NxA | NxC => NxB | NxD => NxB | NxE => NxB | NxF => NxB end
  | NxB => match lo with Nx0 => NxC | Nx1 => NxC | Nx2 => NxC | Nx3 => NxC | Nx4 => NxD | Nx5 => NxD | Nx6 => NxD | Nx7 => NxD
                      | Nx8 => NxE | Nx9 => NxE | NxA => NxE | NxB => NxE | NxC => NxF | NxD => NxF | NxE => NxF | NxF => NxF end
  | NxC => match lo with Nx0 => Nx0 | Nx1 => Nx0 | Nx2 => Nx0 | Nx3 => Nx0 | Nx4 => Nx1 | Nx5 => Nx1 | Nx6 => Nx1 | Nx7 => Nx1
                      | Nx8 => Nx2 | Nx9 => Nx2 | NxA => Nx2 | NxB => Nx2 | NxC => Nx3 | NxD => Nx3 | NxE => Nx3 | NxF => Nx3 end
  | NxD => match lo with Nx0 => Nx4 | Nx1 => Nx4 | Nx2 => Nx4 | Nx3 => Nx4 | Nx4 => Nx5 | Nx5 => Nx5 | Nx6 => Nx5 | Nx7 => Nx5
                      | Nx8 => Nx6 | Nx9 => Nx6 | NxA => Nx6 | NxB => Nx6 | NxC => Nx7 | NxD => Nx7 | NxE => Nx7 | NxF => Nx7 end
  | NxE => match lo with Nx0 => Nx8 | Nx1 => Nx8 | Nx2 => Nx8 | Nx3 => Nx8 | Nx4 => Nx9 | Nx5 => Nx9 | Nx6 => Nx9 | Nx7 => Nx9
                      | Nx8 => NxA | Nx9 => NxA | NxA => NxA | NxB => NxA | NxC => NxB | NxD => NxB | NxE => NxB | NxF => NxB end
  | NxF => match lo with Nx0 => NxC | Nx1 => NxC | Nx2 => NxC | Nx3 => NxC | Nx4 => NxD | Nx5 => NxD | Nx6 => NxD | Nx7 => NxD
                      | Nx8 => NxE | Nx9 => NxE | NxA => NxE | NxB => NxE | NxC => NxF | NxD => NxF | NxE => NxF | NxF => NxF end
  end.

Definition nib_fun3 (hi lo : nib) : nib :=
  match hi with
  | Nx0 => match lo with Nx0 => Nx0 | Nx1 => Nx0 | Nx2 => Nx0 | Nx3 => Nx0 | Nx4 => Nx0 | Nx5 => Nx0 | Nx6 => Nx0 | Nx7 => Nx0
                      | Nx8 => Nx1 | Nx9 => Nx1 | NxA => Nx1 | NxB => Nx1 | NxC => Nx1 | NxD => Nx1 | NxE => Nx1 | NxF => Nx1 end
  | Nx1 => match lo with Nx0 => Nx2 | Nx1 => Nx2 | Nx2 => Nx2 | Nx3 => Nx2 | Nx4 => Nx2 | Nx5 => Nx2 | Nx6 => Nx2 | Nx7 => Nx2
                      | Nx8 => Nx3 | Nx9 => Nx3 | NxA => Nx3 | NxB => Nx3 | NxC => Nx3 | NxD => Nx3 | NxE => Nx3 | NxF => Nx3 end
  | Nx2 => match lo with Nx0 => Nx4 | Nx1 => Nx4 | Nx2 => Nx4 | Nx3 => Nx4 | Nx4 => Nx4 | Nx5 => Nx4 | Nx6 => Nx4 | Nx7 => Nx4
                      | Nx8 => Nx5 | Nx9 => Nx5 | NxA => Nx5 | NxB => Nx5 | NxC => Nx5 | NxD => Nx5 | NxE => Nx5 | NxF => Nx5 end
  | Nx3 => match lo with Nx0 => Nx6 | Nx1 => Nx6 | Nx2 => Nx6 | Nx3 => Nx6 | Nx4 => Nx6 | Nx5 => Nx6 | Nx6 => Nx6 | Nx7 => Nx6
                      | Nx8 => Nx7 | Nx9 => Nx7 | NxA => Nx7 | NxB => Nx7 | NxC => Nx7 | NxD => Nx7 | NxE => Nx7 | NxF => Nx7 end
  | Nx4 => match lo with Nx0 => Nx8 | Nx1 => Nx8 | Nx2 => Nx8 | Nx3 => Nx8 | Nx4 => Nx8 | Nx5 => Nx8 | Nx6 => Nx8 | Nx7 => Nx8
                      | Nx8 => Nx9 | Nx9 => Nx9 | NxA => Nx9 | NxB => Nx9 | NxC => Nx9 | NxD => Nx9 | NxE => Nx9 | NxF => Nx9 end
  | Nx5 => match lo with Nx0 => NxA | Nx1 => NxA | Nx2 => NxA | Nx3 => NxA | Nx4 => NxA | Nx5 => NxA | Nx6 => NxA | Nx7 => NxA
                      | Nx8 => NxB | Nx9 => NxB | NxA => NxB | NxB => NxB | NxC => NxB | NxD => NxB | NxE => NxB | NxF => NxB end
  | Nx6 => match lo with Nx0 => NxC | Nx1 => NxC | Nx2 => NxC | Nx3 => NxC | Nx4 => NxC | Nx5 => NxC | Nx6 => NxC | Nx7 => NxC
                      | Nx8 => NxD | Nx9 => NxD | NxA => NxD | NxB => NxD | NxC => NxD | NxD => NxD | NxE => NxD | NxF => NxD end
  | Nx7 => match lo with Nx0 => NxE | Nx1 => NxE | Nx2 => NxE | Nx3 => NxE | Nx4 => NxE | Nx5 => NxE | Nx6 => NxE | Nx7 => NxE
                      | Nx8 => NxF | Nx9 => NxF | NxA => NxF | NxB => NxF | NxC => NxF | NxD => NxF | NxE => NxF | NxF => NxF end
  | Nx8 => match lo with Nx0 => Nx0 | Nx1 => Nx0 | Nx2 => Nx0 | Nx3 => Nx0 | Nx4 => Nx0 | Nx5 => Nx0 | Nx6 => Nx0 | Nx7 => Nx0
                      | Nx8 => Nx1 | Nx9 => Nx1 | NxA => Nx1 | NxB => Nx1 | NxC => Nx1 | NxD => Nx1 | NxE => Nx1 | NxF => Nx1 end
  | Nx9 => match lo with Nx0 => Nx2 | Nx1 => Nx2 | Nx2 => Nx2 | Nx3 => Nx2 | Nx4 => Nx2 | Nx5 => Nx2 | Nx6 => Nx2 | Nx7 => Nx2
                      | Nx8 => Nx3 | Nx9 => Nx3 | NxA => Nx3 | NxB => Nx3 | NxC => Nx3 | NxD => Nx3 | NxE => Nx3 | NxF => Nx3 end
  | NxA => match lo with Nx0 => Nx4 | Nx1 => Nx4 | Nx2 => Nx4 | Nx3 => Nx4 | Nx4 => Nx4 | Nx5 => Nx4 | Nx6 => Nx4 | Nx7 => Nx4
                      | Nx8 => Nx5 | Nx9 => Nx5 | NxA => Nx5 | NxB => Nx5 | NxC => Nx5 | NxD => Nx5 | NxE => Nx5 | NxF => Nx5 end
  | NxB => match lo with Nx0 => Nx6 | Nx1 => Nx6 | Nx2 => Nx6 | Nx3 => Nx6 | Nx4 => Nx6 | Nx5 => Nx6 | Nx6 => Nx6 | Nx7 => Nx6
                      | Nx8 => Nx7 | Nx9 => Nx7 | NxA => Nx7 | NxB => Nx7 | NxC => Nx7 | NxD => Nx7 | NxE => Nx7 | NxF => Nx7 end
  | NxC => match lo with Nx0 => Nx8 | Nx1 => Nx8 | Nx2 => Nx8 | Nx3 => Nx8 | Nx4 => Nx8 | Nx5 => Nx8 | Nx6 => Nx8 | Nx7 => Nx8
                      | Nx8 => Nx9 | Nx9 => Nx9 | NxA => Nx9 | NxB => Nx9 | NxC => Nx9 | NxD => Nx9 | NxE => Nx9 | NxF => Nx9 end
  | NxD => match lo with Nx0 => NxA | Nx1 => NxA | Nx2 => NxA | Nx3 => NxA | Nx4 => NxA | Nx5 => NxA | Nx6 => NxA | Nx7 => NxA
                      | Nx8 => NxB | Nx9 => NxB | NxA => NxB | NxB => NxB | NxC => NxB | NxD => NxB | NxE => NxB | NxF => NxB end
  | NxE => match lo with Nx0 => NxC | Nx1 => NxC | Nx2 => NxC | Nx3 => NxC | Nx4 => NxC | Nx5 => NxC | Nx6 => NxC | Nx7 => NxC
                      | Nx8 => NxD | Nx9 => NxD | NxA => NxD | NxB => NxD | NxC => NxD | NxD => NxD | NxE => NxD | NxF => NxD end
  | NxF => match lo with Nx0 => NxE | Nx1 => NxE | Nx2 => NxE | Nx3 => NxE | Nx4 => NxE | Nx5 => NxE | Nx6 => NxE | Nx7 => NxE
                      | Nx8 => NxF | Nx9 => NxF | NxA => NxF | NxB => NxF | NxC => NxF | NxD => NxF | NxE => NxF | NxF => NxF end
  end.

(* ---- the tables agree with the N operations (exhaustive) ---- *)

Definition all2 (p : nib -> nib -> bool) : bool :=
  forallb (fun a => forallb (p a) all_nibs) all_nibs.
Definition chk_add (f : nib -> nib -> nib * bool) (c : N) (a b : nib) : bool :=
  let '(s, co) := f a b in
  N.eqb (N_of_nib s + (if co then 16 else 0)) (N_of_nib a + N_of_nib b + c).

Example nib_roundtrip : forallb (fun a => N.eqb (N_of_nib (nib_of_N (N_of_nib a))) (N_of_nib a)) all_nibs = true
                        /\ map N_of_nib all_nibs = [0;1;2;3;4;5;6;7;8;9;10;11;12;13;14;15].
Proof. vm_compute. split; reflexivity. Qed.
Example nib_xor_ok : all2 (fun a b => N.eqb (N_of_nib (nib_xor a b)) (N.lxor (N_of_nib a) (N_of_nib b))) = true.
Proof. vm_compute. reflexivity. Qed.
Example nib_and_ok : all2 (fun a b => N.eqb (N_of_nib (nib_and a b)) (N.land (N_of_nib a) (N_of_nib b))) = true.
Proof. vm_compute. reflexivity. Qed.
Example nib_or_ok : all2 (fun a b => N.eqb (N_of_nib (nib_or a b)) (N.lor (N_of_nib a) (N_of_nib b))) = true.
Proof. vm_compute. reflexivity. Qed.
Example nib_add0_ok : all2 (chk_add nib_add0 0) = true.
Proof. vm_compute. reflexivity. Qed.
Example nib_add1_ok : all2 (chk_add nib_add1 1) = true.
Proof. vm_compute. reflexivity. Qed.
Definition chk_fun (f : nib -> nib -> nib) (r : N) (hi lo : nib) : bool :=
  N.eqb (N_of_nib (f hi lo)) (N.land (N.shiftr (N.lor (N.shiftl (N_of_nib hi) 4) (N_of_nib lo)) r) 15).
Example nib_fun_ok : all2 (chk_fun nib_fun1 1) && all2 (chk_fun nib_fun2 2) && all2 (chk_fun nib_fun3 3) = true.
Proof. vm_compute. reflexivity. Qed.

(* ---- words: most significant nibble first ---- *)

Inductive word : Type := W (a b c d e f g h : nib).

Definition lxor (x y : word) : word :=
  match x, y with
  | W a7 a6 a5 a4 a3 a2 a1 a0, W b7 b6 b5 b4 b3 b2 b1 b0 =>
      W (nib_xor a7 b7) (nib_xor a6 b6) (nib_xor a5 b5) (nib_xor a4 b4)
        (nib_xor a3 b3) (nib_xor a2 b2) (nib_xor a1 b1) (nib_xor a0 b0)
  end.
Definition land (x y : word) : word :=
  match x, y with
  | W a7 a6 a5 a4 a3 a2 a1 a0, W b7 b6 b5 b4 b3 b2 b1 b0 =>
      W (nib_and a7 b7) (nib_and a6 b6) (nib_and a5 b5) (nib_and a4 b4)
        (nib_and a3 b3) (nib_and a2 b2) (nib_and a1 b1) (nib_and a0 b0)
  end.
Definition lor (x y : word) : word :=
  match x, y with
  | W a7 a6 a5 a4 a3 a2 a1 a0, W b7 b6 b5 b4 b3 b2 b1 b0 =>
      W (nib_or a7 b7) (nib_or a6 b6) (nib_or a5 b5) (nib_or a4 b4)
        (nib_or a3 b3) (nib_or a2 b2) (nib_or a1 b1) (nib_or a0 b0)
  end.

Definition nib_adc (c : bool) (a b : nib) : nib * bool :=
  if c then nib_add1 a b else nib_add0 a b.

(* addition modulo 2^32 *)
Definition add (x y : word) : word :=
  match x, y with
  | W a7 a6 a5 a4 a3 a2 a1 a0, W b7 b6 b5 b4 b3 b2 b1 b0 =>
      let '(s0, c) := nib_add0 a0 b0 in
      let '(s1, c) := nib_adc c a1 b1 in
      let '(s2, c) := nib_adc c a2 b2 in
      let '(s3, c) := nib_adc c a3 b3 in
      let '(s4, c) := nib_adc c a4 b4 in
      let '(s5, c) := nib_adc c a5 b5 in
      let '(s6, c) := nib_adc c a6 b6 in
      let '(s7, _) := nib_adc c a7 b7 in
      W s7 s6 s5 s4 s3 s2 s1 s0
  end.

(* rotate right by 4*q bits, q < 8 *)
Definition rotr_nibs (q : N) (x : word) : word :=
  match x with
  | W a b c d e f g h =>
      match q with
      | 1 => W h a b c d e f g
      | 2 => W g h a b c d e f
      | 3 => W f g h a b c d e
      | 4 => W e f g h a b c d
      | 5 => W d e f g h a b c
      | 6 => W c d e f g h a b
      | 7 => W b c d e f g h a
      | _ => x
      end
  end.

(* rotate right by r bits, r < 4 *)
Definition rotr_bits (r : N) (x : word) : word :=
  match x with
  | W a b c d e f g h =>
      match r with
      | 1 => W (nib_fun1 h a) (nib_fun1 a b) (nib_fun1 b c) (nib_fun1 c d)
               (nib_fun1 d e) (nib_fun1 e f) (nib_fun1 f g) (nib_fun1 g h)
      | 2 => W (nib_fun2 h a) (nib_fun2 a b) (nib_fun2 b c) (nib_fun2 c d)
               (nib_fun2 d e) (nib_fun2 e f) (nib_fun2 f g) (nib_fun2 g h)
      | 3 => W (nib_fun3 h a) (nib_fun3 a b) (nib_fun3 b c) (nib_fun3 c d)
               (nib_fun3 d e) (nib_fun3 e f) (nib_fun3 f g) (nib_fun3 g h)
      | _ => x
      end
  end.

(* shift right by r bits, r < 4 *)
Definition shr_bits (r : N) (x : word) : word :=
  match x with
  | W a b c d e f g h =>
      match r with
      | 1 => W (nib_fun1 Nx0 a) (nib_fun1 a b) (nib_fun1 b c) (nib_fun1 c d)
               (nib_fun1 d e) (nib_fun1 e f) (nib_fun1 f g) (nib_fun1 g h)
      | 2 => W (nib_fun2 Nx0 a) (nib_fun2 a b) (nib_fun2 b c) (nib_fun2 c d)
               (nib_fun2 d e) (nib_fun2 e f) (nib_fun2 f g) (nib_fun2 g h)
      | 3 => W (nib_fun3 Nx0 a) (nib_fun3 a b) (nib_fun3 b c) (nib_fun3 c d)
               (nib_fun3 d e) (nib_fun3 e f) (nib_fun3 f g) (nib_fun3 g h)
      | _ => x
      end
  end.

(* shift right by 4*q bits *)
Definition shr_nibs (q : N) (x : word) : word :=
  match x with
  | W a b c d e f g h =>
      match q with
      | 0 => x
      | 1 => W Nx0 a b c d e f g
      | 2 => W Nx0 Nx0 a b c d e f
      | 3 => W Nx0 Nx0 Nx0 a b c d e
      | 4 => W Nx0 Nx0 Nx0 Nx0 a b c d
      | 5 => W Nx0 Nx0 Nx0 Nx0 Nx0 a b c
      | 6 => W Nx0 Nx0 Nx0 Nx0 Nx0 Nx0 a b
      | 7 => W Nx0 Nx0 Nx0 Nx0 Nx0 Nx0 Nx0 a
      | _ => W Nx0 Nx0 Nx0 Nx0 Nx0 Nx0 Nx0 Nx0
      end
  end.

(* rotate right by n bits, n < 32 (identity for n >= 32).  Spelled out so that the
   extracted code dispatches on the literal instead of dividing. *)
Definition rotr (n : N) (x : word) : word :=
  match n with
  | 0 => x
  | 1 => rotr_bits 1 x
  | 2 => rotr_bits 2 x
  | 3 => rotr_bits 3 x
  | 4 => rotr_nibs 1 x
  | 5 => rotr_bits 1 (rotr_nibs 1 x)
  | 6 => rotr_bits 2 (rotr_nibs 1 x)
  | 7 => rotr_bits 3 (rotr_nibs 1 x)
  | 8 => rotr_nibs 2 x
  | 9 => rotr_bits 1 (rotr_nibs 2 x)
  | 10 => rotr_bits 2 (rotr_nibs 2 x)
  | 11 => rotr_bits 3 (rotr_nibs 2 x)
  | 12 => rotr_nibs 3 x
  | 13 => rotr_bits 1 (rotr_nibs 3 x)
  | 14 => rotr_bits 2 (rotr_nibs 3 x)
  | 15 => rotr_bits 3 (rotr_nibs 3 x)
  | 16 => rotr_nibs 4 x
  | 17 => rotr_bits 1 (rotr_nibs 4 x)
  | 18 => rotr_bits 2 (rotr_nibs 4 x)
  | 19 => rotr_bits 3 (rotr_nibs 4 x)
  | 20 => rotr_nibs 5 x
  | 21 => rotr_bits 1 (rotr_nibs 5 x)
  | 22 => rotr_bits 2 (rotr_nibs 5 x)
  | 23 => rotr_bits 3 (rotr_nibs 5 x)
  | 24 => rotr_nibs 6 x
  | 25 => rotr_bits 1 (rotr_nibs 6 x)
  | 26 => rotr_bits 2 (rotr_nibs 6 x)
  | 27 => rotr_bits 3 (rotr_nibs 6 x)
  | 28 => rotr_nibs 7 x
  | 29 => rotr_bits 1 (rotr_nibs 7 x)
  | 30 => rotr_bits 2 (rotr_nibs 7 x)
  | 31 => rotr_bits 3 (rotr_nibs 7 x)
  | _ => x
  end.
Definition rotl (n : N) (x : word) : word := rotr (32 - n) x.

(* logical shift right by 4*q + r bits (q < 8, r < 4) *)
Definition shr (q r : N) (x : word) : word := shr_bits r (shr_nibs q x).

(* ---- conversions ---- *)

(* the low 32 bits of x *)
Definition of_N (x : N) : word :=
  W (nib_of_N (N.shiftr x 28)) (nib_of_N (N.shiftr x 24)) (nib_of_N (N.shiftr x 20))
    (nib_of_N (N.shiftr x 16)) (nib_of_N (N.shiftr x 12)) (nib_of_N (N.shiftr x 8))
    (nib_of_N (N.shiftr x 4)) (nib_of_N x).

Definition byte_of_nibs (hi lo : nib) : N := N.lor (N.shiftl (N_of_nib hi) 4) (N_of_nib lo).

Definition to_N (x : word) : N :=
  match x with
  | W a b c d e f g h =>
      N.lor (N.shiftl (byte_of_nibs a b) 24) (N.lor (N.shiftl (byte_of_nibs c d) 16)
        (N.lor (N.shiftl (byte_of_nibs e f) 8) (byte_of_nibs g h)))
  end.

Definition hi_nib (x : N) : nib := nib_of_N (N.shiftr x 4).

(* four bytes (only their low 8 bits are used), big / little endian *)
Definition of_bytes_be (a b c d : N) : word :=
  W (hi_nib a) (nib_of_N a) (hi_nib b) (nib_of_N b) (hi_nib c) (nib_of_N c) (hi_nib d) (nib_of_N d).
Definition of_bytes_le (a b c d : N) : word := of_bytes_be d c b a.

Definition to_bytes_be (x : word) : bytes :=
  match x with
  | W a b c d e f g h => [byte_of_nibs a b; byte_of_nibs c d; byte_of_nibs e f; byte_of_nibs g h]
  end.
Definition to_bytes_le (x : word) : bytes := rev (to_bytes_be x).

(* ---- word operations agree with N arithmetic on samples (all 32 rotation amounts) ---- *)

Definition rotr_N (n x : N) : N :=
  N.lor (N.shiftr x n) (N.land (N.shiftl x (32 - n)) 0xffffffff).
Definition rot_amounts : list N :=
  [0;1;2;3;4;5;6;7;8;9;10;11;12;13;14;15;16;17;18;19;20;21;22;23;24;25;26;27;28;29;30;31].
Definition samples : list N :=
  [0; 1; 0x80000000; 0xffffffff; 0x01234567; 0x89abcdef; 0xdeadbeef; 0x0f1e2d3c; 0x7fffffff; 0xfffffffe].
Definition all_samples2 (p : N -> N -> bool) : bool :=
  forallb (fun x => forallb (p x) samples) samples.

Example word_roundtrip : map (fun x => to_N (of_N x)) samples = samples.
Proof. vm_compute. reflexivity. Qed.
Example rotr_ok :
  forallb (fun x => forallb (fun n => N.eqb (to_N (rotr n (of_N x))) (rotr_N n x)) rot_amounts) samples = true.
Proof. vm_compute. reflexivity. Qed.
Example rotl_ok :
  forallb (fun x => forallb (fun n => N.eqb (to_N (rotl n (of_N x))) (rotr_N (N.land (32 - n) 31) x)) rot_amounts) samples = true.
Proof. vm_compute. reflexivity. Qed.
Example shr_ok :
  forallb (fun x => forallb (fun n => N.eqb (to_N (shr (N.shiftr n 2) (N.land n 3) (of_N x))) (N.shiftr x n)) rot_amounts) samples = true.
Proof. vm_compute. reflexivity. Qed.
Example add_ok : all_samples2 (fun x y => N.eqb (to_N (add (of_N x) (of_N y))) (N.land (x + y) 0xffffffff)) = true.
Proof. vm_compute. reflexivity. Qed.
Example bitwise_ok :
  all_samples2 (fun x y => N.eqb (to_N (lxor (of_N x) (of_N y))) (N.lxor x y)
                        && N.eqb (to_N (land (of_N x) (of_N y))) (N.land x y)
                        && N.eqb (to_N (lor (of_N x) (of_N y))) (N.lor x y)) = true.
Proof. vm_compute. reflexivity. Qed.
Example bytes_ok :
  to_bytes_be (of_bytes_be 0x12 0x34 0xab 0xcd) = [0x12; 0x34; 0xab; 0xcd] /\
  to_N (of_bytes_be 0x12 0x34 0xab 0xcd) = 0x1234abcd /\
  to_N (of_bytes_le 0x12 0x34 0xab 0x1cd) = 0xcdab3412 /\
  to_bytes_le (of_N 0x1234abcd) = [0xcd; 0xab; 0x34; 0x12].
Proof. vm_compute. repeat split; reflexivity. Qed.

End W32.

Local Notation word := W32.word.


(* ====================================================================== *)
(* Shared helpers                                                         *)
(* ====================================================================== *)

Definition w_ch  (x y z : word) : word := W32.lxor z (W32.land x (W32.lxor y z)).
Definition w_maj (x y z : word) : word := W32.lxor (W32.land x y) (W32.land z (W32.lxor x y)).
Definition w_parity (x y z : word) : word := W32.lxor x (W32.lxor y z).

(* bytes -> words (the padded length is a multiple of 4; a short tail would be dropped) *)
Fixpoint md_words (pk : N -> N -> N -> N -> word) (l : bytes) : list word :=
  match l with
  | a :: b :: c :: d :: t => pk a b c d :: md_words pk t
  | _ => []
  end.

(* words -> 16-word blocks *)
Fixpoint md_chunks (ws : list word) : list (list word) :=
  match ws with
  | w0 :: w1 :: w2 :: w3 :: w4 :: w5 :: w6 :: w7 :: w8 :: w9 :: w10 :: w11 :: w12 :: w13 :: w14 :: w15 :: t =>
      [w0; w1; w2; w3; w4; w5; w6; w7; w8; w9; w10; w11; w12; w13; w14; w15] :: md_chunks t
  | _ => []
  end.

Fixpoint md_len_acc (l : bytes) (acc : N) : N :=
  match l with [] => acc | _ :: t => md_len_acc t (N.succ acc) end.
Definition md_len (l : bytes) : N := md_len_acc l 0.

Fixpoint md_zeros (n : nat) : bytes :=
  match n with O => [] | S k => 0 :: md_zeros k end.

Definition md_b8 (x : N) : N := N.land x 255.

(* the 64-bit length field, little endian *)
Definition md_len8_le (L : N) : bytes :=
  [md_b8 L; md_b8 (N.shiftr L 8); md_b8 (N.shiftr L 16); md_b8 (N.shiftr L 24);
   md_b8 (N.shiftr L 32); md_b8 (N.shiftr L 40); md_b8 (N.shiftr L 48); md_b8 (N.shiftr L 56)].

(* Merkle-Damgard padding: m ++ 0x80 ++ 0^k ++ bitlen, k = (55 - |m|) mod 64 (computed with land) *)
Definition md_pad (big_endian : bool) (m : bytes) : bytes :=
  let n := md_len m in
  let k := N.land (119 - N.land n 63) 63 in
  let lf := md_len8_le (N.shiftl n 3) in
  m ++ 128 :: md_zeros (N.to_nat k) ++ (if big_endian then rev lf else lf).

Definition md_blocks (big_endian : bool) (m : bytes) : list (list word) :=
  md_chunks (md_words (if big_endian then W32.of_bytes_be else W32.of_bytes_le) (md_pad big_endian m)).

Example md_pad_lengths :
  map (fun n => md_len (md_pad true (repeat 0 n))) [0; 1; 55; 56; 63; 64; 119; 120]%nat
  = [64; 64; 64; 128; 128; 128; 128; 192].
Proof. vm_compute. reflexivity. Qed.


(* ====================================================================== *)
(* SHA-256 (FIPS 180-4)                                                   *)
(* ====================================================================== *)

Definition sha256_K : list word := map W32.of_N
  [
   0x428a2f98; 0x71374491; 0xb5c0fbcf; 0xe9b5dba5; 0x3956c25b; 0x59f111f1; 0x923f82a4; 0xab1c5ed5;
   0xd807aa98; 0x12835b01; 0x243185be; 0x550c7dc3; 0x72be5d74; 0x80deb1fe; 0x9bdc06a7; 0xc19bf174;
   0xe49b69c1; 0xefbe4786; 0x0fc19dc6; 0x240ca1cc; 0x2de92c6f; 0x4a7484aa; 0x5cb0a9dc; 0x76f988da;
   0x983e5152; 0xa831c66d; 0xb00327c8; 0xbf597fc7; 0xc6e00bf3; 0xd5a79147; 0x06ca6351; 0x14292967;
   0x27b70a85; 0x2e1b2138; 0x4d2c6dfc; 0x53380d13; 0x650a7354; 0x766a0abb; 0x81c2c92e; 0x92722c85;
   0xa2bfe8a1; 0xa81a664b; 0xc24b8b70; 0xc76c51a3; 0xd192e819; 0xd6990624; 0xf40e3585; 0x106aa070;
   0x19a4c116; 0x1e376c08; 0x2748774c; 0x34b0bcb5; 0x391c0cb3; 0x4ed8aa4a; 0x5b9cca4f; 0x682e6ff3;
   0x748f82ee; 0x78a5636f; 0x84c87814; 0x8cc70208; 0x90befffa; 0xa4506ceb; 0xbef9a3f7; 0xc67178f2 ].

Definition sha256_bsig0 (x : word) : word :=
  W32.lxor (W32.rotr 2 x) (W32.lxor (W32.rotr 13 x) (W32.rotr 22 x)).
Definition sha256_bsig1 (x : word) : word :=
  W32.lxor (W32.rotr 6 x) (W32.lxor (W32.rotr 11 x) (W32.rotr 25 x)).
Definition sha256_ssig0 (x : word) : word :=
  W32.lxor (W32.rotr 7 x) (W32.lxor (W32.rotr 18 x) (W32.shr 0 3 x)).
Definition sha256_ssig1 (x : word) : word :=
  W32.lxor (W32.rotr 17 x) (W32.lxor (W32.rotr 19 x) (W32.shr 2 2 x) (* x >> 10 *)).

(* message schedule: [w] is the sliding window W[t..t+15]; n times emit W[t] and shift,
   then emit the final window.  sha256_sched 48 block = W[0..63]. *)
Fixpoint sha256_sched (n : nat) (w : list word) : list word :=
  match n with
  | O => w
  | S n' =>
      match w with
      | [w0; w1; w2; w3; w4; w5; w6; w7; w8; w9; w10; w11; w12; w13; w14; w15] =>
          w0 :: sha256_sched n'
                  [w1; w2; w3; w4; w5; w6; w7; w8; w9; w10; w11; w12; w13; w14; w15;
                   W32.add (W32.add (sha256_ssig1 w14) w9) (W32.add (sha256_ssig0 w1) w0)]
      | _ => w
      end
  end.

Definition sha256_state : Type := (word * word * word * word * word * word * word * word)%type.

Fixpoint sha256_rounds (ks ws : list word) (a b c d e f g h : word) : sha256_state :=
  match ks, ws with
  | k :: ks', w :: ws' =>
      let t1 := W32.add (W32.add (W32.add h (sha256_bsig1 e)) (W32.add (w_ch e f g) k)) w in
      let t2 := W32.add (sha256_bsig0 a) (w_maj a b c) in
      sha256_rounds ks' ws' (W32.add t1 t2) a b c (W32.add d t1) e f g
  | _, _ => (a, b, c, d, e, f, g, h)
  end.

Definition sha256_block (st : sha256_state) (blk : list word) : sha256_state :=
  let '(a, b, c, d, e, f, g, h) := st in
  let '(a', b', c', d', e', f', g', h') :=
    sha256_rounds sha256_K (sha256_sched 48 blk) a b c d e f g h in
  (W32.add a a', W32.add b b', W32.add c c', W32.add d d',
   W32.add e e', W32.add f f', W32.add g g', W32.add h h').

Definition sha256_init : sha256_state :=
  (W32.of_N 0x6a09e667, W32.of_N 0xbb67ae85, W32.of_N 0x3c6ef372, W32.of_N 0xa54ff53a,
   W32.of_N 0x510e527f, W32.of_N 0x9b05688c, W32.of_N 0x1f83d9ab, W32.of_N 0x5be0cd19).

Definition sha256 (m : bytes) : bytes :=
  let '(a, b, c, d, e, f, g, h) := fold_left sha256_block (md_blocks true m) sha256_init in
  W32.to_bytes_be a ++ W32.to_bytes_be b ++ W32.to_bytes_be c ++ W32.to_bytes_be d ++
  W32.to_bytes_be e ++ W32.to_bytes_be f ++ W32.to_bytes_be g ++ W32.to_bytes_be h.


(* ====================================================================== *)
(* SHA-1 (FIPS 180-4)                                                     *)
(* ====================================================================== *)

(* sha1_sched 64 block = W[0..79] *)
Fixpoint sha1_sched (n : nat) (w : list word) : list word :=
  match n with
  | O => w
  | S n' =>
      match w with
      | [w0; w1; w2; w3; w4; w5; w6; w7; w8; w9; w10; w11; w12; w13; w14; w15] =>
          w0 :: sha1_sched n'
                  [w1; w2; w3; w4; w5; w6; w7; w8; w9; w10; w11; w12; w13; w14; w15;
                   W32.rotr 31 (W32.lxor (W32.lxor w13 w8) (W32.lxor w2 w0))]
      | _ => w
      end
  end.

Definition sha1_state : Type := (word * word * word * word * word)%type.

(* n rounds with round function f and constant k; returns the state and the unused schedule *)
Fixpoint sha1_rounds (n : nat) (f : word -> word -> word -> word) (k : word) (ws : list word)
                     (a b c d e : word) : sha1_state * list word :=
  match n, ws with
  | S n', w :: ws' =>
      sha1_rounds n' f k ws'
        (W32.add (W32.add (W32.rotr 27 a) (f b c d)) (W32.add (W32.add e k) w))
        a (W32.rotr 2 b) c d
  | _, _ => ((a, b, c, d, e), ws)
  end.

Definition sha1_K1 : word := W32.of_N 0x5a827999.
Definition sha1_K2 : word := W32.of_N 0x6ed9eba1.
Definition sha1_K3 : word := W32.of_N 0x8f1bbcdc.
Definition sha1_K4 : word := W32.of_N 0xca62c1d6.

Definition sha1_block (st : sha1_state) (blk : list word) : sha1_state :=
  let '(a0, b0, c0, d0, e0) := st in
  let '((a, b, c, d, e), ws) := sha1_rounds 20 w_ch     sha1_K1 (sha1_sched 64 blk) a0 b0 c0 d0 e0 in
  let '((a, b, c, d, e), ws) := sha1_rounds 20 w_parity sha1_K2 ws a b c d e in
  let '((a, b, c, d, e), ws) := sha1_rounds 20 w_maj    sha1_K3 ws a b c d e in
  let '((a, b, c, d, e), ws) := sha1_rounds 20 w_parity sha1_K4 ws a b c d e in
  (W32.add a0 a, W32.add b0 b, W32.add c0 c, W32.add d0 d, W32.add e0 e).

Definition sha1_init : sha1_state :=
  (W32.of_N 0x67452301, W32.of_N 0xefcdab89, W32.of_N 0x98badcfe, W32.of_N 0x10325476, W32.of_N 0xc3d2e1f0).

Definition sha1 (m : bytes) : bytes :=
  let '(a, b, c, d, e) := fold_left sha1_block (md_blocks true m) sha1_init in
  W32.to_bytes_be a ++ W32.to_bytes_be b ++ W32.to_bytes_be c ++ W32.to_bytes_be d ++ W32.to_bytes_be e.


(* ====================================================================== *)
(* MD5 (RFC 1321)                                                         *)
(* ====================================================================== *)

Definition md5_ones : word := W32.of_N 0xffffffff.
Definition md5_F (x y z : word) : word := w_ch x y z.
Definition md5_G (x y z : word) : word := w_ch z x y.
Definition md5_H (x y z : word) : word := w_parity x y z.
Definition md5_I (x y z : word) : word := W32.lxor y (W32.lor x (W32.lxor z md5_ones)).

(* (T[i], s[i]) of RFC 1321 for the four rounds; stored as (T[i], 32 - s[i]) since we rotate right *)
Definition md5_tab (l : list (N * N)) : list (word * N) :=
  map (fun p => (W32.of_N (fst p), 32 - snd p)) l.
Definition md5_T1 : list (word * N) := md5_tab
  [
   (0xd76aa478, 7); (0xe8c7b756, 12); (0x242070db, 17); (0xc1bdceee, 22);
   (0xf57c0faf, 7); (0x4787c62a, 12); (0xa8304613, 17); (0xfd469501, 22);
   (0x698098d8, 7); (0x8b44f7af, 12); (0xffff5bb1, 17); (0x895cd7be, 22);
   (0x6b901122, 7); (0xfd987193, 12); (0xa679438e, 17); (0x49b40821, 22) ].
Definition md5_T2 : list (word * N) := md5_tab
  [
   (0xf61e2562, 5); (0xc040b340, 9); (0x265e5a51, 14); (0xe9b6c7aa, 20);
   (0xd62f105d, 5); (0x02441453, 9); (0xd8a1e681, 14); (0xe7d3fbc8, 20);
   (0x21e1cde6, 5); (0xc33707d6, 9); (0xf4d50d87, 14); (0x455a14ed, 20);
   (0xa9e3e905, 5); (0xfcefa3f8, 9); (0x676f02d9, 14); (0x8d2a4c8a, 20) ].
Definition md5_T3 : list (word * N) := md5_tab
  [
   (0xfffa3942, 4); (0x8771f681, 11); (0x6d9d6122, 16); (0xfde5380c, 23);
   (0xa4beea44, 4); (0x4bdecfa9, 11); (0xf6bb4b60, 16); (0xbebfbc70, 23);
   (0x289b7ec6, 4); (0xeaa127fa, 11); (0xd4ef3085, 16); (0x04881d05, 23);
   (0xd9d4d039, 4); (0xe6db99e5, 11); (0x1fa27cf8, 16); (0xc4ac5665, 23) ].
Definition md5_T4 : list (word * N) := md5_tab
  [
   (0xf4292244, 6); (0x432aff97, 10); (0xab9423a7, 15); (0xfc93a039, 21);
   (0x655b59c3, 6); (0x8f0ccc92, 10); (0xffeff47d, 15); (0x85845dd1, 21);
   (0x6fa87e4f, 6); (0xfe2ce6e0, 10); (0xa3014314, 15); (0x4e0811a1, 21);
   (0xf7537e82, 6); (0xbd3af235, 10); (0x2ad7d2bb, 15); (0xeb86d391, 21) ].

Definition md5_state : Type := (word * word * word * word)%type.

(* one 16-step round; [xs] are the message words already in the order the round uses them *)
Fixpoint md5_round (f : word -> word -> word -> word) (ts : list (word * N)) (xs : list word)
                   (a b c d : word) : md5_state :=
  match ts, xs with
  | (t, r) :: ts', x :: xs' =>
      md5_round f ts' xs' d
        (W32.add b (W32.rotr r (W32.add (W32.add a (f b c d)) (W32.add x t)))) b c
  | _, _ => (a, b, c, d)
  end.

Definition md5_block (st : md5_state) (blk : list word) : md5_state :=
  match blk with
  | [x0; x1; x2; x3; x4; x5; x6; x7; x8; x9; x10; x11; x12; x13; x14; x15] =>
      let '(a0, b0, c0, d0) := st in
      let '(a, b, c, d) := md5_round md5_F md5_T1
        [x0; x1; x2; x3; x4; x5; x6; x7; x8; x9; x10; x11; x12; x13; x14; x15] a0 b0 c0 d0 in
      let '(a, b, c, d) := md5_round md5_G md5_T2
        [x1; x6; x11; x0; x5; x10; x15; x4; x9; x14; x3; x8; x13; x2; x7; x12] a b c d in
      let '(a, b, c, d) := md5_round md5_H md5_T3
        [x5; x8; x11; x14; x1; x4; x7; x10; x13; x0; x3; x6; x9; x12; x15; x2] a b c d in
      let '(a, b, c, d) := md5_round md5_I md5_T4
        [x0; x7; x14; x5; x12; x3; x10; x1; x8; x15; x6; x13; x4; x11; x2; x9] a b c d in
      (W32.add a0 a, W32.add b0 b, W32.add c0 c, W32.add d0 d)
  | _ => st
  end.

Definition md5_init : md5_state :=
  (W32.of_N 0x67452301, W32.of_N 0xefcdab89, W32.of_N 0x98badcfe, W32.of_N 0x10325476).

Definition md5 (m : bytes) : bytes :=
  let '(a, b, c, d) := fold_left md5_block (md_blocks false m) md5_init in
  W32.to_bytes_le a ++ W32.to_bytes_le b ++ W32.to_bytes_le c ++ W32.to_bytes_le d.


(* ====================================================================== *)
(* HMAC (RFC 2104), block size 64                                         *)
(* ====================================================================== *)

(* pointwise xor, truncated to the shorter argument *)
Fixpoint xor_bytes (a b : bytes) : bytes :=
  match a, b with
  | x :: a', y :: b' => N.lxor x y :: xor_bytes a' b'
  | _, _ => []
  end.

(* exactly n bytes: l truncated or zero-padded on the right *)
Fixpoint hmac_pad_zero (n : nat) (l : bytes) : bytes :=
  match n with
  | O => []
  | S n' => match l with
            | [] => 0 :: hmac_pad_zero n' []
            | x :: t => x :: hmac_pad_zero n' t
            end
  end.

Definition hmac (H : bytes -> bytes) (key msg : bytes) : bytes :=
  let k0 := if md_len key <=? 64 then key else H key in
  let k := hmac_pad_zero 64 k0 in
  let ipad := map (N.lxor 0x36) k in
  let opad := map (N.lxor 0x5c) k in
  H (opad ++ H (ipad ++ msg)).

Definition hmac_sha1   : bytes -> bytes -> bytes := hmac sha1.
Definition hmac_sha256 : bytes -> bytes -> bytes := hmac sha256.
Definition hmac_md5    : bytes -> bytes -> bytes := hmac md5.

(* ---------- lowercase hex, for readable test vectors ---------- *)

Definition hex_digit (n : N) : N := if n <? 10 then 48 + n else 87 + n.
Fixpoint hex_of (b : bytes) : bytes :=
  match b with
  | [] => []
  | x :: t => hex_digit (N.shiftr (N.land x 255) 4) :: hex_digit (N.land x 15) :: hex_of t
  end.

(* ====================================================================== *)
(* Test vectors (expected values cross-checked with python hashlib/hmac)  *)
(* ====================================================================== *)

(* sha1: FIPS 180 examples, then padding boundary lengths *)
Example sha1_empty :
  hex_of (sha1 ([]))
  = bs "da39a3ee5e6b4b0d3255bfef95601890afd80709".
Proof. vm_compute. reflexivity. Qed.

Example sha1_abc :
  hex_of (sha1 (bs "abc"))
  = bs "a9993e364706816aba3e25717850c26c9cd0d89d".
Proof. vm_compute. reflexivity. Qed.

Example sha1_abc56 :
  hex_of (sha1 (bs "abcdbcdecdefdefgefghfghighijhijkijkljklmklmnlmnomnopnopq"))
  = bs "84983e441c3bd26ebaae4aa1f95129e5e54670f1".
Proof. vm_compute. reflexivity. Qed.

Example sha1_a100 :
  hex_of (sha1 (repeat 97 100))
  = bs "7f9000257a4918d7072655ea468540cdcbd42e0c".
Proof. vm_compute. reflexivity. Qed.

Example sha1_a55 :
  hex_of (sha1 (repeat 97 55))
  = bs "c1c8bbdc22796e28c0e15163d20899b65621d65a".
Proof. vm_compute. reflexivity. Qed.

Example sha1_a64 :
  hex_of (sha1 (repeat 97 64))
  = bs "0098ba824b5c16427bd7a1122a5a442a25ec644d".
Proof. vm_compute. reflexivity. Qed.

Example sha1_a119 :
  hex_of (sha1 (repeat 97 119))
  = bs "ee971065aaa017e0632a8ca6c77bb3bf8b1dfc56".
Proof. vm_compute. reflexivity. Qed.

(* sha256: FIPS 180 examples, then padding boundary lengths *)
Example sha256_empty :
  hex_of (sha256 ([]))
  = bs "e3b0c44298fc1c149afbf4c8996fb92427ae41e4649b934ca495991b7852b855".
Proof. vm_compute. reflexivity. Qed.

Example sha256_abc :
  hex_of (sha256 (bs "abc"))
  = bs "ba7816bf8f01cfea414140de5dae2223b00361a396177a9cb410ff61f20015ad".
Proof. vm_compute. reflexivity. Qed.

Example sha256_abc56 :
  hex_of (sha256 (bs "abcdbcdecdefdefgefghfghighijhijkijkljklmklmnlmnomnopnopq"))
  = bs "248d6a61d20638b8e5c026930c3e6039a33ce45964ff2167f6ecedd419db06c1".
Proof. vm_compute. reflexivity. Qed.

Example sha256_a100 :
  hex_of (sha256 (repeat 97 100))
  = bs "2816597888e4a0d3a36b82b83316ab32680eb8f00f8cd3b904d681246d285a0e".
Proof. vm_compute. reflexivity. Qed.

Example sha256_a55 :
  hex_of (sha256 (repeat 97 55))
  = bs "9f4390f8d30c2dd92ec9f095b65e2b9ae9b0a925a5258e241c9f1e910f734318".
Proof. vm_compute. reflexivity. Qed.

Example sha256_a64 :
  hex_of (sha256 (repeat 97 64))
  = bs "ffe054fe7ae0cb6dc65c3af9b61d5209f439851db43d0ba5997337df154668eb".
Proof. vm_compute. reflexivity. Qed.

Example sha256_a119 :
  hex_of (sha256 (repeat 97 119))
  = bs "31eba51c313a5c08226adf18d4a359cfdfd8d2e816b13f4af952f7ea6584dcfb".
Proof. vm_compute. reflexivity. Qed.

(* MD5: RFC 1321 appendix A.5 *)
Example md5_empty :
  hex_of (md5 ([]))
  = bs "d41d8cd98f00b204e9800998ecf8427e".
Proof. vm_compute. reflexivity. Qed.

Example md5_a :
  hex_of (md5 (bs "a"))
  = bs "0cc175b9c0f1b6a831c399e269772661".
Proof. vm_compute. reflexivity. Qed.

Example md5_abc :
  hex_of (md5 (bs "abc"))
  = bs "900150983cd24fb0d6963f7d28e17f72".
Proof. vm_compute. reflexivity. Qed.

Example md5_message_digest :
  hex_of (md5 (bs "message digest"))
  = bs "f96b697d7cb7938d525a2f31aaf161d0".
Proof. vm_compute. reflexivity. Qed.

Example md5_alphabet :
  hex_of (md5 (bs "abcdefghijklmnopqrstuvwxyz"))
  = bs "c3fcd3d76192e4007dfb496cca67e13b".
Proof. vm_compute. reflexivity. Qed.

Example md5_alnum :
  hex_of (md5 (bs "ABCDEFGHIJKLMNOPQRSTUVWXYZabcdefghijklmnopqrstuvwxyz0123456789"))
  = bs "d174ab98d277d9f5a5611c2c9f419d9f".
Proof. vm_compute. reflexivity. Qed.

Example md5_digits80 :
  hex_of (md5 (bs "12345678901234567890123456789012345678901234567890123456789012345678901234567890"))
  = bs "57edf4a22be3c955ac49da2e2107b67a".
Proof. vm_compute. reflexivity. Qed.

(* HMAC-MD5: RFC 2202 cases 1-3, RFC 2195 CRAM-MD5 example *)
Example hmac_md5_rfc2202_1 :
  hex_of (hmac_md5 (repeat 0x0b 16) (bs "Hi There"))
  = bs "9294727a3638bb1c13f48ef8158bfc9d".
Proof. vm_compute. reflexivity. Qed.

Example hmac_md5_rfc2202_2 :
  hex_of (hmac_md5 (bs "Jefe") (bs "what do ya want for nothing?"))
  = bs "750c783e6ab0b503eaa86e310a5db738".
Proof. vm_compute. reflexivity. Qed.

Example hmac_md5_rfc2202_3 :
  hex_of (hmac_md5 (repeat 0xaa 16) (repeat 0xdd 50))
  = bs "56be34521d144c88dbb8c733f0e8b3f6".
Proof. vm_compute. reflexivity. Qed.

Example hmac_md5_rfc2195 :
  hex_of (hmac_md5 (bs "tanstaaftanstaaf") (bs "<1896.697170952@postoffice.reston.mci.net>"))
  = bs "b913a602c7eda7a495b4e6e7334d3890".
Proof. vm_compute. reflexivity. Qed.

(* HMAC-SHA1: RFC 2202 cases 1, 2, 3, 6 (80-byte key) *)
Example hmac_sha1_rfc2202_1 :
  hex_of (hmac_sha1 (repeat 0x0b 20) (bs "Hi There"))
  = bs "b617318655057264e28bc0b6fb378c8ef146be00".
Proof. vm_compute. reflexivity. Qed.

Example hmac_sha1_rfc2202_2 :
  hex_of (hmac_sha1 (bs "Jefe") (bs "what do ya want for nothing?"))
  = bs "effcdf6ae5eb2fa2d27416d5f184df9c259a7c79".
Proof. vm_compute. reflexivity. Qed.

Example hmac_sha1_rfc2202_3 :
  hex_of (hmac_sha1 (repeat 0xaa 20) (repeat 0xdd 50))
  = bs "125d7342b9ac11cd91a39af48aa17b4f63f175d3".
Proof. vm_compute. reflexivity. Qed.

Example hmac_sha1_rfc2202_6 :
  hex_of (hmac_sha1 (repeat 0xaa 80) (bs "Test Using Larger Than Block-Size Key - Hash Key First"))
  = bs "aa4ae5e15272d00e95705637ce8a3b55ed402112".
Proof. vm_compute. reflexivity. Qed.

(* HMAC-SHA256: RFC 4231 cases 1, 2, 3, 6 (131-byte key) *)
Example hmac_sha256_rfc4231_1 :
  hex_of (hmac_sha256 (repeat 0x0b 20) (bs "Hi There"))
  = bs "b0344c61d8db38535ca8afceaf0bf12b881dc200c9833da726e9376c2e32cff7".
Proof. vm_compute. reflexivity. Qed.

Example hmac_sha256_rfc4231_2 :
  hex_of (hmac_sha256 (bs "Jefe") (bs "what do ya want for nothing?"))
  = bs "5bdcc146bf60754e6a042426089575c75a003f089d2739839dec58b964ec3843".
Proof. vm_compute. reflexivity. Qed.

Example hmac_sha256_rfc4231_3 :
  hex_of (hmac_sha256 (repeat 0xaa 20) (repeat 0xdd 50))
  = bs "773ea91e36800e46854db8ebd09181a72959098b3ef8c122d9635514ced565fe".
Proof. vm_compute. reflexivity. Qed.

Example hmac_sha256_rfc4231_6 :
  hex_of (hmac_sha256 (repeat 0xaa 131) (bs "Test Using Larger Than Block-Size Key - Hash Key First"))
  = bs "60e431591ee0b67f0d8a26aacbf5b77f8e0bc6213728c5140546040f0ee37f54".
Proof. vm_compute. reflexivity. Qed.

(* bytes above 255 are reduced modulo 256 when packed into words *)
Example sha256_masks_input : sha256 [0x161; 0x262; 0x363] = sha256 (bs "abc").
Proof. vm_compute. reflexivity. Qed.

Example xor_bytes_trunc : xor_bytes [1; 2; 255] [3; 3] = [2; 1].
Proof. reflexivity. Qed.
