(* MimeRead.v — an independent MIME reader, written from RFC 5322 (header block / body),
   RFC 2045 (Content-Type parameters) and RFC 2046 section 5.1.1 (multipart delimiters) only.
   It knows nothing of go-mail or of the writer model: it maps a byte string to an entity tree
   or refuses it.  Where the RFCs leave a text ambiguous the reader refuses (None), so a
   successful read is an unambiguous one. *)
From Verif Require Export Bytes MimeTree.
Open Scope nat_scope.

(* ---------- searching ---------- *)
(* first occurrence of [d]: (text before it, text after it) *)
Fixpoint find_sub (d s : bytes) : option (bytes * bytes) :=
  if is_prefix d s then Some ([], skipn (length d) s)
  else match s with
       | [] => None
       | x :: t => match find_sub d t with
                   | Some (a, r) => Some (x :: a, r)
                   | None => None
                   end
       end.

Definition is_lwsp (c : N) : bool := (N.eqb c 32 || N.eqb c 9)%bool.

Fixpoint skip_lwsp (s : bytes) : bytes :=
  match s with
  | c :: t => if is_lwsp c then skip_lwsp t else s
  | [] => []
  end.

(* ---------- RFC 2046 5.1.1: multipart bodies ---------- *)
(*   dash-boundary := "--" boundary
     delimiter := CRLF dash-boundary          (the CRLF belongs to the delimiter)
     close-delimiter := delimiter "--"
     multipart-body := [preamble CRLF] dash-boundary transport-padding CRLF body-part
                       *(delimiter transport-padding CRLF body-part)
                       close-delimiter transport-padding [CRLF epilogue]                    *)
Definition dash_boundary (b : bytes) : bytes := [45; 45]%N ++ b.
Definition delimiter (b : bytes) : bytes := crlf ++ dash_boundary b.

(* what follows "--boundary" on its line *)
Inductive after := Close | Next (rest : bytes) | NotDelim.

Definition after_delim (s : bytes) : after :=
  if is_prefix [45; 45]%N s then
    (* close-delimiter: only padding may follow on the line; the epilogue is ignored *)
    match skip_lwsp (skipn 2 s) with
    | [] => Close
    | s' => if is_prefix crlf s' then Close else NotDelim
    end
  else
    let s' := skip_lwsp s in
    if is_prefix crlf s' then Next (skipn 2 s') else NotDelim.

(* [s] starts a body part (it follows the CRLF of a delimiter line).  The part extends to the
   next delimiter.  A part that itself starts with the dash-boundary, and a "--boundary" line
   that continues with other characters, are ambiguous: refused. *)
Fixpoint parts_from (fuel : nat) (b s : bytes) : option (list bytes) :=
  match fuel with
  | O => None
  | S f =>
      if is_prefix (dash_boundary b) s then None
      else
        match find_sub (delimiter b) s with
        | None => None
        | Some (p, r) =>
            match after_delim r with
            | Close => Some [p]
            | Next r' => match parts_from f b r' with
                         | Some ps => Some (p :: ps)
                         | None => None
                         end
            | NotDelim => None
            end
        end
  end.

Definition parts_after (b r : bytes) : option (list bytes) :=
  match after_delim r with
  | Close => Some []
  | Next r' => parts_from (S (length r')) b r'
  | NotDelim => None
  end.

(* the body parts of a multipart body with boundary [b]; the preamble is discarded *)
Definition split_parts (b body : bytes) : option (list bytes) :=
  if is_prefix (dash_boundary b) body then parts_after b (skipn (length (dash_boundary b)) body)
  else match find_sub (delimiter b) body with
       | Some (_, r) => parts_after b r
       | None => None
       end.

(* ---------- RFC 5322 2.1: header block, empty line, body ---------- *)
(* line automaton: at the beginning of a line / inside a line, with or without a pending CR;
   LEnd = the CRLF of an empty line has been read *)
Inductive lst := LBol | LBolCR | LMid | LMidCR | LEnd.

Definition lstep (st : lst) (c : N) : lst :=
  match st with
  | LBol => if N.eqb c 13 then LBolCR else LMid
  | LBolCR => if N.eqb c 10 then LEnd else if N.eqb c 13 then LMidCR else LMid
  | LMid => if N.eqb c 13 then LMidCR else LMid
  | LMidCR => if N.eqb c 10 then LBol else if N.eqb c 13 then LMidCR else LMid
  | LEnd => LEnd
  end.

Definition lrun (s : bytes) (st : lst) : lst := fold_left lstep s st.

(* split at the first empty line; the first component still carries the CR of the empty line *)
Fixpoint split_hdr (st : lst) (s : bytes) : option (bytes * bytes) :=
  match s with
  | [] => None
  | c :: t =>
      match lstep st c with
      | LEnd => Some ([], t)
      | st' => match split_hdr st' t with
               | Some (h, body) => Some (c :: h, body)
               | None => None
               end
      end
  end.

(* (header block with the CRLF of its last line, body) *)
Definition split_header (s : bytes) : option (bytes * bytes) :=
  match split_hdr LBol s with
  | Some (h, body) => Some (removelast h, body)
  | None => None
  end.

(* ---------- RFC 2045 5.1: the boundary parameter of a multipart Content-Type ---------- *)
Definition lower (c : N) : N := if ((65 <=? c) && (c <=? 90))%N%bool then (c + 32)%N else c.

Definition fname : bytes := [99; 111; 110; 116; 101; 110; 116; 45; 116; 121; 112; 101]%N.   (* content-type *)
Definition mpword : bytes := [109; 117; 108; 116; 105; 112; 97; 114; 116; 47]%N.            (* multipart/ *)
Definition bword : bytes := [98; 111; 117; 110; 100; 97; 114; 121; 61]%N.                   (* boundary= *)

(* inside the field body of Content-Type *)
Inductive vst :=
| VType (n : nat)                       (* leading blanks, then [n] characters of "multipart/" matched *)
| VScan                                 (* in the subtype or in a parameter that is not "boundary" *)
| VQuoted (esc : bool)                  (* in a quoted-string of such a parameter *)
| VParam (n : nat)                      (* after ';': blanks, then [n] characters of "boundary=" matched *)
| VBStart                               (* first character of the boundary value *)
| VBTok (acc : bytes)                   (* unquoted value *)
| VBQuoted (esc : bool) (acc : bytes)   (* quoted value *)
| VDone (r : option bytes).

Definition vstep (v : vst) (c : N) : vst :=
  match v with
  | VType n =>
      if (Nat.eqb n 0 && is_lwsp c)%bool then VType 0
      else if N.eqb (lower c) (nth n mpword 0%N) then (if Nat.eqb (S n) 10 then VScan else VType (S n))
      else VDone None
  | VScan => if N.eqb c 59 then VParam 0 else if N.eqb c 34 then VQuoted false else VScan
  | VQuoted esc =>
      if esc then VQuoted false
      else if N.eqb c 92 then VQuoted true else if N.eqb c 34 then VScan else VQuoted false
  | VParam n =>
      if (Nat.eqb n 0 && is_lwsp c)%bool then VParam 0
      else if N.eqb (lower c) (nth n bword 0%N) then (if Nat.eqb (S n) 9 then VBStart else VParam (S n))
      else if N.eqb c 59 then VParam 0 else if N.eqb c 34 then VQuoted false else VScan
  | VBStart =>
      if N.eqb c 34 then VBQuoted false []
      else if (N.eqb c 59 || is_lwsp c)%bool then VDone None else VBTok [c]
  | VBTok acc => if (N.eqb c 59 || is_lwsp c)%bool then VDone (Some acc) else VBTok (acc ++ [c])
  | VBQuoted esc acc =>
      if esc then VBQuoted false (acc ++ [c])
      else if N.eqb c 92 then VBQuoted true acc
      else if N.eqb c 34 then VDone (Some acc) else VBQuoted false (acc ++ [c])
  | VDone r => VDone r
  end.

Definition vfinish (v : vst) : option bytes :=
  match v with VBTok acc => Some acc | VDone r => r | _ => None end.

(* the whole header block *)
Inductive cst :=
| CLine                       (* at the start of a header line *)
| CName (n : nat)             (* [n] characters of the field name matched *)
| CSkip (cr : bool)           (* in another field (cr: a CR is pending) *)
| CVal (v : vst) (nl : nat)   (* in the Content-Type body; nl = 1: CR pending, 2: CRLF pending *)
| CDone (r : option bytes).

Definition skip_from (c : N) : cst := CSkip (N.eqb c 13).

Definition name_step (n : nat) (c : N) : cst :=
  if Nat.eqb n 12 then (if N.eqb c 58 then CVal (VType 0) 0 else skip_from c)
  else if N.eqb (lower c) (nth n fname 0%N) then CName (S n) else skip_from c.

Definition vnext (v : vst) : cst := match v with VDone r => CDone r | _ => CVal v 0 end.

Definition cstep (st : cst) (c : N) : cst :=
  match st with
  | CLine => if is_lwsp c then CSkip false else name_step 0 c       (* blank first: continuation line *)
  | CName n => name_step n c
  | CSkip false => skip_from c
  | CSkip true => if N.eqb c 10 then CLine else skip_from c
  | CVal v nl =>
      match nl with
      | 0 => if N.eqb c 13 then CVal v 1 else vnext (vstep v c)
      | 1 => if N.eqb c 10 then CVal v 2 else CDone None             (* bare CR: malformed *)
      | _ => if is_lwsp c then vnext (vstep v 32%N)                  (* folding = white space *)
             else CDone (vfinish v)                                   (* the field has ended *)
      end
  | CDone r => CDone r
  end.

Definition crun (s : bytes) (st : cst) : cst := fold_left cstep s st.

Definition cfinish (st : cst) : option bytes :=
  match st with CVal v _ => vfinish v | CDone r => r | _ => None end.

(* Some b: the (first) Content-Type field says multipart/… with boundary b *)
Definition mp_boundary (h : bytes) : option bytes := cfinish (crun h CLine).

(* ---------- entities ---------- *)
Fixpoint sequence {A} (l : list (option A)) : option (list A) :=
  match l with
  | [] => Some []
  | Some x :: r => match sequence r with Some xs => Some (x :: xs) | None => None end
  | None :: _ => None
  end.

Fixpoint read_entity (fuel : nat) (s : bytes) : option node :=
  match fuel with
  | O => None
  | S f =>
      match split_header s with
      | None => None
      | Some (h, body) =>
          match mp_boundary h with
          | None => Some (Leaf h body)
          | Some b =>
              match split_parts b body with
              | None => None
              | Some ps =>
                  match sequence (map (read_entity f) ps) with
                  | Some kids => Some (Multi h b kids)
                  | None => None
                  end
              end
          end
      end
  end.

Definition read_tree (s : bytes) : option node := read_entity (S (length s)) s.
