(* Envelope.v — the SMTP command lines that carry caller-supplied values (smtp/smtp.go: Hello,
   helo/ehlo, Mail, Rcpt, Auth; client.go: sendSingleMsg, smtpMailbox) and, written from
   RFC 5321 section 4.1.2 (with the RFC 6531 extension of atext / qtextSMTP / sub-domain by
   UTF-8 non-ASCII when SMTPUTF8 is in force), a strict parser of MAIL FROM / RCPT TO lines. *)
From Coq Require Import String.
From Verif Require Export Bytes.
From Verif Require Import Base64.
From VerifGen Require Import Gen.
Open Scope N_scope.

(* ------------------------------------------------------------------ *)
(* the client side                                                    *)
(* ------------------------------------------------------------------ *)

(* smtp.go validateLine: strings.ContainsAny(line, "\n\r") *)
Definition validate_line (s : bytes) : bool := forallb no_crlf_byte s.

Definition is_alpha (b : N) : bool := ((65 <=? b) && (b <=? 90)) || ((97 <=? b) && (b <=? 122)).
Definition is_digit (b : N) : bool := (48 <=? b) && (b <=? 57).
Definition is_alnum (b : N) : bool := is_alpha b || is_digit b.
Definition mem_byte (b : N) (l : bytes) : bool := existsb (N.eqb b) l.

(* the atext specials spelled out in smtpMailbox: !#$%&'*+-/=?^_`{|}~ *)
Definition atext_specials : bytes :=
  [33; 35; 36; 37; 38; 39; 42; 43; 45; 47; 61; 63; 94; 95; 96; 123; 124; 125; 126].

(* client.go smtpMailbox (repaired tree): the character test of the Dot-string loop *)
Definition mb_atext (b : N) : bool :=
  is_alnum b || (128 <=? b) || (b =? 46) || mem_byte b atext_specials.

Fixpoint last_byte (l : bytes) (d : N) : N :=
  match l with [] => d | [b] => b | _ :: t => last_byte t d end.

Definition dotdot : bytes := [46; 46].

Definition is_dot_string (l : bytes) : bool :=
  match l with
  | [] => false
  | b :: _ =>
      negb (b =? 46) && negb (last_byte l 0 =? 46) && negb (occurs dotdot l) && forallb mb_atext l
  end.

(* the two byte tests of the quoting loop are taken from the source (Gen.v, T1):
   refuse = char < 0x20 || char == 0x7f;  escape = char is DQUOTE or backslash *)
Definition is_ctl (b : N) : bool := mailbox_refuse_byte b.

Fixpoint quote_body (l : bytes) : bytes :=
  match l with
  | [] => []
  | b :: t => if mailbox_escape_byte b then 92 :: b :: quote_body t else b :: quote_body t
  end.

(* strings.LastIndex(addr, "@"): (local, "@"+domain); no "@": the whole string is the local part *)
Fixpoint split_last_at (a : bytes) : bytes * bytes :=
  match a with
  | [] => ([], [])
  | b :: t =>
      let '(l, d) := split_last_at t in
      match d with
      | [] => if b =? 64 then ([], b :: l) else (b :: l, [])
      | _ => (b :: l, d)
      end
  end.

(* smtpMailbox: None = refused (control character in a local part that needs quoting) *)
Definition smtp_mailbox (a : bytes) : option bytes :=
  let '(l, d) := split_last_at a in
  if is_dot_string l then Some a
  else if existsb is_ctl l then None
  else Some (34 :: quote_body l ++ 34 :: d).

(* the unrepaired tree passed Address.Address through unchanged *)
Definition smtp_mailbox_old (a : bytes) : option bytes := Some a.

Record caps := mkCaps { c_8bit : bool; c_utf8 : bool; c_dsn : bool }.

(* parameters appended by smtp.Client.Mail (c.ext != nil after a successful EHLO; after a HELO
   fallback ext = nil = no capability) *)
Definition mail_params (c : caps) (ret : bytes) : list bytes :=
  (if c_8bit c then [bs "BODY=8BITMIME"] else []) ++
  (if c_utf8 c then [bs "SMTPUTF8"] else []) ++
  (if c_dsn c && negb (match ret with [] => true | _ => false end) then [bs "RET=" ++ ret] else []).

Definition rcpt_params (c : caps) (notify : bytes) : list bytes :=
  if c_dsn c && negb (match notify with [] => true | _ => false end) then [bs "NOTIFY=" ++ notify] else [].

Definition sp_params (ps : list bytes) : bytes := flat_map (fun p => 32 :: p) ps.

(* smtp.go validateParamValue (repaired tree, proposed_fixes/C05-dsn-parameter-value.diff): a DSN value that is
   going to be sent must be an esmtp-value; the byte test is taken from the source (Gen.param_bad_byte:
   value[i] <= ' ' || value[i] == '=' || value[i] >= 0x7f) *)
Definition param_value_ok (v : bytes) : bool := forallb (fun b => negb (param_bad_byte b)) v.
Definition nonempty (v : bytes) : bool := negb (match v with [] => true | _ => false end).

(* smtp.Client.Mail: None = validateLine or validateParamValue failed, nothing is written.  The RET value is
   whatever was stored with SetDSNMailReturnOption; it is checked (and sent) only if DSN was advertised. *)
Definition mail_line (c : caps) (ret : bytes) (from : bytes) : option bytes :=
  if validate_line from && (negb (c_dsn c && nonempty ret) || param_value_ok ret)
  then Some (bs "MAIL FROM:<" ++ from ++ bs ">" ++ sp_params (mail_params c ret))
  else None.

(* smtp.Client.Rcpt *)
Definition rcpt_line (c : caps) (notify : bytes) (to : bytes) : option bytes :=
  if validate_line to && (negb (c_dsn c && nonempty notify) || param_value_ok notify)
  then Some (bs "RCPT TO:<" ++ to ++ bs ">" ++ sp_params (rcpt_params c notify))
  else None.

(* smtp.Client.Hello (repaired tree): validateLine, then the byte test taken from the source
   (Gen.helo_bad_byte: localName[i] <= ' ' || localName[i] == 0x7f) *)
Definition helo_name_ok (n : bytes) : bool :=
  validate_line n && forallb (fun b => negb (helo_bad_byte b)) n.
Definition helo_name_ok_old (n : bytes) : bool := validate_line n.

Definition ehlo_line (n : bytes) : option bytes :=
  if helo_name_ok n then Some (bs "EHLO " ++ n) else None.
Definition helo_line (n : bytes) : option bytes :=
  if helo_name_ok n then Some (bs "HELO " ++ n) else None.
Definition ehlo_line_old (n : bytes) : option bytes :=
  if helo_name_ok_old n then Some (bs "EHLO " ++ n) else None.

(* smtp.Client.Auth: "AUTH %s %s" with the base64 of the initial response ("AUTH %s" when there
   is none), every further response is a line holding base64 only; "*" aborts *)
Definition auth_line (mech : bytes) (resp : option bytes) : bytes :=
  match resp with
  | None => bs "AUTH " ++ mech
  | Some r => bs "AUTH " ++ mech ++ [32] ++ b64enc r
  end.
Definition auth_resp_line (r : bytes) : bytes := b64enc r.

(* every command line the client can write outside DATA *)
Inductive command :=
| CmdEhlo (n : bytes) | CmdHelo (n : bytes)
| CmdMail (c : caps) (ret from : bytes) | CmdRcpt (c : caps) (notify to : bytes)
| CmdAuth (mech : bytes) (resp : option bytes) | CmdAuthResp (r : bytes) | CmdAuthAbort
| CmdData | CmdRset | CmdNoop | CmdQuit | CmdStartTLS.

Definition line_of (c : command) : option bytes :=
  match c with
  | CmdEhlo n => ehlo_line n
  | CmdHelo n => helo_line n
  | CmdMail c ret from => mail_line c ret from
  | CmdRcpt c notify to => rcpt_line c notify to
  | CmdAuth mech resp => Some (auth_line mech resp)
  | CmdAuthResp r => Some (auth_resp_line r)
  | CmdAuthAbort => Some (bs "*")
  | CmdData => Some (bs "DATA")
  | CmdRset => Some (bs "RSET")
  | CmdNoop => Some (bs "NOOP")
  | CmdQuit => Some (bs "QUIT")
  | CmdStartTLS => Some (bs "STARTTLS")
  end.

Fixpoint map_opt {A B} (f : A -> option B) (l : list A) : option (list B) :=
  match l with
  | [] => Some []
  | x :: t => match f x with
              | None => None
              | Some y => match map_opt f t with None => None | Some r => Some (y :: r) end
              end
  end.

Fixpoint keep_some {A} (l : list (option A)) : list A :=
  match l with
  | [] => []
  | Some x :: t => x :: keep_some t
  | None :: t => keep_some t
  end.

(* sendSingleMsg up to DATA against a server that accepts everything: the MAIL and RCPT lines.
   None = refused before anything of the message is sent (smtpMailbox error, or Mail's validateLine).
   A recipient refused by Rcpt's validateLine is skipped (Rcpt returns the error without writing). *)
Definition envelope_lines_with (mb : bytes -> option bytes) (c : caps) (ret notify : bytes)
           (from : bytes) (rcpts : list bytes) : option (list bytes) :=
  match mb from with
  | None => None
  | Some f =>
      match map_opt mb rcpts with
      | None => None
      | Some rs =>
          match mail_line c ret f with
          | None => None
          | Some ml => Some (ml :: keep_some (map (rcpt_line c notify) rs))
          end
      end
  end.

Definition envelope_lines := envelope_lines_with smtp_mailbox.
Definition envelope_lines_old := envelope_lines_with smtp_mailbox_old.

(* ---- client.go: the DSN options (WithDSN, WithDSNMailReturnType, WithDSNRcptNotifyType) ---- *)
Inductive dsn_opt := DDefault | DRet (r : bytes) | DNotify (l : list bytes).
Record dsn_cfg := mkDsn { d_ret : bytes; d_notify : list bytes }.
Definition dsn_none : dsn_cfg := mkDsn [] [].

Definition notify_known (o : bytes) : bool :=
  bytes_eqb o dsn_notify_never || bytes_eqb o dsn_notify_success ||
  bytes_eqb o dsn_notify_failure || bytes_eqb o dsn_notify_delay.

(* None = the option function returns an error (NewClient fails) *)
Definition apply_dsn (c : dsn_cfg) (o : dsn_opt) : option dsn_cfg :=
  match o with
  | DDefault => Some (mkDsn dsn_ret_full [dsn_notify_failure; dsn_notify_success])
  | DRet r =>
      if bytes_eqb r dsn_ret_hdrs || bytes_eqb r dsn_ret_full then Some (mkDsn r (d_notify c)) else None
  | DNotify l =>
      if negb (forallb notify_known l) then None
      else if existsb (bytes_eqb dsn_notify_never) l &&
              existsb (fun o => negb (bytes_eqb dsn_notify_never o)) l then None
      else Some (mkDsn (d_ret c) l)
  end.

Fixpoint apply_dsn_opts (c : dsn_cfg) (l : list dsn_opt) : option dsn_cfg :=
  match l with
  | [] => Some c
  | o :: t => match apply_dsn c o with None => None | Some c' => apply_dsn_opts c' t end
  end.

(* strings.Join(c.dsnRcptNotifyType, ",") *)
Definition notify_string (c : dsn_cfg) : bytes := join [44] (d_notify c).

(* ------------------------------------------------------------------ *)
(* RFC 5321 section 4.1.2 — the server side reading of a MAIL / RCPT line *)
(* ------------------------------------------------------------------ *)

Inductive verb := VMail | VRcpt.

(* atext (RFC 5322 3.2.3), extended by UTF8-non-ascii under RFC 6531 *)
Definition atext (u8 : bool) (b : N) : bool :=
  is_alnum b || mem_byte b atext_specials || (u8 && (128 <=? b)).

(* qtextSMTP = %d32-33 / %d35-91 / %d93-126 (/ UTF8-non-ascii) *)
Definition qtext_smtp (u8 : bool) (b : N) : bool :=
  ((32 <=? b) && (b <=? 33)) || ((35 <=? b) && (b <=? 91)) || ((93 <=? b) && (b <=? 126)) ||
  (u8 && (128 <=? b)).

(* Quoted-string after the opening DQUOTE: content (unquoted) and the rest after the closing DQUOTE.
   quoted-pairSMTP = %d92 %d32-126 *)
Fixpoint parse_quoted (u8 : bool) (s : bytes) : option (bytes * bytes) :=
  match s with
  | [] => None
  | b :: t =>
      if b =? 34 then Some ([], t)
      else if b =? 92 then
        match t with
        | [] => None
        | c :: t' =>
            if (32 <=? c) && (c <=? 126) then
              match parse_quoted u8 t' with
              | Some (l, r) => Some (c :: l, r)
              | None => None
              end
            else None
        end
      else if qtext_smtp u8 b then
        match parse_quoted u8 t with
        | Some (l, r) => Some (b :: l, r)
        | None => None
        end
      else None
  end.

Fixpoint span (p : N -> bool) (s : bytes) : bytes * bytes :=
  match s with
  | [] => ([], [])
  | b :: t => if p b then let '(a, r) := span p t in (b :: a, r) else ([], s)
  end.

(* Dot-string = Atom *("." Atom): every piece between dots is a non-empty run of atext *)
Definition atoms_ok (u8 : bool) (l : bytes) : bool :=
  forallb (fun a => negb (match a with [] => true | _ => false end) && forallb (atext u8) a)
          (split_on 46 l).

(* sub-domain = Let-dig [Ldh-str] (/ U-label) *)
Definition let_dig (u8 : bool) (b : N) : bool := is_alnum b || (u8 && (128 <=? b)).
Definition ldh (u8 : bool) (b : N) : bool := let_dig u8 b || (b =? 45).
Definition label_ok (u8 : bool) (l : bytes) : bool :=
  match l with
  | [] => false
  | b :: _ => let_dig u8 b && let_dig u8 (last_byte l 0) && forallb (ldh u8) l
  end.
Definition domain_name_ok (u8 : bool) (d : bytes) : bool := forallb (label_ok u8) (split_on 46 d).

(* address-literal = "[" 1*dcontent "]", dcontent = %d33-90 / %d94-126 *)
Definition dcontent (b : N) : bool := ((33 <=? b) && (b <=? 90)) || ((94 <=? b) && (b <=? 126)).

(* esmtp-param = esmtp-keyword ["=" esmtp-value] *)
Definition esmtp_value_char (b : N) : bool := ((33 <=? b) && (b <=? 60)) || ((62 <=? b) && (b <=? 126)).
Definition esmtp_kw_char (b : N) : bool := is_alnum b || (b =? 45).
Definition esmtp_param_ok (p : bytes) : bool :=
  let '(k, r) := span esmtp_kw_char p in
  match k with
  | [] => false
  | k0 :: _ =>
      is_alnum k0 &&
      match r with
      | [] => true
      | e :: v => (e =? 61) && negb (match v with [] => true | _ => false end) && forallb esmtp_value_char v
      end
  end.

Definition to_upper (b : N) : N := if (97 <=? b) && (b <=? 122) then b - 32 else b.

Fixpoint strip_prefix_ci (p s : bytes) : option bytes :=
  match p, s with
  | [], _ => Some s
  | x :: p', y :: s' => if to_upper y =? x then strip_prefix_ci p' s' else None
  | _ :: _, [] => None
  end.

Definition parse_local (u8 : bool) (s : bytes) : option (bytes * bytes) :=
  match s with
  | 34 :: t => parse_quoted u8 t
  | _ =>
      let '(l, r) := span (fun b => atext u8 b || (b =? 46)) s in
      if atoms_ok u8 l then Some (l, r) else None
  end.

Definition parse_domain (u8 : bool) (s : bytes) : option (bytes * bytes) :=
  match s with
  | 91 :: t =>
      let '(c, r) := span dcontent t in
      match c, r with
      | _ :: _, 93 :: r' => Some (91 :: c ++ [93], r')
      | _, _ => None
      end
  | _ =>
      let '(d, r) := span (fun b => ldh u8 b || (b =? 46)) s in
      if domain_name_ok u8 d then Some (d, r) else None
  end.

Definition parse_params (s : bytes) : option (list bytes) :=
  match s with
  | [] => Some []
  | 32 :: t => let ps := split_on 32 t in if forallb esmtp_param_ok ps then Some ps else None
  | _ => None
  end.

(* "<" Mailbox ">" [SP params]; source routes and the null path are not accepted (never intended here) *)
Definition parse_path (u8 : bool) (s : bytes) : option (bytes * bytes * list bytes) :=
  match s with
  | 60 :: t =>
      match parse_local u8 t with
      | Some (l, 64 :: t1) =>
          match parse_domain u8 t1 with
          | Some (d, 62 :: t2) =>
              match parse_params t2 with
              | Some ps => Some (l, d, ps)
              | None => None
              end
          | _ => None
          end
      | _ => None
      end
  | _ => None
  end.

Definition parse_path_line (u8 : bool) (line : bytes) : option (verb * bytes * bytes * list bytes) :=
  match strip_prefix_ci (bs "MAIL FROM:") line with
  | Some r => match parse_path u8 r with Some (l, d, ps) => Some (VMail, l, d, ps) | None => None end
  | None =>
      match strip_prefix_ci (bs "RCPT TO:") line with
      | Some r => match parse_path u8 r with Some (l, d, ps) => Some (VRcpt, l, d, ps) | None => None end
      | None => None
      end
  end.

(* a Domain as RFC 5321 admits it in a Mailbox (what the theorems assume of the address oracle's
   domain): domain name or bracketed literal; in particular it contains neither "@" nor ">" *)
Definition domain_ok (u8 : bool) (d : bytes) : bool :=
  match d with
  | 91 :: t =>
      match rev t with
      | 93 :: c => negb (match c with [] => true | _ => false end) && forallb dcontent c
      | _ => false
      end
  | _ => domain_name_ok u8 d
  end.

(* a local part that RFC 5321 can carry at all *)
Definition local_ok (u8 : bool) (l : bytes) : bool :=
  negb (match l with [] => true | _ => false end) &&
  forallb (fun b => ((32 <=? b) && (b <=? 126)) || (u8 && (128 <=? b))) l.
