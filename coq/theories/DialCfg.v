(* DialCfg.v — the configuration path of mail.Client: the calls that decide TLS policy, port, fallback port and implicit
   TLS (client.go: WithTLSPolicy / SetTLSPolicy, WithTLSPortPolicy / SetTLSPortPolicy, WithSSL / SetSSL, WithSSLPort /
   SetSSLPort, WithPort), applied in order to the defaults of NewClient.  An Option and the setter of the same name have
   the same effect (WithTLSPortPolicy calls SetTLSPortPolicy, WithSSLPort(fb) calls SetSSLPort(true, fb), WithSSL sets
   true), so one constructor stands for both.  There is no SetPort in client.go. *)
From Coq Require Import String.
From Verif Require Export Dial.
From VerifGen Require Import Gen.
Open Scope N_scope.

Inductive cfg_call :=
| CTLSPolicy (p : policy)            (* c.tlspolicy = p *)
| CTLSPortPolicy (p : policy)        (* SetTLSPortPolicy *)
| CSSL (b : bool)                    (* c.useSSL = b *)
| CSSLPort (ssl fb : bool)           (* SetSSLPort *)
| CPort (n : N).                     (* WithPort: refused unless 1 <= n <= 65535 *)

Record client_cfg := mkCC { cc_policy : policy; cc_port : N; cc_fallback : N; cc_ssl : bool }.

Definition default_policy : policy := if Gen.default_tls_policy_mandatory then Mandatory else NoTLS.

Definition cc_default : client_cfg := mkCC default_policy Gen.default_port 0 false.

Definition is_notls (p : policy) : bool := match p with NoTLS => true | _ => false end.
Definition is_opportunistic (p : policy) : bool := match p with Opportunistic => true | _ => false end.

Definition apply_call (cc : client_cfg) (c : cfg_call) : client_cfg :=
  match c with
  | CTLSPolicy p => mkCC p (cc_port cc) (cc_fallback cc) (cc_ssl cc)
  | CTLSPortPolicy p =>
      if cc_port cc =? Gen.default_port then
        mkCC p (if is_notls p then Gen.default_port else Gen.default_port_tls)
               (if is_opportunistic p then Gen.default_port else 0) (cc_ssl cc)
      else mkCC p (cc_port cc) (cc_fallback cc) (cc_ssl cc)
  | CSSL b => mkCC (cc_policy cc) (cc_port cc) (cc_fallback cc) b
  | CSSLPort ssl fb =>
      if cc_port cc =? Gen.default_port then
        mkCC (cc_policy cc) (if ssl then Gen.default_port_ssl else cc_port cc) (if fb then Gen.default_port else 0) ssl
      else mkCC (cc_policy cc) (cc_port cc) (cc_fallback cc) ssl
  | CPort n =>
      if (1 <=? n) && (n <=? 65535) then mkCC (cc_policy cc) n (cc_fallback cc) (cc_ssl cc) else cc
  end.

Definition apply_from (cc : client_cfg) (l : list cfg_call) : client_cfg := fold_left apply_call l cc.
Definition apply_cfg (l : list cfg_call) : client_cfg := apply_from cc_default l.

(* the specification: the last call that names a policy / an ssl flag decides *)
Definition policy_of_call (c : cfg_call) : option policy :=
  match c with CTLSPolicy p | CTLSPortPolicy p => Some p | _ => None end.
Definition ssl_of_call (c : cfg_call) : option bool :=
  match c with CSSL b => Some b | CSSLPort b _ => Some b | _ => None end.

Definition last_of {A : Type} (f : cfg_call -> option A) (d : A) (l : list cfg_call) : A :=
  fold_left (fun acc c => match f c with Some x => x | None => acc end) l d.

(* the dial configuration that results from a configuration path *)
Definition cfg_of (l : list cfg_call) (auth : bytes) (custom : option auth_impl) (host : bytes) (nonoop fxc fxq fxa fxs : bool) : config :=
  let cc := apply_cfg l in
  mkCfg (cc_policy cc) (cc_ssl cc) auth custom host nonoop fxc fxq fxa fxs (negb (cc_fallback cc =? 0)).
