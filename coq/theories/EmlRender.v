(* EmlRender.v — the part of the writer that C10 needs next to the parser model (Eml.v):
   (1) the file-name path: what addFiles (msgwriter.go:323) writes into Content-Disposition for a file
       name and what parseEMLAttachmentEmbed reads back from it;
   (2) the names of the header fields that writeMsg (msgwriter.go:101) emits at the top level for a Msg
       that came out of the parser, in order: addDefaultHeader, checkUserAgent, writeGenHeader
       (sorted keys), From, To, Cc, then Content-Type of the outermost multipart or
       Content-Transfer-Encoding + Content-Type of the single part.
   The full writer model (bodies, boundaries, folding) is Writer.v's subject, not needed here. *)
From Coq Require Import String.
From Verif Require Export Bytes Eml.
From VerifGen Require Import Gen.
From Coq Require Import ZArith.

(* ---------- (1) file names ---------- *)
(* sanitizeFilename: the byte predicate is the one in the source (Gen.sanitize_bad) *)
Definition sanitize (name : bytes) : bytes := map (fun b => if sanitize_bad b then 95%N else b) name.

(* mime.WordEncoder.Encode leaves a string alone iff every byte is printable ASCII or TAB *)
Definition needs_encoding (s : bytes) : bool :=
  existsb (fun b => ((b <? 32) || (126 <? b))%N && negb (N.eqb b 9)) s.

(* fmt.Sprintf(`%s; filename="%s"`, disposition, <encoded sanitized name>) *)
Definition render_cd (disp encoded : bytes) : bytes :=
  disp ++ bs "; filename=""" ++ encoded ++ [dquote].

(* what the parser makes of a Content-Disposition value: file name *)
Definition parse_cd_filename (fnof : bytes -> outcome bytes) (cd : bytes) : outcome bytes :=
  ph <- parse_multipart_header cd ;;
  match map_get (snd ph) lit_filename with
  | Some name => fnof name
  | None => Ok lit_generic
  end.

(* render then parse, for names the encoder leaves alone (all others: see C10_filename_not_decoded) *)
Definition roundtrip_filename (name : bytes) : outcome bytes :=
  parse_cd_filename filename_of (render_cd lit_attachment (sanitize name)).

(* ---------- (2) header field names of the re-render ---------- *)
Fixpoint bytes_ltb (a b : bytes) : bool :=       (* Go string order: bytewise lexicographic *)
  match a, b with
  | [], [] => false
  | [], _ :: _ => true
  | _ :: _, [] => false
  | x :: a', y :: b' => if (x <? y)%N then true else if (y <? x)%N then false else bytes_ltb a' b'
  end.

Fixpoint insert_sorted (k : bytes) (l : list bytes) : list bytes :=
  match l with
  | [] => [k]
  | x :: t => if bytes_ltb x k then x :: insert_sorted k t else k :: l
  end.
Definition sort_keys (l : list bytes) : list bytes := fold_right insert_sorted [] l.

Definition memb (k : bytes) (l : list bytes) : bool := existsb (bytes_eqb k) l.
Definition add_missing (k : bytes) (l : list bytes) : list bytes := if memb k l then l else l ++ [k].

(* keys of genHeader after addDefaultHeader and checkUserAgent *)
Definition gen_keys_at_render (keys : list bytes) : list bytes :=
  let k1 := add_missing hdr_date keys in
  let k2 := add_missing hdr_message_id k1 in
  let k3 := add_missing hdr_mime_version k2 in
  if negb (memb hdr_user_agent k3) && negb (memb hdr_x_mailer k3)
  then k3 ++ [hdr_user_agent; hdr_x_mailer] else k3.

(* what follows the address fields: Content-Type of the outermost multipart, or the two part headers
   of the single body part written at depth 0 *)
Definition tail_fields (multi single : bool) : list bytes :=
  if multi then [hdr_content_type]
  else if single then [hdr_content_transfer_enc; hdr_content_type]
  else [].                                        (* file-only messages: map order, not modelled *)

Definition rerender_fields (st : mstate) (has_from has_to has_cc : bool) : list bytes :=
  let np := length (m_parts st) in
  let na := length (m_atts st) in
  let ne := length (m_embs st) in
  let has_mixed := (Nat.ltb 0 np && Nat.ltb 0 na) || Nat.ltb 1 na in
  let has_related := (Nat.ltb 0 np && Nat.ltb 0 ne) || Nat.ltb 1 ne in
  let has_alt := Nat.ltb 1 np in
  sort_keys (gen_keys_at_render (map fst (m_gen st)))
  ++ (if has_from then [hdr_from] else [])
  ++ (if has_to then [hdr_to] else [])
  ++ (if has_cc then [hdr_cc] else [])
  ++ tail_fields (has_mixed || has_related || has_alt) (Nat.eqb np 1).

(* parse, then the field names of the re-render *)
Definition parse_and_rerender_fields (fnof : bytes -> outcome bytes) (legacy : bool) (t : top)
  (has_from has_to has_cc : bool) : outcome (mstate * list bytes) :=
  st <- parse_eml fnof legacy t ;;
  Ok (st, rerender_fields st has_from has_to has_cc).

Fixpoint nodupb (l : list bytes) : bool :=
  match l with
  | [] => true
  | x :: t => negb (memb x t) && nodupb t
  end.
