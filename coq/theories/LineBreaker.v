(* LineBreaker.v — b64linebreaker.go transliterated.
   The destination is a bytes.Buffer (never fails) as wired by msgWriter.writeBody, so
   the output is accumulated.  [max_body] comes from the source via Gen.v. *)
From Verif Require Export Bytes Base64.
From VerifGen Require Import Gen.
Open Scope nat_scope.

Definition max_body : nat := N.to_nat Gen.max_body_length.

(* base64LineBreaker.Write: state = the buffered line (l.line[:l.used]).
   Returns the new buffered line and the bytes written to l.out.
   The Go function recurses on data[excess:]; fuel makes that structural, [None] = out of fuel. *)
Fixpoint lb_write (fuel : nat) (line data : bytes) : option (bytes * bytes) :=
  match fuel with
  | O => None
  | S f =>
      if Gen.lb_fits (N.of_nat (length line)) (N.of_nat (length data)) Gen.max_body_length
      then Some (line ++ data, [])
      else
        let excess := max_body - length line in
        match lb_write f [] (skipn excess data) with
        | Some (line', out') => Some (line', line ++ firstn excess data ++ crlf ++ out')
        | None => None
        end
  end.

Definition lb_write_top (line data : bytes) : option (bytes * bytes) :=
  lb_write (S (length data)) line data.

(* base64LineBreaker.Close *)
Definition lb_close (line : bytes) : bytes :=
  match line with
  | [] => []
  | _ => line ++ crlf
  end.

(* a whole run: Write chunk_1 … Write chunk_n, Close *)
Fixpoint lb_run_from (line : bytes) (chunks : list bytes) : option bytes :=
  match chunks with
  | [] => Some (lb_close line)
  | c :: cs =>
      match lb_write_top line c with
      | Some (line', out) =>
          match lb_run_from line' cs with
          | Some rest => Some (out ++ rest)
          | None => None
          end
      | None => None
      end
  end.

Definition lb_run (chunks : list bytes) : option bytes := lb_run_from [] chunks.

(* Specification: wrap at [max] columns, every line (also the last, if non-empty) ends in CRLF *)
Fixpoint wrap_from (max col : nat) (s : bytes) : bytes :=
  match s with
  | [] => if Nat.eqb col 0 then [] else crlf
  | b :: t =>
      if Nat.eqb (S col) max then b :: crlf ++ wrap_from max 0 t
      else b :: wrap_from max (S col) t
  end.

Definition wrap (s : bytes) : bytes := wrap_from max_body 0 s.

(* the base64 body of a part/file whose producer emitted [chunks]:
   base64.NewEncoder hands the line breaker the encoding of the whole content in pieces
   of its own choosing; by lb_chunk_independent the pieces do not matter, so the model
   feeds it in one piece. *)
Definition b64_body (content : bytes) : option bytes := lb_run [b64enc content].
