(* SaslRun.v — executable instances for the correspondence check (T3) and for the refutation witnesses:
   the mechanisms with the concrete hashes of Crypto.v, a table-driven PRECIS oracle, and the scripted
   SCRAM adversary of C15 (the property's alphabet of ten server messages, made concrete against what the
   server has seen of the client so far — the same construction as harness/c15).
   Nothing here is used by a theorem that quantifies over H / HMAC. *)
From Coq Require Import String ZArith.
From Verif Require Export Bytes Base64 Scram AuthLoop Sasl Crypto.
From VerifGen Require Import Gen.
Open Scope N_scope.

Definition table_oracle (tab : list (bytes * option bytes)) (s : bytes) : option bytes :=
  match find (fun e => bytes_eqb (fst e) s) tab with
  | Some e => snd e
  | None => None
  end.

(* variant: false = SHA-1, true = SHA-256 *)
Definition hash_of (v256 : bool) : bytes -> bytes := if v256 then sha256 else sha1.
Definition hmac_of (v256 : bool) : bytes -> bytes -> bytes := if v256 then hmac_sha256 else hmac_sha1.
Definition hsize_of (v256 : bool) : nat := if v256 then 32%nat else 20%nat.

Definition scram_run (v256 : bool) (cfg : scram_cfg) (precis : bytes -> option bytes) (id : scram_id)
           (lad : bool) (s : scram_state * list bytes) (script : list reply) : final (scram_state * list bytes) :=
  auth (scram_mech (hash_of v256) (hmac_of v256) (hsize_of v256) precis cfg id) lad false s script.

(* ---- the C15 adversary ---- *)
(* the server's account data are, as in RFC 5802 section 3, the salt, the iteration count and the ServerKey
   (not the password); sp_other_key is the ServerKey of another password, sp_empty_key = HMAC("", "Server Key").
   The three keys are supplied by the harness (computed with Go's crypto). *)
Record srv_params := { sp_salt : bytes; sp_iter : N; sp_server_key : bytes; sp_other_key : bytes; sp_empty_key : bytes;
                       sp_zero_key : bytes (* HMAC(0^hashlen, "Server Key"): ServerKey of an all-zero SaltedPassword *);
                       sp_nonce : bytes (* server part of the nonce *) }.

(* what the server knows: client-first-message-bare and client nonce of the last client-first it received,
   the last server-first it sent, the last client-final-message-without-proof it received *)
Record srv_view := { v_bare : bytes; v_cn : bytes; v_sfirst : bytes; v_cfwp : bytes;
                     v_lastfinal : bytes (* the last valid server-final (symbol 3) sent in this dialogue *) }.
Definition view0 : srv_view := {| v_bare := []; v_cn := []; v_sfirst := []; v_cfwp := []; v_lastfinal := [] |}.

(* the part of [s] after the first occurrence of ",," (gs2 header end) *)
Fixpoint after_gs2 (s : bytes) : option bytes :=
  match s with
  | 44 :: 44 :: t => Some t
  | _ :: t => after_gs2 t
  | [] => None
  end.

Definition last_part (s : bytes) : bytes := last (split_on 44 s) [].

Definition see_line (v : srv_view) (line64 : bytes) : srv_view :=
  match b64dec line64 with
  | None => v
  | Some m =>
      if is_prefix (bs "n,,") m || is_prefix (bs "p=") m then
        match after_gs2 m with
        | Some bare => {| v_bare := bare; v_cn := skipn 2 (last_part bare); v_sfirst := v_sfirst v; v_cfwp := v_cfwp v;
                          v_lastfinal := v_lastfinal v |}
        | None => v
        end
      else if is_prefix (bs "c=") m then
        {| v_bare := v_bare v; v_cn := v_cn v; v_sfirst := v_sfirst v;
           v_cfwp := join [44] (removelast (split_on 44 m)); v_lastfinal := v_lastfinal v |}
      else v
  end.

Definition sent_first (v : srv_view) (m : bytes) : srv_view :=
  {| v_bare := v_bare v; v_cn := v_cn v; v_sfirst := m; v_cfwp := v_cfwp v; v_lastfinal := v_lastfinal v |}.

Definition sent_final (v : srv_view) (m : bytes) : srv_view :=
  {| v_bare := v_bare v; v_cn := v_cn v; v_sfirst := v_sfirst v; v_cfwp := v_cfwp v; v_lastfinal := m |}.

Definition srv_sig (v256 : bool) (key : bytes) (v : srv_view) : bytes :=
  bs "v=" ++ b64enc (hmac_of v256 key (v_bare v ++ bs "," ++ v_sfirst v ++ bs "," ++ v_cfwp v)).

Definition chal (m : bytes) : reply := Reply 334 (b64enc m).

(* symbol -> (reply, new view); [prev] = the valid server-final recorded in an earlier Auth call on the same
   scramAuth value (symbol 10, used by the retry cases only) *)
Definition concretize (v256 : bool) (p : srv_params) (prev : bytes) (sym : N) (v : srv_view) : reply * srv_view :=
  let tail := bs ",s=" ++ b64enc (sp_salt p) ++ bs ",i=" ++ dec_of_N (sp_iter p) in
  match sym with
  | 0 => let m := bs "r=" ++ v_cn v ++ sp_nonce p ++ tail in (chal m, sent_first v m)
  | 1 => let m := bs "r=" ++ removelast (v_cn v) ++ bs "~" ++ sp_nonce p ++ tail in (chal m, sent_first v m)
  | 2 => let m := bs "r=" ++ v_cn v ++ sp_nonce p ++ bs ",s=!!!,i=" ++ dec_of_N (sp_iter p) in (chal m, sent_first v m)
  | 3 => let m := srv_sig v256 (sp_server_key p) v in (chal m, sent_final v m)
  | 4 => (chal (srv_sig v256 (sp_other_key p) v), v)
  | 5 => (chal (bs "v=" ++ b64enc (hmac_of v256 (sp_empty_key p) [])), v)
  | 6 => (Reply 334 [], v)
  | 7 => (chal (bs "x=junk"), v)
  | 8 => (Reply 235 (bs "2.7.0 ok"), v)
  | 9 => (Reply 535 (bs "5.7.8 no"), v)
  | 11 => (chal (v_lastfinal v), v)
  (* server-first whose r= is a (proper) prefix of the client nonce / the client nonce exactly, no server part *)
  | 12 => let m := bs "r=" ++ tail in (chal m, sent_first v m)
  | 13 => let m := bs "r=" ++ firstn 1 (v_cn v) ++ tail in (chal m, sent_first v m)
  | 14 => let m := bs "r=" ++ removelast (v_cn v) ++ tail in (chal m, sent_first v m)
  | 15 => let m := bs "r=" ++ v_cn v ++ tail in (chal m, sent_first v m)
  (* otherwise valid server-first with an unusual iteration count text *)
  | 16 => let m := bs "r=" ++ v_cn v ++ sp_nonce p ++ bs ",s=" ++ b64enc (sp_salt p) ++ bs ",i=0" in (chal m, sent_first v m)
  | 17 => let m := bs "r=" ++ v_cn v ++ sp_nonce p ++ bs ",s=" ++ b64enc (sp_salt p) ++ bs ",i=-1" in (chal m, sent_first v m)
  | 18 => let m := bs "r=" ++ v_cn v ++ sp_nonce p ++ bs ",s=" ++ b64enc (sp_salt p) ++ bs ",i=00" in (chal m, sent_first v m)
  | 19 => let m := bs "r=" ++ v_cn v ++ sp_nonce p ++ bs ",s=" ++ b64enc (sp_salt p) ++ bs ",i=+5" in (chal m, sent_first v m)
  | 20 => let m := bs "r=" ++ v_cn v ++ sp_nonce p ++ bs ",s=" ++ b64enc (sp_salt p) ++ bs ",i=" in (chal m, sent_first v m)
  | 21 => let m := bs "r=" ++ v_cn v ++ sp_nonce p ++ bs ",s=" ++ b64enc (sp_salt p) ++ bs ",i=4096x" in (chal m, sent_first v m)
  | 23 => (chal (srv_sig v256 (sp_zero_key p) v), v)   (* server-final computed from an all-zero SaltedPassword *)
  | 22 => let m := bs "r=" ++ v_cn v ++ sp_nonce p ++ bs ",s=" ++ b64enc (sp_salt p) ++ bs ",i=99999999999999999999" in (chal m, sent_first v m)     (* the valid server-final of an EARLIER exchange of this dialogue, resent *)
  | _ => (chal prev, v)
  end.

(* the script the adversary produces for a symbol sequence: reply k is made concrete against the lines the
   client has written after k replies (the client never pipelines).  The client's lines are obtained by
   stepping the Auth loop one reply at a time (auth_loop with no further replies ends in AErrIO exactly when
   the client has written its next line and waits); once the client has left the loop the view is frozen.
   The observable of a case is NOT taken from this stepping but from [auth] on the finished script. *)
Fixpoint cosim (v256 : bool) (cfg : scram_cfg) (precis : bytes -> option bytes) (id : scram_id)
         (p : srv_params) (prev : bytes) (syms : list N) (live : bool) (s : scram_state * list bytes)
         (v : srv_view) (script : list reply) : list reply :=
  match syms with
  | [] => script
  | sy :: rest =>
      if negb live then
        (* the client has left the loop ("*", "QUIT" or silence): the server answers 250 and the symbol is spent *)
        cosim v256 cfg precis id p prev rest false s v (script ++ [Reply 250 (bs "ok")])
      else
      let '(r, v1) := concretize v256 p prev sy v in
      match r with
      | Reply c mm =>
          if live then
            let f := auth_loop (scram_mech (hash_of v256) (hmac_of v256) (hsize_of v256) precis cfg id)
                               true (sid_algo id) s c mm [] {| o_sent := []; o_log := [] |} in
            let v2 := fold_left see_line (o_sent (f_out f)) v1 in
            let live' := match f_res f with AErrIO => true | _ => false end in
            cosim v256 cfg precis id p prev rest live' (f_state f) v2 (script ++ [r])
          else cosim v256 cfg precis id p prev rest false s v1 (script ++ [r])
      | RBad => cosim v256 cfg precis id p prev rest false s v1 (script ++ [r])
      end
  end.

Definition build_script (v256 : bool) (cfg : scram_cfg) (precis : bytes -> option bytes) (id : scram_id)
           (p : srv_params) (prev : bytes) (s0 : scram_state * list bytes) (syms : list N) : list reply :=
  let s1 := fst (scram_start cfg id s0) in
  cosim v256 cfg precis id p prev syms true s1 view0 [].

Definition result_code (r : auth_result) : bytes :=
  match r with
  | ASuccess => bs "OK"
  | AErrStart => bs "ESTART"
  | AErrIO => bs "EIO"
  | AErrServer c => bs "ESRV" ++ dec_of_N c
  | AErrDecode => bs "EB64"
  | AErrMech => bs "EMECH"
  end.

(* one C15 case: result class and every line the client wrote *)
Definition c15_run (v256 : bool) (cfg : scram_cfg) (precis : bytes -> option bytes) (id : scram_id)
           (p : srv_params) (rands : list bytes) (syms : list N) : bytes * list bytes :=
  let s0 := (ss_zero, rands) in
  let script := build_script v256 cfg precis id p [] s0 syms in
  let f := scram_run v256 cfg precis id false s0 script in
  (result_code (f_res f), o_sent (f_out f)).

(* several complete dialogues in one process, each with a FRESH scramAuth value on a new connection, same account
   parameters: derivations are pure, nothing but the randomness oracle links one dialogue to the next *)
Fixpoint c15_multi (v256 : bool) (cfg : scram_cfg) (precis : bytes -> option bytes) (id : scram_id)
         (p : srv_params) (rands : list bytes) (dialogues : list (list N)) : list (bytes * list bytes) :=
  match dialogues with
  | [] => []
  | syms :: rest =>
      let s0 := (ss_zero, rands) in
      let script := build_script v256 cfg precis id p [] s0 syms in
      let f := scram_run v256 cfg precis id false s0 script in
      (result_code (f_res f), o_sent (f_out f)) :: c15_multi v256 cfg precis id p (snd (f_state f)) rest
  end.

(* the last valid server-final (symbol 3) of a script, for the retry cases *)
Definition last_final (v256 : bool) (p : srv_params) (script : list reply) (sent : list bytes) : bytes :=
  let v := fold_left see_line sent view0 in
  let sf := fold_left (fun acc r => match r with
                                    | Reply 334 m64 => match b64dec m64 with
                                                       | Some m => if is_prefix (bs "r=") m then m else acc
                                                       | None => acc
                                                       end
                                    | _ => acc
                                    end) script [] in
  srv_sig v256 (sp_server_key p) (sent_first v sf).

(* a retry on the same scramAuth value: first call with syms1, second call (new connection) with syms2,
   where symbol 10 replays the valid server-final of the first call *)
Definition c15_retry (v256 : bool) (cfg : scram_cfg) (precis : bytes -> option bytes) (id : scram_id)
           (p : srv_params) (rands : list bytes) (syms1 syms2 : list N)
  : (bytes * list bytes) * (bytes * list bytes) :=
  let s0 := (ss_zero, rands) in
  let script1 := build_script v256 cfg precis id p [] s0 syms1 in
  let f1 := scram_run v256 cfg precis id false s0 script1 in
  let prev := last_final v256 p script1 (o_sent (f_out f1)) in
  let s1 := f_state f1 in
  let script2 := build_script v256 cfg precis id p prev s1 syms2 in
  let f2 := scram_run v256 cfg precis id false s1 script2 in
  ((result_code (f_res f1), o_sent (f_out f1)), (result_code (f_res f2), o_sent (f_out f2))).

(* ---- generic runs for C14 / C16: any mechanism against a concrete reply script ---- *)
Inductive mech_desc :=
| MPlain (a : plain_id) (si : srvinfo)
| MLogin (a : login_id) (si : srvinfo)
| MCram (user secret : bytes)
| MXoauth2 (user token : bytes)
| MScram (v256 : bool) (id : scram_id) (precis_tab : list (bytes * option bytes)) (rands : list bytes).

(* a log record as one byte string: '>' (client to server) or '<' followed by the rendered text *)
Definition log_bytes (l : logrec) : bytes := (if lr_c2s l then 62 else 60) :: lr_text l.

Record run_obs := { ro_class : bytes; ro_active : bool; ro_closed : bool; ro_sent : list bytes; ro_log : list bytes }.

Definition obs_of {S} (f : final S) : run_obs :=
  {| ro_class := result_code (f_res f); ro_active := f_active f; ro_closed := f_closed f;
     ro_sent := o_sent (f_out f); ro_log := map log_bytes (o_log (f_out f)) |}.

Definition run_auth (cfg : scram_cfg) (d : mech_desc) (lad : bool) (script : list reply) : run_obs :=
  match d with
  | MPlain a si => obs_of (auth (plain_mech a si) lad false tt script)
  | MLogin a si => obs_of (auth (login_mech a si) lad false 0 script)
  | MCram u s => obs_of (auth (cram_mech hmac_md5 u s) lad false tt script)
  | MXoauth2 u t => obs_of (auth (xoauth2_mech u t) lad false tt script)
  | MScram v256 id tab rands => obs_of (scram_run v256 cfg (table_oracle tab) id lad (ss_zero, rands) script)
  end.

(* several exchanges on the SAME Auth value (one reply script per exchange, each on a new connection): the mechanism
   state left by one call of Auth is the state the next call starts from *)
Fixpoint auth_seq {S} (m : mech S) (lad : bool) (s : S) (scripts : list (list reply)) : list run_obs :=
  match scripts with
  | [] => []
  | sc :: rest => let f := auth m lad false s sc in obs_of f :: auth_seq m lad (f_state f) rest
  end.

Definition run_auth_seq (cfg : scram_cfg) (d : mech_desc) (lad : bool) (scripts : list (list reply)) : list run_obs :=
  match d with
  | MPlain a si => auth_seq (plain_mech a si) lad tt scripts
  | MLogin a si => auth_seq (login_mech a si) lad 0 scripts
  | MCram u s => auth_seq (cram_mech hmac_md5 u s) lad tt scripts
  | MXoauth2 u t => auth_seq (xoauth2_mech u t) lad tt scripts
  | MScram v256 id tab rands =>
      auth_seq (scram_mech (hash_of v256) (hmac_of v256) (hsize_of v256) (table_oracle tab) cfg id) lad (ss_zero, rands) scripts
  end.

(* ---- the Gallina reference SCRAM server with executable crypto, for its own validation against harness/saslx ---- *)
(* one account: [acct] with the credentials derived from the prepared password; result: server-first and, if the
   client-final is accepted, server-final *)
Definition ref_server_run (v256 plus : bool) (cbname cbdata snonce ext acct npass salt : bytes) (iter : nat)
           (cfirst cfinal : bytes) : option (bytes * option bytes) :=
  let c := {| sc_plus := plus; sc_cbname := cbname; sc_cbdata := cbdata; sc_snonce := snonce; sc_ext := ext |} in
  let a := store (hash_of v256) (hmac_of v256) npass salt iter in
  match scram_server_first c (fun u => if bytes_eqb u acct then Some a else None) cfirst with
  | None => None
  | Some (x, sf) => Some (sf, scram_server_final (hash_of v256) (hmac_of v256) c x cfinal)
  end.

(* mail.Client: the dials of one Client value.  Each dial builds its mechanism from the configuration current at that
   moment (auth type, user name, password, TLS state of the new connection: [mk k] for dial k) and starts it in the fresh
   state [s0] - unless auth() kept the mechanism of the first dial ([keeps], Gen.client_auth_keeps_mechanism), in which
   case later dials reuse that value with its state. *)
Fixpoint client_dials {St} (keeps : bool) (mk : nat -> mech St) (lad : bool) (s0 : St) (k : nat) (scripts : list (list reply))
  : list run_obs :=
  match scripts with
  | [] => []
  | sc :: rest =>
      if keeps then auth_seq (mk 0%nat) lad s0 scripts
      else obs_of (auth (mk k) lad false s0 sc) :: client_dials keeps mk lad s0 (S k) rest
  end.

(* the configuration read from the working tree (T1) *)
Definition gen_cfg : scram_cfg :=
  {| start_resets := Gen.scram_start_resets;
     final_requires_first := Gen.scram_final_requires_first;
     done_requires_verified := Gen.scram_done_requires_verified;
     restart_resets := Gen.scram_restart_resets |}.

(* the two records of a command issued after Auth returned (C16: the harness sends NOOP) *)
Definition post_records (o : run_obs) (line : bytes) (r : reply) : list bytes :=
  map log_bytes [rec_c2s (ro_active o) line; rec_s2c (ro_active o) r].
